#!/venv/bin/python
"""Run the pinned test suite (in /repo, or in the worktree given as argv[1])
and compare with /root/.vp/BASELINE.json."""
import json, os, subprocess, sys, tempfile
import xml.etree.ElementTree as ET
wt = os.path.abspath(sys.argv[1]) if len(sys.argv) > 1 else "/repo"
base = json.load(open("/root/.vp/BASELINE.json"))
fd, xml = tempfile.mkstemp(suffix=".xml", dir="/dev/shm" if os.path.isdir("/dev/shm") else None)
os.close(fd)
cmd = ["/venv/bin/python", "-m", "pytest", "-q", "-p", "no:cacheprovider",
       "--timeout=900", "--continue-on-collection-errors", "-n", "8",
       "--junitxml=" + xml]
subprocess.run(cmd, cwd=wt, env=dict(os.environ, PYTHONPATH=wt), stdout=subprocess.DEVNULL, stderr=subprocess.DEVNULL)
passed = set()
for tc in ET.parse(xml).getroot().iter("testcase"):
    if not any(c.tag in ("failure", "error", "skipped") for c in tc):
        passed.add(tc.get("classname") + "::" + tc.get("name"))
os.remove(xml)
want = set(base["stable_pass"])
missing = sorted(want - passed)
print("stable_pass={} passed_now={} missing={}".format(len(want), len(passed & want), len(missing)))
for m in missing[:20]:
    print("  NOT PASSING:", m)
sys.exit(1 if missing else 0)
