#!/venv/bin/python
"""Re-run every kept behaviour-preserving patch (/verif/benign/*/patch.diff)
against all 19 quick checks, each in a scratch worktree (VERIF_REPO);
rewrites meta.json and prints the patches that are not silent."""
import json, os, subprocess, sys, tempfile
from concurrent.futures import ThreadPoolExecutor
HERE = os.path.dirname(os.path.dirname(os.path.abspath(__file__)))
PROPS = [json.loads(l)["id"] for l in open(os.path.join(HERE, "properties.jsonl"))]
def sh(cmd, cwd=None, env=None):
    return subprocess.run(cmd, cwd=cwd, env=env, stdout=subprocess.PIPE, stderr=subprocess.STDOUT, text=True)
ids = sorted(d for d in os.listdir(os.path.join(HERE, "benign")) if os.path.isdir(os.path.join(HERE, "benign", d)))
W = int(os.environ.get("W", "6"))
def worker(k):
    wt = tempfile.mkdtemp(prefix="benall-", dir="/tmp"); os.rmdir(wt)
    sh(["git", "-C", "/repo", "worktree", "add", "-q", "--detach", wt, "HEAD"])
    out = []
    try:
        for b in ids[k::W]:
            d = os.path.join(HERE, "benign", b)
            if sh(["git", "apply", os.path.join(d, "patch.diff")], cwd=wt).returncode:
                out.append((b, {"error": "does not apply"})); continue
            env = dict(os.environ, VERIF_REPO=wt, VERIF_NO_EVIDENCE="1")
            res = {}
            for p in PROPS:
                r = sh([os.path.join(HERE, "check"), p, "--tier", "quick"], cwd=HERE, env=env)
                if r.returncode:
                    res[p] = {"exit": r.returncode, "lines": [l for l in r.stdout.splitlines() if l.startswith("ANALYSIS-ERROR") or l.strip().startswith(("rule ", "where ", "construct "))][:9]}
            sh(["git", "checkout", "--", "."], cwd=wt); sh(["git", "clean", "-fdq"], cwd=wt)
            m = json.load(open(os.path.join(d, "meta.json"))); m["alarms"] = res
            json.dump(m, open(os.path.join(d, "meta.json"), "w"), indent=1)
            out.append((b, res))
    finally:
        sh(["git", "-C", "/repo", "worktree", "remove", "--force", wt])
    return out
with ThreadPoolExecutor(max_workers=W) as ex:
    res = [x for part in ex.map(worker, range(W)) for x in part]
bad = [(b, r) for b, r in res if r]
print("patches", len(res), "silent", len(res) - len(bad))
for b, r in sorted(bad):
    print("ALARM", b, {p: (v.get("exit"), (v.get("lines") or [""])[-1][:100]) if isinstance(v, dict) else v for p, v in r.items()})
