#!/venv/bin/python
"""Parallel regression over every kept seed: in a scratch worktree per
worker, apply the seed, run the TARGET property's quick check against that
worktree (VERIF_REPO), undo.  Prints the seeds the target check does not
report with exit 1.  Does not touch /repo's working tree or meta.json."""
import json, os, subprocess, sys, tempfile
from concurrent.futures import ThreadPoolExecutor
HERE = os.path.dirname(os.path.dirname(os.path.abspath(__file__)))
def sh(cmd, cwd=None, env=None):
    return subprocess.run(cmd, cwd=cwd, env=env, stdout=subprocess.PIPE, stderr=subprocess.STDOUT, text=True)
seeds = sorted(d for d in os.listdir(os.path.join(HERE, "seeded")) if os.path.isdir(os.path.join(HERE, "seeded", d)))
if sys.argv[1:]:
    seeds = [s for s in seeds if s in sys.argv[1:]]
W = 10
def worker(k):
    wt = tempfile.mkdtemp(prefix="seedpar-", dir="/tmp"); os.rmdir(wt)
    sh(["git", "-C", "/repo", "worktree", "add", "-q", "--detach", wt, "HEAD"])
    out = []
    try:
        for sd in seeds[k::W]:
            P = sd.split("-")[0]
            if sh(["git", "apply", os.path.join(HERE, "seeded", sd, "patch.diff")], cwd=wt).returncode:
                out.append((sd, "noapply", [])); continue
            env = dict(os.environ, VERIF_REPO=wt, VERIF_NO_EVIDENCE="1")
            r = sh([os.path.join(HERE, "check"), P, "--tier", "quick"], cwd=HERE, env=env)
            rules = sorted({l.split(":", 1)[1].split("--")[0].strip() for l in r.stdout.splitlines() if l.strip().startswith("rule ")})
            out.append((sd, r.returncode, rules))
            sh(["git", "checkout", "--", "."], cwd=wt)
            sh(["git", "clean", "-fdq"], cwd=wt)
    finally:
        sh(["git", "-C", "/repo", "worktree", "remove", "--force", wt])
    return out
with ThreadPoolExecutor(max_workers=W) as ex:
    res = [x for part in ex.map(worker, range(W)) for x in part]
bad = [(s, c, r) for s, c, r in res if c != 1]
print("seeds", len(res), "reported by target", len(res) - len(bad))
for b in sorted(bad):
    print("NOT REPORTED:", b)
