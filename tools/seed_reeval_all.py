#!/venv/bin/python
"""Re-evaluate every kept seeded change (seeded/<PROP>-<tag>/).

Phase 1 (parallel): in its own scratch worktree of /repo, each seed's
demonstration must pass on the current tree, its patch must apply, the
pinned suite must still pass, and the demonstration must fail with the
patch.  Phase 2 (sequential, in /repo itself as prescribed): apply the
patch, run every property's quick check, undo.  meta.json of each seed is
rewritten; a summary table is printed.
"""
import json
import os
import shutil
import subprocess
import sys
import tempfile
from concurrent.futures import ThreadPoolExecutor

HERE = os.path.dirname(os.path.dirname(os.path.abspath(__file__)))
PROPS = [json.loads(l)["id"] for l in open(os.path.join(HERE,
                                                        "properties.jsonl"))]


def sh(cmd, cwd=None, env=None):
    return subprocess.run(cmd, cwd=cwd, env=env, stdout=subprocess.PIPE,
                          stderr=subprocess.STDOUT, text=True)


def phase1(sd):
    d = os.path.join(HERE, "seeded", sd)
    patch, demo = os.path.join(d, "patch.diff"), os.path.join(d, "demo.py")
    meta = {}
    wt = tempfile.mkdtemp(prefix="seedre-", dir="/tmp")
    os.rmdir(wt)
    r = sh(["git", "-C", "/repo", "worktree", "add", "-q", "--detach", wt,
            "HEAD"])
    if r.returncode:
        return sd, {"error": r.stdout}
    try:
        env = dict(os.environ, PYTHONPATH=wt)
        shutil.copy(demo, os.path.join(wt, "demo_seed.py"))
        r0 = sh(["/venv/bin/python", "demo_seed.py"], cwd=wt, env=env)
        meta["demo_on_original_exit"] = r0.returncode
        ra = sh(["git", "apply", patch], cwd=wt)
        meta["patch_applies"] = ra.returncode == 0
        if meta["patch_applies"]:
            rb = sh([os.path.join(HERE, "tools", "baseline.py"), wt])
            meta["baseline"] = rb.stdout.strip().splitlines()[:3]
            meta["baseline_ok"] = rb.returncode == 0
            r1 = sh(["/venv/bin/python", "demo_seed.py"], cwd=wt, env=env)
            meta["demo_with_patch_exit"] = r1.returncode
            meta["demo_with_patch_tail"] = \
                r1.stdout.strip().splitlines()[-3:]
    finally:
        sh(["git", "-C", "/repo", "worktree", "remove", "--force", wt])
    meta["confirmed"] = bool(
        meta.get("demo_on_original_exit") == 0 and meta.get("patch_applies")
        and meta.get("baseline_ok") and
        meta.get("demo_with_patch_exit", 0) != 0)
    return sd, meta


def phase2(sd):
    patch = os.path.join(HERE, "seeded", sd, "patch.diff")
    detected = {}
    ra = sh(["git", "-C", "/repo", "apply", patch])
    if ra.returncode:
        return {"apply_error": ra.stdout}
    try:
        with ThreadPoolExecutor(max_workers=12) as ex:
            outs = list(ex.map(
                lambda p: sh([os.path.join(HERE, "check"), p, "--tier",
                              "quick"], cwd=HERE), PROPS))
        for p, r in zip(PROPS, outs):
            viol = [l for l in r.stdout.splitlines()
                    if l.startswith("VIOLATION")]
            rules = sorted({l.split(":", 1)[1].split("--")[0].strip()
                            for l in r.stdout.splitlines()
                            if l.strip().startswith("rule ")})
            if r.returncode == 1 or viol:
                detected[p] = rules
            elif r.returncode == 2:
                detected[p] = ["ANALYSIS-ERROR"]
    finally:
        sh(["git", "-C", "/repo", "checkout", "--", "."])
    return detected


def main():
    seeds = sorted(d for d in os.listdir(os.path.join(HERE, "seeded"))
                   if os.path.isdir(os.path.join(HERE, "seeded", d)))
    if sys.argv[1:]:
        seeds = [s for s in seeds if s in sys.argv[1:]]
    if sh(["git", "-C", "/repo", "status", "--porcelain"]).stdout.strip():
        print("/repo is not clean; refusing")
        return 2
    with ThreadPoolExecutor(max_workers=4) as ex:
        p1 = dict(ex.map(phase1, seeds))
    for sd in seeds:
        meta_path = os.path.join(HERE, "seeded", sd, "meta.json")
        old = json.load(open(meta_path)) if os.path.exists(meta_path) else {}
        meta = {"property": sd.split("-")[0], "tag": sd.split("-")[1],
                "note": old.get("note", ""),
                "needs_to_manifest": old.get("needs_to_manifest", ""),
                "ran": ["scratch worktree: demo on original, git apply, "
                        "tools/baseline.py <worktree>, demo with patch",
                        "git -C /repo apply; ./check <all 19> --tier quick; "
                        "git -C /repo checkout -- ."]}
        meta.update(p1[sd])
        det = phase2(sd) if meta.get("patch_applies") else {}
        meta["detected_by"] = det
        meta["caught_by_target_property"] = meta["property"] in det
        json.dump(meta, open(meta_path, "w"), indent=1)
        print("== {} confirmed={} detected_by={}".format(
            sd, meta["confirmed"], json.dumps(det)), flush=True)
    print("ALLDONE")
    return 0


if __name__ == "__main__":
    sys.exit(main())
