#!/venv/bin/python
"""For the seeds given (default: all whose meta says the target property did
not report them): apply in /repo, run the TARGET property's quick check,
undo; update meta.json's detected_by for the target."""
import json, os, subprocess, sys
HERE = os.path.dirname(os.path.dirname(os.path.abspath(__file__)))
def sh(cmd, cwd=None):
    return subprocess.run(cmd, cwd=cwd, stdout=subprocess.PIPE, stderr=subprocess.STDOUT, text=True)
seeds = sys.argv[1:]
if not seeds:
    for sd in sorted(os.listdir(os.path.join(HERE, "seeded"))):
        mp = os.path.join(HERE, "seeded", sd, "meta.json")
        if os.path.exists(mp):
            m = json.load(open(mp))
            if not m.get("caught_by_target_property") or m["detected_by"].get(m["property"]) == ["ANALYSIS-ERROR"]:
                seeds.append(sd)
if sh(["git", "-C", "/repo", "status", "--porcelain"]).stdout.strip():
    sys.exit("/repo not clean")
miss = []
for sd in seeds:
    mp = os.path.join(HERE, "seeded", sd, "meta.json")
    m = json.load(open(mp)); P = m["property"]
    if sh(["git", "-C", "/repo", "apply", os.path.join(HERE, "seeded", sd, "patch.diff")]).returncode:
        print(sd, "does not apply"); continue
    try:
        r = sh([os.path.join(HERE, "check"), P, "--tier", "quick"], cwd=HERE)
    finally:
        sh(["git", "-C", "/repo", "checkout", "--", "."])
    rules = sorted({l.split(":", 1)[1].split("--")[0].strip() for l in r.stdout.splitlines() if l.strip().startswith("rule ")})
    if r.returncode == 1:
        m["detected_by"][P] = rules; m["caught_by_target_property"] = True
    elif r.returncode == 2:
        m["detected_by"][P] = ["ANALYSIS-ERROR"]; miss.append(sd)
    else:
        miss.append(sd)
    json.dump(m, open(mp, "w"), indent=1)
    print(sd, r.returncode, rules, flush=True)
print("NOT CAUGHT BY TARGET:", miss)
