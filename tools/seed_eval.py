#!/venv/bin/python
"""Evaluate a seeded change written by an independent sub-agent.

usage: tools/seed_eval.py <PROP> <tag> <patch> <demo> [--note TEXT]

1. In a scratch worktree of /repo (under /tmp): the demo passes on the
   original, the patch applies, the pinned suite still passes (988), the
   demo fails with the patch.
2. In /repo: apply the patch, run every property's quick check, undo.
3. Store /verif/seeded/<PROP>-<tag>/{patch.diff, demo.py, meta.json}.
"""
import argparse
import json
import os
import shutil
import subprocess
import sys
import tempfile

HERE = os.path.dirname(os.path.dirname(os.path.abspath(__file__)))
PROPS = [json.loads(l)["id"] for l in open(os.path.join(HERE,
                                                        "properties.jsonl"))]


def sh(cmd, cwd=None, env=None):
    return subprocess.run(cmd, cwd=cwd, env=env, stdout=subprocess.PIPE,
                          stderr=subprocess.STDOUT, text=True)


def main():
    ap = argparse.ArgumentParser()
    ap.add_argument("prop")
    ap.add_argument("tag")
    ap.add_argument("patch")
    ap.add_argument("demo")
    ap.add_argument("--note", default="")
    ap.add_argument("--needs", default="")
    args = ap.parse_args()
    patch = os.path.abspath(args.patch)
    demo = os.path.abspath(args.demo)
    meta = {"property": args.prop, "tag": args.tag, "note": args.note,
            "needs_to_manifest": args.needs, "ran": []}
    # -- 1. scratch worktree -------------------------------------------
    wt = tempfile.mkdtemp(prefix="seedeval-", dir="/tmp")
    os.rmdir(wt)
    r = sh(["git", "-C", "/repo", "worktree", "add", "-q", wt, "HEAD"])
    if r.returncode:
        print(r.stdout)
        return 2
    try:
        env = dict(os.environ, PYTHONPATH=wt)
        shutil.copy(demo, os.path.join(wt, "demo_seed.py"))
        r0 = sh(["/venv/bin/python", "demo_seed.py"], cwd=wt, env=env)
        meta["demo_on_original_exit"] = r0.returncode
        ra = sh(["git", "apply", patch], cwd=wt)
        meta["patch_applies"] = ra.returncode == 0
        if ra.returncode:
            print("PATCH DOES NOT APPLY", ra.stdout)
        else:
            rb = sh([os.path.join(HERE, "tools", "baseline.py"), wt])
            meta["baseline"] = rb.stdout.strip().splitlines()[:3]
            meta["baseline_ok"] = rb.returncode == 0
            r1 = sh(["/venv/bin/python", "demo_seed.py"], cwd=wt, env=env)
            meta["demo_with_patch_exit"] = r1.returncode
            meta["demo_with_patch_tail"] = r1.stdout.strip().splitlines()[-3:]
        meta["ran"].append("scratch worktree: demo on original, git apply, "
                           "tools/baseline.py <worktree>, demo with patch")
    finally:
        sh(["git", "-C", "/repo", "worktree", "remove", "--force", wt])
    valid = (meta.get("demo_on_original_exit") == 0 and
             meta.get("patch_applies") and meta.get("baseline_ok") and
             meta.get("demo_with_patch_exit", 0) != 0)
    meta["confirmed"] = bool(valid)
    # -- 2. our checks on /repo with the patch --------------------------
    detected = {}
    st = sh(["git", "-C", "/repo", "status", "--porcelain"])
    if st.stdout.strip():
        print("/repo is not clean; refusing")
        return 2
    if meta.get("patch_applies"):
        ra = sh(["git", "-C", "/repo", "apply", patch])
        try:
            from concurrent.futures import ThreadPoolExecutor
            with ThreadPoolExecutor(max_workers=10) as ex:
                outs = list(ex.map(
                    lambda p: sh([os.path.join(HERE, "check"), p, "--tier",
                                  "quick"], cwd=HERE), PROPS))
            for p, r in zip(PROPS, outs):
                viol = [l for l in r.stdout.splitlines()
                        if l.startswith("VIOLATION")]
                rules = sorted({l.split(":", 1)[1].split("--")[0].strip()
                                for l in r.stdout.splitlines()
                                if l.strip().startswith("rule ")})
                if r.returncode == 1 or viol:
                    detected[p] = rules
                elif r.returncode == 2:
                    detected[p] = ["ANALYSIS-ERROR"]
        finally:
            sh(["git", "-C", "/repo", "checkout", "--", "."])
        meta["ran"].append("git -C /repo apply; ./check <all 19> --tier "
                           "quick; git -C /repo checkout -- .")
    meta["detected_by"] = detected
    meta["caught_by_target_property"] = args.prop in detected
    # restore clean evidence
    # -- 3. store ------------------------------------------------------
    out = os.path.join(HERE, "seeded", "{}-{}".format(args.prop, args.tag))
    os.makedirs(out, exist_ok=True)
    for srcf, name in ((patch, "patch.diff"), (demo, "demo.py")):
        dst = os.path.join(out, name)
        if os.path.abspath(srcf) != os.path.abspath(dst):
            shutil.copy(srcf, dst)
    with open(os.path.join(out, "meta.json"), "w") as fh:
        json.dump(meta, fh, indent=1)
    print(json.dumps({k: meta[k] for k in (
        "confirmed", "demo_on_original_exit", "demo_with_patch_exit",
        "baseline_ok", "detected_by")}, indent=1, default=str))
    return 0


if __name__ == "__main__":
    sys.exit(main())
