#!/venv/bin/python
"""Round-10 prompts from the round-9 ones (tools/make_prompts9.py output in
/tmp/seed9): new exclusions (sites and kinds of slip used in round 9), more
already-known original issues."""
NEW_SITES = {
 "C01": ["`Processor._get_nodes_by_match_all_filtered`: early `return` for `Nodes.node_is_leaf(data)`",
         "`Searches.search_matches`: `str(typed_needle)` for `str(needle)` in the ordering arms"],
 "C02": ["`processor.py`: an `lru_cache`d wrapper around `escape_path_section` (1 == True share an entry)",
         "`Processor._get_nodes_by_key`, list arm: path built from the segment text instead of the parsed index"],
 "C03": ["`Nodes.make_new_node`, FLOAT branch: `_width` copied from the old node",
         "`Processor.set_value`: matches skipped by `id(node)`"],
 "C04": ["`Processor._delete_nodes`, list arm: index shifted by the count of earlier deletions with a smaller raw index",
         "`Processor._delete_nodes`, already-gone test widened to the identity of the node"],
 "C05": ["`Anchors.replace_anchor`: `data[repl_node] = data.pop(key)`",
         "`Merger._merge_sets`: optional `node_coord` built from its own operand"],
 "C06": ["`Differ._diff_between`: visited-pairs set keyed by `id()` (aliases compared once)",
         "`DifferConfig.aoh_diff_key`: first key holding a scalar, no fall-through"],
 "C07": ["`search_for_paths`: `len(list(pool))` on the `non_merged_items()` generator in a debug line",
         "`process_yaml_file`, except stage: `remove()` while iterating without `break`"],
 "C08": ["`YAMLPath._parse_path`, regex arm: look-behind for an escaped delimiter",
         "`PathSeparators.infer_separator`: leading `(` skipped"],
 "C09": ["`Processor._get_optional_nodes`: `data.insert(pos, key, node)` (concretises merge keys)",
         "`Processor._collector_addition`: wrappers stored back into the operand list"],
 "C10": ["`Merger._resolve_anchor_conflicts`: names matching ruamel's `templated_id` skipped",
         "`Merger._merge_dicts`, scalar arm: `Anchors.replace_anchor(lhs, ...)` on the Hash at hand"],
 "C11": ["`Merger._insert_list`: `parent=target.parent, parentref=target.parentref`",
         "`yaml_merge.processcli`: `type=str.lower` on `--mergeat`"],
 "C12": ["`Searches.search_matches`: `numbers.Number` for `(int, float)`",
         "`Processor._get_nodes_by_search`, descendant arm: yield moved into the loop"],
 "C13": ["`Nodes.node_is_aoh`: False for a list without any Hash",
         "`KeywordSearches.parent`: climb by two slices (`ancestry[-steps:]`, steps = 0)"],
 "C14": ["`YAMLPath._parse_path`: new post-loop check whose `raise` builds the exception with one argument",
         "`YAMLPath._parse_path`: new check written `return YAMLPathException(...)`"],
 "C15": ["`Nodes.node_is_aoh`: NodeCoords elements unwrapped",
         "`NodeCoords.__eq__` (`self.node == rhs.node`) plus `__hash__`"],
 "C16": ["`yaml_merge.processcli`: `default=` on the five policy options",
         "`yaml_set.write_document_as_yaml`: `.json` among all `.suffixes`"],
 "C17": ["`Merger.prepare_for_dump`: JSON dump-and-reload replaced by `jsonify_yaml_data`",
         "`yaml_set.validateargs`: writability probe with `open(file, 'a')`"],
 "C18": ["`yaml_merge.processcli`: `--multidoc-mode` spelled before `--multi-doc-mode` (dest changes)",
         "`MergerConfig._prepare_user_rules`: `remove_option` after the no-match warning"],
 "C19": ["`eyaml_rotate_keys.main`: `list(node_coordinates)` in a debug line before the loop",
         "`Processor._update_node.recurse`, sequence arm: parenthesis moved in the alias test"],
}
NEW_KINDS = (
 "; an early return for `node_is_leaf()` / any helper predicate that misjudges ruamel classes; re-rendering a parsed value "
 "(`str(typed_needle)`); memoising by a key that conflates 1 / True / 1.0; building path text from the segment text; "
 "copying presentation fields (`_width`, `_prec`) between nodes; skipping work by `id(obj)`; adjusting a recorded index by "
 "counting other records; widening an already-handled test to object identity; `m[k2] = m.pop(k1)` re-keying; an optional "
 "parameter defaulted from the callee's own operand; visited-sets keyed by `id()` in a recursive comparer; searching for a "
 "'suitable' fallback key; consuming a generator in a log line; `list.remove()` while iterating; look-behind escape tests; "
 "skipping leading characters in notation inference; `CommentedMap.insert()`; storing wrappers back into an operand list; "
 "filtering names by spelling; calling a whole-document routine on a sub-tree; passing the target's coordinates where the "
 "source's are meant; `type=str.lower` / `default=` / an extra first long spelling on an argparse option; `numbers.Number`; "
 "moving a yield into the loop that gathers its evidence; demanding 'at least one' in a universal test; slice arithmetic "
 "with `-0`; a new validation whose raise is malformed or is a `return`; unwrapping inside a predicate; `__eq__` / "
 "`__hash__` on a wrapper class; `.suffixes` for `.suffix`; removing a dry-run serialisation; probing writability with "
 "`open(..., 'a')`; editing a shared ConfigParser; a moved parenthesis in a boolean test")
NEW_KNOWN = (
 "; anchored booleans in searches; nulls compared as the text None; leading zeros / underscores in numeric path text; "
 "integer set members; `*[0]` / `**[0]` meeting a set; descending or mixed-sign gather order in deletes; `[min(])`-style "
 "unbalanced keyword text; regex flags that make re.compile raise ValueError; MemoryError from enormous literal text; "
 "`(&a)`, `(a).-b`, quoted brackets; rules / keys ignored when a Hash or Set is re-wrapped for an Array or Hash target; "
 "merger crashes on impossible kind combinations (scalar target with hashes=left|right, empty right-hand list over a "
 "scalar, non-string keys in the missing-key message, mixed Arrays-of-Hashes); `%` and `:` in configuration files; "
 "empty / all-null lists counting as Arrays-of-Hashes; `.nan`; self-referential aliases; DiffEntry printing rewriting "
 "live nodes; tz offsets of 24h and more; `--saveto` of a Hash; matrix-mode deep copies of timestamps; scalar root merged "
 "into scalar root; yaml-get on a null document; aliased containers searched without `-a`")
import sys
for P in sorted(NEW_SITES):
    t = open("/tmp/seed9/{}.prompt.txt".format(P)).read()
    t = t.replace("seed9", "seed10").replace("a NINTH round", "a TENTH round")
    marker = ".  Find a genuinely different mechanism."
    assert t.count(marker) == 1, P
    t = t.replace(marker, NEW_KINDS + marker)
    lines = t.split("\n")
    last = max(i for i, l in enumerate(lines) if l.startswith("  - "))
    lines[last + 1:last + 1] = ["  - " + s for s in NEW_SITES[P]]
    t = "\n".join(lines)
    end = "unreferenced anchors being dropped and `---` being added on rewrite.)"
    assert t.count(end) == 1, P
    t = t.replace(end, end[:-2] + NEW_KNOWN + ".)")
    open("/tmp/seed10/{}.prompt.txt".format(P), "w").write(t)
print("ok")
