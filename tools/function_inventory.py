#!/venv/bin/python
"""Write sa/function_inventory.json: every module-level function and method
of /repo/yamlpath as confirmed today (read by sa/normalize.py)."""
import ast, json, os, sys
sys.path.insert(0, os.path.dirname(os.path.dirname(os.path.abspath(__file__))))
from sa.normalize import qualnames
inv = {}
for dp, dn, fns in os.walk(os.environ.get("VERIF_REPO", "/repo") + "/yamlpath"):
    dn[:] = sorted(d for d in dn if d != "__pycache__")
    for fn in sorted(fns):
        if fn.endswith(".py"):
            full = os.path.join(dp, fn)
            rel = os.path.relpath(full, os.environ.get("VERIF_REPO", "/repo"))
            inv[rel] = sorted({q for q, _, _ in qualnames(ast.parse(open(full, encoding="utf-8").read()))})
out = os.path.join(os.path.dirname(os.path.dirname(os.path.abspath(__file__))), "sa", "function_inventory.json")
json.dump(inv, open(out, "w"), indent=1, sort_keys=True)
print(sum(len(v) for v in inv.values()), "functions in", len(inv), "modules")
