#!/venv/bin/python
"""Build rules/borrow_table.json from the kept seeded changes.

For every seeded change whose target property P is not the property that
owns the rule which reports it: apply the patch to /repo, run the quick
checks of the properties that report it, collect (rule, function) of each
new finding, undo.  The table maps P -> owner property Q -> rule -> sorted
functions, with the seeds that justify the entry.  It is read by
sa/borrow.py; it is a frozen attribution table (which rule instances are
necessary conditions of which other property), not a description of source
text.
"""
import json
import os
import re
import subprocess
import sys
from concurrent.futures import ThreadPoolExecutor

HERE = os.path.dirname(os.path.dirname(os.path.abspath(__file__)))
PROPS = [json.loads(l)["id"] for l in open(os.path.join(HERE,
                                                        "properties.jsonl"))]


def sh(cmd, cwd=None):
    return subprocess.run(cmd, cwd=cwd, stdout=subprocess.PIPE,
                          stderr=subprocess.STDOUT, text=True)


def findings(out):
    res = []
    rule = None
    for line in out.splitlines():
        m = re.match(r"\s+rule\s+: (\S+) --", line)
        if m:
            rule = m.group(1)
        m = re.match(r"\s+where\s+: \S+ in (.+)$", line)
        if m and rule:
            res.append((rule, m.group(1).strip()))
            rule = None
    return res


def main():
    only = set(sys.argv[1:])
    table_path = os.path.join(HERE, "rules", "borrow_table.json")
    table = {}
    if only and os.path.exists(table_path):
        table = json.load(open(table_path))
    seeds = sorted(d for d in os.listdir(os.path.join(HERE, "seeded"))
                   if os.path.isdir(os.path.join(HERE, "seeded", d)))
    if sh(["git", "-C", "/repo", "status", "--porcelain"]).stdout.strip():
        print("/repo is not clean; refusing")
        return 2
    for sd in seeds:
        if only and sd not in only:
            continue
        meta = json.load(open(os.path.join(HERE, "seeded", sd, "meta.json")))
        P = meta["property"]
        if not only and P in meta.get("detected_by", {}) and \
                meta["detected_by"][P] != ["ANALYSIS-ERROR"]:
            continue
        patch = os.path.join(HERE, "seeded", sd, "patch.diff")
        if sh(["git", "-C", "/repo", "apply", patch]).returncode:
            print("!!", sd, "does not apply")
            continue
        try:
            with ThreadPoolExecutor(max_workers=10) as ex:
                outs = list(ex.map(
                    lambda p: sh([os.path.join(HERE, "check"), p, "--tier",
                                  "quick"], cwd=HERE),
                    PROPS))
        finally:
            sh(["git", "-C", "/repo", "checkout", "--", "."])
        got = {}
        for Q, r in zip(PROPS, outs):
            for rule, func in findings(r.stdout):
                owner = rule.split("-")[0]
                if owner == P:
                    continue
                ent = table.setdefault(P, {}).setdefault(owner, {}) \
                    .setdefault(rule, {"functions": [], "seeds": []})
                if func not in ent["functions"]:
                    ent["functions"].append(func)
                    ent["functions"].sort()
                if sd not in ent["seeds"]:
                    ent["seeds"].append(sd)
                got.setdefault(Q, []).append((rule, func))
        print("==", sd, json.dumps(got), flush=True)
    json.dump(table, open(table_path, "w"), indent=1, sort_keys=True)
    print("written", table_path)
    return 0


if __name__ == "__main__":
    sys.exit(main())
