#!/bin/bash
# usage: tools/try_patch.sh <patch> PROP...   -- run quick checks against a scratch worktree with the patch applied
patch=$(realpath "$1"); shift
wt=$(mktemp -u /tmp/trypatch-XXXXXX)
git -C /repo worktree add -q --detach "$wt" HEAD || exit 3
( cd "$wt" && git apply "$patch" ) || { git -C /repo worktree remove --force "$wt"; echo "patch does not apply"; exit 3; }
for p in "$@"; do
  VERIF_REPO="$wt" VERIF_NO_EVIDENCE=1 /verif/check "$p" --tier quick > /tmp/try_$p.out 2>&1
  echo "$p exit=$?"; grep -E "^ANALYSIS-ERROR|^  (rule|where|construct|diagnosis) " /tmp/try_$p.out | cut -c1-260 | head -${LINES_MAX:-12}
done
git -C /repo worktree remove --force "$wt"
