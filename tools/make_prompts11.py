#!/venv/bin/python
"""Round-11 prompts from the round-10 ones (/tmp/seed10): new exclusions."""
NEW_SITES = {
 "C01": ["`Processor._get_nodes_by_search`, list arm: `or` rewritten as a conditional expression (operator skipped for Array-of-Hashes elements)",
         "`Processor._get_nodes_by_key`, list arm: `abs(idx) < len(data)`"],
 "C02": ["`KeywordSearches._has_concrete_child`: one shared ancestry list pushed / popped",
         "`Processor._get_nodes_by_anchor`: anchor name no longer escaped in the reported path"],
 "C03": ["`Nodes.make_new_node`, DEFAULT branch: multi-line BARE switched to LITERAL",
         "`Nodes.make_new_node`, TIMESTAMP branch: `astimezone(timezone.utc)` on parsed text"],
 "C04": ["`Processor._delete_nodes`: `for (merge_pos, merge_node) in parent.merge` (stored position used as index)",
         "`Processor.delete_gathered_nodes`: sorted by path text"],
 "C05": ["`Merger._merge_arrays_of_hashes`: `rhs = list(rhs)` hoisted (RIGHT returns a plain list)",
         "`MergerConfig.aoh_merge_key`: record and Array look-ups folded into one pass"],
 "C06": ["`Differ._diff_synced_lists`: remembered positions into `self._diffs`",
         "`Differ.__init__`: `unwrap_node_coords(document)`"],
 "C07": ["`search_for_paths`: key `search_anchor` call only when `search_anchors`",
         "`search_for_paths`, merge-key block: `ref_node.anchor.value` instead of the table look-up"],
 "C08": ["`YAMLPath._stringify_yamlpath_segments`: SEARCH and KEYWORD_SEARCH arms folded under the SearchTerms guard",
         "`YAMLPath._expand_splats`: `segment_id[pos - 1] == \"*\"` look-behind"],
 "C09": ["`Processor._get_optional_nodes`: `if value is None: return` before creating",
         "`Nodes.build_next_node`: numeric KEY text builds an Array"],
 "C10": ["`Merger._resolve_anchor_conflicts`: running table of known names with the old name discarded",
         "`Anchors.rename_anchor`: `isinstance(x, ANCHORABLE_TYPES)` instead of hasattr"],
 "C11": ["`Merger._delete_mergeref_keys`: keys taken from the maps in `data.merge`",
         "`Merger._merge_arrays_of_hashes`: candidate records collected once before the loop"],
 "C12": ["`Searches.search_matches`: haystack through `tagless_value()` and then `typed_value()`",
         "`Processor._get_nodes_by_search`, scalar arm: inversion folded in with `!= invert`"],
 "C13": ["`KeywordSearches.min`, hash-of-hashes arm: `<=` for `<`",
         "`Processor._get_nodes_by_keyword_search`: honours `traverse_lists`"],
 "C14": ["`YAMLPath._parse_path`, keyword-closing arm: reads `SearchKeywordTerms.parameters` (ValueError)",
         "`YAMLPath._parse_path`: conjuncts of the `]`-closing test reordered"],
 "C15": ["`Processor._get_nodes_by_search`, list descendant arm: `next(generator)` without default",
         "`Nodes.get_timestamp_with_tzinfo`: optional minutes group, `int(minutes)`"],
 "C16": ["`ConsolePrinter.__init__`: quiet / verbose / debug copied once",
         "`Parsers.get_yaml_data` / `get_yaml_multidoc_data`: `errors='replace'`"],
 "C17": ["`Parsers.get_yaml_data`: `next(iter(parser.load_all(...)), None)`",
         "`yaml_merge.merge_matrix`: nested helper assigning `return_state` without `nonlocal`"],
 "C18": ["`Parsers._load_all_strictly`: `next(documents, None)` with a None test",
         "`yaml_merge.write_output_document`: format decided by the last prepared document"],
 "C19": ["`EYAMLProcessor._find_eyaml_paths`: `items()` minus keys a merge source also has",
         "`eyaml_rotate_keys.main`: documents whose root is not a dict skipped"],
}
NEW_KINDS = (
 "; rewriting `a or b` as a conditional expression; `abs(i) < len(x)` as a bounds test; a shared list pushed / popped "
 "around a recursive generator; dropping an escape because 'no separator is recognised there'; overriding an inferred "
 "presentation for a class of values; `astimezone()` on possibly naive datetimes; using a stored position as an index; "
 "sorting by path text; hoisting `x = list(x)`; folding two look-ups with different precedence into one loop; remembered "
 "positions into a list that is popped from; 'unwrapping' a root document; making a classifying call conditional on an "
 "option; reading `.anchor.value` instead of a table look-up; folding two rendering arms under one isinstance guard; "
 "`s[pos - 1]` look-behind at pos 0; `if value is None: return`; choosing a container kind from segment text; a running "
 "name table that frees a name too early; an isinstance list of 'anchorable' types; collecting candidates once before a "
 "loop that appends; double `typed_value()`; folding inversion in with `!= invert`; `<=` for `<` in an extreme scan; a "
 "callee starting to honour an argument it used to ignore; reading a lazily parsed property at parse time; reordering "
 "the conjuncts of a guard; `next(gen)` without default inside a generator; an optional regex group reaching `int()`; "
 "caching option flags at construction; `errors='replace'`; `load_all` for `load`; a nested helper assigning an outer "
 "variable without `nonlocal`; `next(it, None)` as end-of-stream test; taking a verdict from the last loop iteration; "
 "skipping documents by the kind of their root")
for P in sorted(NEW_SITES):
    t = open("/tmp/seed10/{}.prompt.txt".format(P)).read()
    t = t.replace("seed10", "seed11").replace("a TENTH round", "an ELEVENTH round")
    marker = ".  Find a genuinely different mechanism."
    assert t.count(marker) == 1, P
    t = t.replace(marker, NEW_KINDS + marker)
    lines = t.split("\n")
    last = max(i for i, l in enumerate(lines) if l.startswith("  - "))
    lines[last + 1:last + 1] = ["  - " + s for s in NEW_SITES[P]]
    t = "\n".join(lines)
    open("/tmp/seed11/{}.prompt.txt".format(P), "w").write(t)
print("ok")
