#!/venv/bin/python
"""Round-9 prompts from the round-8 ones: new exclusions (sites and kinds of
slip used in round 8), new suggestions, more already-known original issues."""
import re, sys
NEW_SITES = {
 "C01": ["`YAMLPath._parse_path`: `char == \" \"` widened to `char.isspace()`",
         "`Processor._get_nodes_by_traversal`, filtered half: a Set arm that recurses into members"],
 "C02": ["`YAMLPath.escape_path_section`: Unicode normalisation (NFC) of the key text",
         "`YAMLPath._stringify_yamlpath_segments`, KEY arm: line breaks shown as `\\n`"],
 "C03": ["`Nodes.make_float_node`: twin constructors folded into one plus `yaml_set_anchor` (always_dump lost)",
         "`Processor._apply_change`: skip when `node == value`"],
 "C04": ["`Processor.delete_nodes`: deletion moved into `finally:`",
         "`Processor._get_nodes_by_anchor`, list arm: enumerate over a filtered generator (index drift)"],
 "C05": ["`Merger._merge_simple_lists`: frozenset index of the de-tagged left elements",
         "`Merger.merge_with`: `merge_performed = merge_performed or self._insert_*()`"],
 "C06": ["`Differ._diff_dicts`: `sorted(lhs_keys - rhs_keys)`",
         "`DifferConfig.prepare`: `self.rules = self.keys = {}`"],
 "C07": ["`YAMLPath._parse_path`: `char.isspace()`",
         "`search_for_paths`: key-anchor and key-name tests merged (double inversion)"],
 "C08": ["`YAMLPath._parse_path`, Collector-closing arm: `demarc_stack[-1] == \"(\"` dropped",
         "`SearchTerms.__init__`: quotes stripped from the attribute"],
 "C09": ["`Processor._get_nodes_by_match_all`: no pre-filter when the next segment is a plain KEY/INDEX",
         "`Processor._get_nodes_by_collector`, flatten step: a list of NodeCoords adopted as accumulator (`all()` over empty)"],
 "C10": ["`Merger._resolve_anchor_conflicts`: overrides deferred as lambdas (late binding)",
         "`Merger._merge_dicts`: deep copy of un-anchored right-hand containers"],
 "C11": ["`Merger.merge_with`: `merge_performed or ...` short-circuit",
         "`Merger.merge_with`: `rhs = deepcopy(rhs)` for later targets"],
 "C12": ["`Processor._get_nodes_by_search`, Hash arm: `data.get(attr) is not None` for `attr in data`",
         "`Processor._get_nodes_by_search`, set arm: `sorted(data)`"],
 "C13": ["`Processor._get_nodes_by_key`, int-key fallback: ancestry built from the text key",
         "`SearchKeywordTerms.parameters`: `char.isspace()`"],
 "C14": ["`YAMLPath._parse_path`, `]`-closing arm: `assert segment_type is not None`",
         "`YAMLPath._stringify_yamlpath_segments`, ANCHOR arm: `\"&\" + segment_attrs`"],
 "C15": ["`Processor._get_nodes_by_key`, Hash arm: `isdigit()` pre-check instead of try/int()",
         "`KeywordSearches.max`: inverted results `sorted(..., key=parentref)`"],
 "C16": ["`yaml_paths.process_yaml_file`: inner loop re-uses the name `expression`",
         "`yaml_merge.main`: LHS chosen by `file_index == 0`"],
 "C17": ["`yaml_merge.get_doc_mergers`: `docs_loaded` for `doc_loaded` (guard becomes dead code)",
         "`yaml_set._get_nodes`: `return` moved into `finally:`"],
 "C18": ["`merge_across`: extend + zip (surplus merged with itself)",
         "`merge_condense_all`: helper that resets the error state per document"],
 "C19": ["`EYAMLProcessor.decrypt_eyaml`: output cut at the first newline",
         "`EYAMLProcessor.encrypt_eyaml`: newline appended to multi-line values"],
}
NEW_KINDS = (
 "; widening `char == \" \"` to `char.isspace()` or any other str predicate; a recursion arm added to one of two sibling "
 "traversals 'for parity'; Unicode normalisation or display-escaping (`\\n`) of key text; folding twin constructor calls "
 "into one call plus a setter whose default differs; a skip-when-equal (`==`) shortcut before a write; doing the work in "
 "a `finally:` block or `return` inside `finally`; enumerating a filtered generator and using the position as an index; "
 "a set/frozenset index of possibly unhashable values; `done = done or work()` short-circuits; `sorted()`/`min()`/`max()` "
 "over mixed-type keys or with a non-total key function; `a = b = {}` aliasing; tidying (quote stripping) in a constructor "
 "whose `__str__` prints the field verbatim; dropping the `stack[-1]` test from a closing arm; skipping a pre-filter when "
 "the next segment looks simple; `all()` over an empty list; lambdas created in a loop and called later; deep-copying a "
 "right-hand subtree or document; `d.get(k) is not None` for `k in d`; `isdigit()` pre-checks that disagree with `int()`; "
 "a singular/plural variable mix-up that makes a guard dead; `zip` after `extend`; a helper that resets shared error state; "
 "`assert` in library code; `+` between text and a non-text object; re-using an outer variable as an inner loop target; "
 "choosing a role by position instead of by state; cutting tool output at the first newline or appending one")
NEW_IDEAS = (
 "  Fresh directions worth a look (each still has to break THIS property): modules rarely touched so far -- "
 "`yamlpath/wrappers/nodecoords.py` (unwrap_node_coords, wraps_a, __repr__/__str__), `yamlpath/wrappers/consoleprinter.py` "
 "(debug dumps that iterate document data), `yamlpath/enums/*.py` and `merger/enums/*.py`, `differ/enums/*.py` (from_str, "
 "get_names, from_operator), `yamlpath/differ/diffentry.py` (index arithmetic, _jsonify, __str__), `yamlpath/merger/mergerconfig.py` "
 "and `differ/differconfig.py` (rule look-up by node identity, prepare()), `yamlpath/common/parsers.py` (jsonify_yaml_data, "
 "stringify_dates, set_flow_style, delete_all_comments), `yamlpath/common/nodes.py` (wrap_type, build_next_node, clone_node, "
 "node_is_leaf / node_is_aoh, tagless_*, make_date_node / get_timestamp_with_tzinfo), `yamlpath/common/anchors.py` "
 "(scan_for_anchors, rename_anchor, replace_merge_anchor, generate_unique_anchor_name), `yamlpath/eyaml/eyamlprocessor.py` "
 "(can_run_eyaml, _find_eyaml_paths, set_eyaml_value, get_eyaml_values), `yamlpath/func.py`-style helpers; mechanisms: "
 "arithmetic on ancestry depth (`parent(N)`), attribute vs item access on ruamel objects (`.fa`, `.ca`, `.tag`, `.anchor`, `.merge`), "
 "presentation state copied or lost when a node is replaced (comments, flow style, quoting), generators consumed twice, "
 "a `property` with a side effect read in a debug statement, `__hash__`/`__eq__` disagreement, integer/float/bool subclass "
 "relationships (`isinstance(True, int)`), `datetime` vs `date` subclassing, time-zone handling, text encodings "
 "(ascii vs utf-8), `os.path` vs `pathlib` differences, default `encoding=` of open(), `sys.stdin` being consumed twice, "
 "exit codes combined with `or`/`max`, argparse `nargs`/`type=`/`choices=` interplay, mutually exclusive groups, "
 "`--pathsep`/`--notation` interplay, multi-document streams with an empty or failing document in the middle.")
NEW_KNOWN = (
 "; merge references (`h[&anchor]`) and their parentref; the anchor of a container created through an Anchor segment "
 "not being written; anchored Hashes/Arrays that occur only as list elements being invisible to anchor scans; anchors "
 "inside sets; `(&a)` Collectors after a separator recorded under the ANCHOR type; a regex term containing `/`; brackets, "
 "parentheses or the other kind of quote inside a quoted segment; huge slice bounds being slow; integers of more than 4300 "
 "digits; tags on non-string scalars failing at dump time; folded values ending in a space; `--anchor` names with flow "
 "indicators; set_value on a path ending in an empty key (`a.''`); plain-`dict` documents; a partially created path left "
 "behind when a later step of the same set fails; `-0.0`; non-ASCII or whitespace-only EYAML plaintexts; plaintext that "
 "itself starts with `ENC[`; tagged or set-member EYAML values; non-string Hash keys (bool, float, null, date) in reported "
 "paths; an int key and its text twin in one Hash; redefined anchor names; yaml-merge `-w` on a missing file with `-b`; "
 "unreferenced anchors being dropped and `---` being added on rewrite")
for P in sorted(NEW_SITES):
    t = open("/tmp/seed8/{}.prompt.txt".format(P)).read()
    t = t.replace("seed8", "seed9").replace("an EIGHTH round", "a NINTH round")
    t = t.replace("; `items()` for `non_merged_items()`.  Find a genuinely different mechanism.",
                  "; `items()` for `non_merged_items()`" + NEW_KINDS + ".  Find a genuinely different mechanism." + NEW_IDEAS)
    assert NEW_KINDS in t, P
    # per-property site list: append after the last "  - " line of the block
    lines = t.split("\n")
    last = max(i for i, l in enumerate(lines) if l.startswith("  - "))
    lines[last + 1:last + 1] = ["  - " + s for s in NEW_SITES[P]]
    t = "\n".join(lines)
    t = t.replace("; RecursionError on extremely deep input.)", "; RecursionError on extremely deep input" + NEW_KNOWN + ".)")
    assert NEW_KNOWN in t, P
    open("/tmp/seed9/{}.prompt.txt".format(P), "w").write(t)
print("ok")
