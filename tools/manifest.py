#!/venv/bin/python
"""Regenerate MANIFEST.json from the table below (run after adding a check)."""
import json, os
HERE = os.path.dirname(os.path.dirname(os.path.abspath(__file__)))
IDS = [json.loads(l)["id"] for l in open(os.path.join(HERE, "properties.jsonl"))]

CHECKS = {
 "C14": dict(
  text="Static decision over every code path of the parser closure: depth typestate of the demarcation stack, exception-escape (explicit raises and guarded partial operations) and loop/recursion shape. Sound for the clauses decided, modulo the stated library model; no input is executed.",
  note="Trusted base: library model of which builtin operations raise (sa/partial.py), Python's structured control flow; resource-limit errors (RecursionError/MemoryError) declined.",
  technique="abstract interpretation (stack-depth typestate) + guard-dominance exception-escape analysis over the AST"),
 "C15": dict(
  text="Exception-escape fixpoint over the call graph of get_nodes()/exists() plus discharge of every partial operation (two-sided bounds, presence tests, handlers, loop headers, entry invariants proven at all call sites, listed shape invariants) and type-safety of ordering / `in` / dict-key uses. Decides the 'never a foreign exception' clause for all inputs reaching each construct; RecursionError on deep documents is declined. The (segment type, attributes) pairs the dispatcher's exhaustive ladder relies on are protected by the parser re-arm rule (C15-D1b). Inside a branch taken on the unwrapped form of its input a keyword search unwraps an element before using it as a mapping. No `.join()` ranges over unconverted document data.",
  note="Trusted base: library model (sa/partial.py), ruamel shape facts (merge entries are pairs, anchor names are str), ConsolePrinter and value-wrapping helpers outside the closure.",
  technique="interprocedural exception-escape analysis + guard-fact discharge of partial operations (linear bounds, presence, entry invariants)"),
 "C09": dict(
  text="Effect (purity) analysis of the whole read path with a freshness lattice and interprocedural mutation summaries: no mutation site may have a possibly-document receiver; in the optional-match driver every document mutation is dominated by the no-match test and has one of the three tail-creation forms with the padding loop in linear normal form. Decides the structural necessary conditions for all inputs; the value-level frame condition is declined. The match counter is incremented on every path through one candidate's handling and never reset; padded list slots are built per iteration. A set member is compared with segment text only after its tag wrapper is removed. The `*` dispatcher pre-filters children exactly when a segment follows (all path lengths 1..4 x positions).",
  note="Trusted base: MUTATORS and FRESH_CALLS tables (which methods mutate, which calls return new objects); ConsolePrinter outside the closure.",
  technique="interprocedural effect/purity analysis with freshness lattice + guard dominance over the AST"),
 "C02": dict(
  text="Construction-site and call-site consistency of every coordinate tuple in the evaluator (node, parent, parentref, path, ancestry derived from one container/key pair; key text only through the escaping routine with the path's own separator), immutability of handed-out path/ancestry objects, and inclusion of the parser's base-state special characters in the escape alphabet. Decides these necessary conditions on every path of the code; uniqueness of re-resolution is declined. Every NodeCoords yielded for a set member carries the member itself as node and parentref (sibling agreement of the set branches).",
  note="Trusted base: loop headers (enumerate/items/iteration) and subscripts give an element's key; YAMLPath '+' copies (checked).",
  technique="construction-site / call-site consistency analysis (derivation of node from container+key, reaching definitions), mutation-site classification, partial evaluation of the parser per character"),
 "C12": dict(
  text="The complete operator x haystack-kind x needle-kind decision table (450 cells) of Searches.search_matches is extracted by partial evaluation of its AST and compared cell by cell with an oracle table written from the documented rules; typed_value's boolean spellings and caught failures, exception escape, and the XOR truth table of each inversion predicate are decided structurally. Exhaustive over the finite kind lattice; Python's operator semantics and literal_eval's classification are the trusted base. Every result yielded by the search handler must be governed by such a predicate. The table covers container-valued haystacks (450 cells); regex compilation may raise re.error and OverflowError.",
  note="Trusted base: Python comparison operators, ast.literal_eval's classification of text, re.compile/.search; bool is a subtype of int.",
  technique="partial evaluation / decision-table extraction compared with an oracle table; truth-table evaluation of inversion predicates"),
 "C16": dict(
  text="Path-sensitive three-valued abstract interpretation of every exit-status variable in the seven tools (a failure code is never overwritten by a possibly-zero value; helper statuses are never dropped), failure recording in every library-exception handler and not-loaded branch, yaml-get / yaml-diff tool tables, loader agreement between file and stdin, never-returning critical(), console-script resolution. These are code paths no passing test executes; stdout content equality is declined. Each value arm of yaml-set hands the supplied text on unchanged (a value file loses trailing white-space only). Every keyword passed into a **kwargs catch-all of a tool helper is read there; no shared mutable default in the tools. The alias-option table of yaml-paths main() per IncludeAliases member; shared option destinations; the arms of the multi-document loader agree on the fallback document (known finding).",
  note="Trusted base: sys.exit never returns; Python structured control flow; argparse attributes unmodelled.",
  technique="abstract interpretation of exit-state variables ({zero, non-zero, either}) over structured control flow + handler/branch obligation rules"),
 "C17": dict(
  text="Typestate over each tool's control flow (clean/written with interprocedural writes-files and may-exit summaries; backup-flag x copied over each writer), zero-exit-state guard of the yaml-merge write, refusal of an existing --output in validation, ordering of the yaml-set restore path, and an abstract fault-point enumeration: the ordered file-effect sequences extracted from the writers' code for each flag valuation are interpreted over an abstract file state and 'target intact or backup complete' is checked after a failure at every step. Interprets code structure for every exit path; executes nothing. The restore may rewrite the target only after the failed writer's handle is closed. No tool re-binds the parsed --backup option. Keyword coupling of the tool helpers; whole-document writes open in a truncating mode; the refusal phrase is carried by every reachable raise of the class.",
  note="Trusted base: open('w') truncates, copy2 completes or leaves a partial destination, remove deletes; byte identity of the copy is shutil's.",
  technique="typestate / must-precede analysis over structured control flow + abstract interpretation of extracted file-effect sequences (static fault-point enumeration)"),
 "C18": dict(
  text="Mode routing by partial evaluation of merge_docs per MultiDocModes member; loop-shape comparison of the condense-all and matrix drivers with the mode definitions; and a complete small-domain evaluation of merge-across's guard ladder by the partial evaluator over all stream-length pairs 0..4 x 0..4 and every index (merge exactly below min(len), append exactly in [len(lhs), len(rhs)), subscripts in range). Decides the number/order clause; document content is C05's declined part. The lone-stream condense step's counter is incremented only after a call of merge_docs on the same path. A Merger wraps its document as loaded; the loader's fallback document is governed by a flag set before every yield of the stream loop. merge_with skips only a null right-hand document.",
  note="Trusted base: Python range/slice semantics; stream lengths fixed during merge_across except for the documented appends.",
  technique="partial evaluation per enum member + small-domain evaluation of loop guards by the partial evaluator; loop-shape rules"),
 "C19": dict(
  text="Normal form of the marker predicate, key typestate of the rotation loop (old pair before decrypt, new pair before re-encrypt), dominance of the seen-anchor skip, changed-flag guard and backup ordering of the file effects, coverage and escaping of the discovery recursion, non-zero state in both EYAML handlers. Structural necessary conditions for every document; the external cipher is out of reach. Between the decrypt tool's stdout and the encrypt tool's stdin the plaintext may only lose trailing whitespace; the seen-anchor list starts empty for every file. The eyaml tool is driven through byte pipes (no text-mode option). The skip key is the matched value's own anchor; the rotated file is written through a truncating open. The UTC-offset delta of a constructed timestamp is negated as a whole.",
  note="Trusted base: external eyaml binary and its command protocol; ruamel dump.",
  technique="typestate / must-precede rules and normal-form matching over the AST"),
 "C03": dict(
  text="Guard-dominance analysis of every store of the replacement node in the whole-document reference-replacement routine (identity plus position-or-anchor; sibling branches agree), sole-writer analysis of the set_value call graph, anchor-preservation of every constructor in make_new_node, conversion of ValueError at the call site. Necessary conditions of the frame property on every path; which scalars share an object is an input fact and is declined. Tail creation on the write path must give every padded list slot its own freshly built node (C03-D2b). Twin constructor arms (anchored / un-anchored) pass the same value arguments and stand under the same guards. The INT arm converts with int() (never through float()); set members are replaced by identity; no mutable default / class-level container carries state between operations. _update_node hands value, format and tag to make_new_node unmodified.",
  note="Trusted base: ruamel container API; object identity is the routine's notion of 'the matched node and its aliases'.",
  technique="guard-dominance (identity / position / anchor) analysis of store sites + effect-based sole-writer analysis"),
 "C04": dict(
  text="Gather-then-delete ordering, reversed traversal, confinement of every mutation of _delete_nodes to the current item's (parent, parentref) under a presence/bounds guard (merge-key branch included), root refusal without prior mutation, guarded partial operations. A node matched more than once is deleted once: every deleting arm follows the already-gone test on (parent object, parentref), records its item first, and the record is shared with the recursive calls (C04-D10). The outermost call refuses a gathered root in a pre-pass before anything is deleted (same virtual-result tests and container kinds as the loop); the merge reference deleted is the enumeration index of the merge list; no shared mutable default.",
  note="Trusted base: coordinates satisfy C02; ruamel merge entries are (index, node).",
  technique="mutation-site confinement + guard-dominance + loop-order rules over the AST"),
 "C01": dict(
  text="Partial evaluation of the segment dispatcher per PathSegmentTypes member (routing, exhaustiveness, unfiltered relay), sibling agreement of the required/optional drivers and the public entry points (same generator, same argument roles, depth+1, relay), separator non-interference, XOR truth table of every match test and the haystack/yield table of the search handler per container branch, two-sided index bounds. Decides the structural clauses for all inputs; the extensional equality of the selected node set with the reference semantics is declined. A match test inside an element loop judges a flag assigned for that element on every path (definite assignment per iteration); quoted segment text is never rewritten as a wildcard. No arm of an element loop decides the verdict by a constant; index guards are judged for the requested index when the used index is computed from it.",
  note="Trusted base: generator relay semantics; the parser stores the term objects for SEARCH/KEYWORD_SEARCH/COLLECTOR segments (C08).",
  technique="partial evaluation per enum member + sibling-agreement and table rules over the AST; truth-table evaluation"),
 "C13": dict(
  text="Keyword dispatcher specialised per PathSearchKeywords member; per-branch summaries of the max/min scans (operator, operand roles, discard-before-reset, ties, inversion) compared with the definitions and with each other; unique's size predicates evaluated over group sizes 0..4 by the partial evaluator; distinct's first-of-group; group keying; has_child's XOR match tests; parent's bounded climb behind the root refusal; name's parentref; parameter-count refusals evaluated over counts 0..3. Which members win for given values is run-time and declined. The refusal of the hash branch is reached only for a member that is no hash; the running extreme of min/max is never null.",
  note="Trusted base: Searches.search_matches implements the operators (C12); dict insertion order.",
  technique="partial evaluation per enum member + scan-loop summarisation and sibling comparison + small-domain predicate evaluation"),
 "C05": dict(
  text="Policy tables extracted by partial evaluation of every merger routine per policy-enum member (arrays, Arrays-of-Hashes, sets, hashes at the merge point and below hash keys, per value kind) and compared with the documented meaning of each member; precedence ladders of the five MergerConfig accessors (rule > CLI > config default > built-in default, one option name, one enum class, documented defaults); every raise is MergeException and every impossible kind combination is refused; from_str normal form across nine enums. Equality of the merged document with the reference result is declined. The DEEP identity-key selection must range over the left list being appended to; the per-path rule lookup (MergerConfig and DifferConfig) must compare exactly node, parent and parentref. Inherited (merge-key) entries of the left hash are removed before the first membership test on it; the Array-of-Hashes identity key is returned as it is. Both sides of the UNIQUE membership test are normalised alike; configuration lookups are required-match queries; the unmatched-rule handler takes the whole exception family. The list mergers iterate a snapshot of the right operand; no call of a merger discards the returned node; the first-key fallback never replaces a configured key; the configuration parser keeps option-name folding.",
  note="Trusted base: ruamel container API; configparser/argparse deliver option strings.",
  technique="partial evaluation per enum member (decision-table extraction) + ladder/normal-form comparison across sibling functions"),
 "C10": dict(
  text="The anchor-conflict dispatcher is specialised per AnchorConflictResolutions member and each residual must be the documented action with the documented argument roles (which document is edited, which node replaces which); guard by inequality and unification of equal anchors; loop-exit-witness postcondition of the unique-name routine and the name pool handed to it; agreement of the three anchor tree walkers on container kinds, keys and values. Alias object-graph behaviour and the emitter are declined. Every member of a container is replaced or recursed into on every path of the three anchor walkers (flow per member loop). No second judge of 'conflict' outside the equality-guarded dispatch; names handed out in one pass are pairwise distinct. scan_for_anchors registers the anchor of a non-container node it is called on. merge_with resolves anchor conflicts before it queries (and possibly creates) the merge targets.",
  note="Trusted base: ruamel.yaml's representation of anchors/aliases as shared objects.",
  technique="partial evaluation per enum member with argument-role comparison + loop postcondition + sibling traversal agreement"),
 "C11": dict(
  text="Root re-binding only under is_root, target discovery through the optional-match query seeded with the right document, exhaustive right-root-kind dispatch with (merge point, target, right document), MergeException when nothing merged, re-basing of rule and key paths on the merge point, zero-exit-state guard of the yaml-merge write. Value equality of the complement of the target subtrees is declined. strip_path_prefix is folded over a table of (path, prefix) texts: remainder at a segment boundary, the merge point itself to the empty path, other paths unchanged. Every NodeCoords built for a policy lookup wraps a node of the incoming document. Below the root a merge result that is not the left operand is stored at the target's (parent, parentref); every match of the merge-point query is kept as a target.",
  note="Trusted base: C09 (only the missing tail is created by the target query).",
  technique="guard dominance + exhaustive-dispatch and dataflow-role rules over the AST; abstract exit-state interpretation for the write guard"),
 "C06": dict(
  text="Shape rule for all DiffEntry construction sites (ADD/DELETE/SAME/CHANGE argument shapes under the right equality facts; path names the reported element's own key or index), partial evaluation of the kind dispatcher over all 16 kind pairs and of the two mode dispatchers per enum member, absent-vs-null rule for pairing loops, both-sides rule for emptiness branches, exit-status non-interference and DifferConfig ladders. The Differ has no library-level test at all; completeness/exactly-once over documents is declined. No comparer may decide on the truthiness of a document value or on `is None` of a defaultless .get() (taint from Any-annotated parameters; positive sample on every run). Positions are carried from enumeration (no `.index(value)`); every iteration of a pairing loop reports the pair; `!=` is never applied to document values (CommentedMap's `!=` is order-sensitive, its `==` is not). The kind-clash arm records an entry on every path; rule lookups are required-match queries; no class-level result list. Identity comparisons only against None, a sentinel or an enum member.",
  note="Trusted base: itertools.zip_longest, == on ruamel data.",
  technique="construction-site shape rules + partial evaluation (decision tables) + sentinel/one-sided-test rules over the AST"),
 "C07": dict(
  text="Escaping taint of every string concatenated into a reported path (only separators, literals, integer indexes and escape_path_section(text, own pathsep)); XOR truth table of each match test; complete decision table of Searches.search_anchor over (anchored, seen, search_anchors, include_aliases, matched, inverted) by partial evaluation; outcome class (skip / emit / search) of the search loop per AnchorMatches member for the sequence, map-value, map-key and set branches; duplicate check before recording. None of this code is executed by the baseline. Soundness/completeness over documents and re-resolution are declined. Every visited node is classified (anchor recorded) on every path through its loop iteration, and the expansion helper excludes aliases only under the negated option handed to that classification (truth table). Both walkers iterate the same entries of a mapping under every setting of the alias options; the separator between parent path and child key is unconditional. The seen-anchors record is forwarded as the caller's own list; the expansion helper has a branch (and descent tests) for every container kind the search knows. Merge-key references are reported under the value-alias flag alone; shared option destinations get their default from set_defaults().",
  note="Trusted base: escape_path_section's alphabet (C02-D5); search_matches (C12).",
  technique="taint-style composition rule for path text + partial evaluation (decision tables) + truth-table evaluation"),
 "C08": dict(
  text="The parser's operator automaton is extracted by partial evaluation of the bracket branch per character and prior state and fed with the symbols that the enums' own __str__ ladders emit (9 search operators, 3 collector operators, 7 keywords): each must be read back as the same member; the stringifier is specialised per segment kind (non-empty text, uniform separator handling); escape agreement between writer and reader per lexical context (key, search term, regex); equality through one forced notation. Text-level round-trip identity over all segment sequences is declined. Parser state consumed by a recorded segment must be re-armed before the next character (flow over the loop body); append() replaces the text only when it is empty (test folded over sample texts). Every element read of a demarcation stack reads its top; the stringifier's key alphabet contains the parser's base-state specials. Quoted text is recorded verbatim; a path's separator is stored only from a parameter, AUTO or the object's own text. pop() is folded over keys ending in an escaped separator in both notations.",
  note="Trusted base: the parser consumes one character per loop iteration with the flags found by role discovery; Enum member identity.",
  technique="automaton extraction by partial evaluation compared with the writer's symbol tables; alphabet set comparison; branch-order rule"),
}

NOT_BUILT = "check not built yet (framework under construction; will be claimed at clause level per DESIGN.md)"

def main():
    checks = []
    for pid in IDS:
        if pid not in CHECKS or not os.path.exists(os.path.join(HERE, "rules", pid.lower() + ".py")):
            continue
        c = CHECKS[pid]
        checks.append({
            "property_id": pid,
            "quick_cmd": "./check {} --tier quick".format(pid),
            "thorough_cmd": "./check {} --tier thorough".format(pid),
            "evidence_file": "evidence/{}.json".format(pid),
            "replay_cmd_template": "./check {} --replay {{path}}".format(pid),
            "engine": "sa",
            "level_claimed": {"category": "other", "text": c["text"],
                              "design_ref": "DESIGN.md section 4, " + pid},
            "level_note": c["note"],
            "technique": c["technique"],
        })
    claimed = [c["property_id"] for c in checks]
    m = {
        "version": 1,
        "setup_cmd": "true",
        "hooks": {
            "guard": "YAMLPATH_VERIF",
            "enable": "none: static analysis reads /repo sources; no hooks are compiled in and the guard is unused",
            "baseline_off_cmd": "cd /repo && /venv/bin/python -m pytest -ra -q -p no:cacheprovider --timeout=900 --continue-on-collection-errors",
            "source_commits": [],
            "add_only": True,
        },
        "engines": [{
            "name": "sa", "path": "sa/", "serves_properties": claimed,
            "kind_free_text": "stdlib-ast static analysis engine: program model + call resolution, guard facts, linear bounds, partial evaluator, path-sensitive structured abstract interpreter, exception escape, partial-operation discharge, interprocedural entry invariants; per-property rules in rules/"}],
        "checks": checks,
        "notes": "All checks are static (ast only, nothing under /repo is imported or executed). ./check <ID> exits 0/1/2 (ok / VIOLATION / ANALYSIS-ERROR). Known findings: known_findings.json. See DESIGN.md.",
        "not_applicable": [{"property_id": p, "reason": NA.get(p, NOT_BUILT)} for p in IDS if p not in claimed],
    }
    json.dump(m, open(os.path.join(HERE, "MANIFEST.json"), "w"), indent=1)
    print("claimed:", claimed)

NA = {}
if __name__ == "__main__":
    main()
