#!/venv/bin/python
"""Re-generate seed-derived mutants whose seeded patch was rebased.

usage: tools/seed_mutant_refresh.py <seed-id> ...   (e.g. C04-k C07-h)

Finds the mutant `seed<round>-<id>` in selftest/mutants_src/seeds<round>.py,
replaces its edits by the hunks of the current seeded/<id>/patch.diff (the
expected rule is kept).  Run selftest/gen_mutants.py afterwards.
"""
import glob
import json
import os
import re
import sys

HERE = os.path.dirname(os.path.dirname(os.path.abspath(__file__)))
sys.path.insert(0, os.path.join(HERE, "tools"))
from seed_mutants import hunks  # noqa: E402


def main():
    for sid in sys.argv[1:]:
        mid_re = re.compile(r"seed(\d+)-" + sid.lower() + "$")
        done = False
        for path in sorted(glob.glob(os.path.join(
                HERE, "selftest", "mutants_src", "seeds[0-9]*.py"))):
            ns = {}
            exec(open(path).read(), ns)
            M = ns["M"]
            changed = False
            for prop, lst in M.items():
                for m in lst:
                    if isinstance(m, dict) and mid_re.match(m.get("id", "")) \
                            and "edits" in m:
                        with open(os.path.join(HERE, "seeded", sid,
                                               "patch.diff")) as fh:
                            hs = hunks(fh.read())
                        m["edits"] = [{"file": f, "old": o, "new": n}
                                      for f, o, n in hs]
                        m["file"] = m["edits"][0]["file"]
                        changed = done = True
            if changed:
                head = []
                for line in open(path):
                    if line.startswith("#"):
                        head.append(line)
                    else:
                        break
                with open(path, "w") as fh:
                    fh.write("".join(head))
                    fh.write("M = " + json.dumps(M, indent=1) + "\n")
                print("refreshed", sid, "in", os.path.basename(path))
        if not done:
            print("no generated mutant for", sid)


if __name__ == "__main__":
    main()
