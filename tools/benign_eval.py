#!/venv/bin/python
"""Evaluate behaviour-preserving patches written by independent sub-agents.

usage: tools/benign_eval.py <dir-with-refactor_N.patch> <tag> [--keep]

Each patch is applied in a scratch worktree of /repo (outside /repo and
/verif); every property's quick check is run against that worktree
(VERIF_REPO); any exit status other than 0 is a false alarm (exit 1) or a
lost anchor (exit 2) of the machinery.  With --keep the patch and the result
are stored under /verif/benign/<tag>-<n>/.
"""
import json
import os
import re
import shutil
import subprocess
import sys
import tempfile
from concurrent.futures import ThreadPoolExecutor

HERE = os.path.dirname(os.path.dirname(os.path.abspath(__file__)))
PROPS = [json.loads(l)["id"] for l in open(os.path.join(HERE,
                                                        "properties.jsonl"))]


def sh(cmd, cwd=None, env=None):
    return subprocess.run(cmd, cwd=cwd, env=env, stdout=subprocess.PIPE,
                          stderr=subprocess.STDOUT, text=True)


def evaluate(patch):
    wt = tempfile.mkdtemp(prefix="beneval-", dir="/tmp")
    os.rmdir(wt)
    r = sh(["git", "-C", "/repo", "worktree", "add", "-q", "--detach", wt,
            "HEAD"])
    if r.returncode:
        return {"error": r.stdout}
    res = {}
    try:
        ra = sh(["git", "apply", patch], cwd=wt)
        if ra.returncode:
            return {"error": "patch does not apply: " + ra.stdout[:300]}
        env = dict(os.environ, VERIF_REPO=wt, VERIF_NO_EVIDENCE="1")
        with ThreadPoolExecutor(max_workers=8) as ex:
            outs = list(ex.map(
                lambda p: sh([os.path.join(HERE, "check"), p, "--tier",
                              "quick"], cwd=HERE, env=env), PROPS))
        for p, o in zip(PROPS, outs):
            if o.returncode != 0:
                lines = [l for l in o.stdout.splitlines()
                         if re.match(r"\s+(rule|where|construct|diagnosis)"
                                     r"\s+:", l) or
                         l.startswith("ANALYSIS-ERROR")]
                res[p] = {"exit": o.returncode, "lines": lines[:12]}
    finally:
        sh(["git", "-C", "/repo", "worktree", "remove", "--force", wt])
    return res


def main():
    d, tag = sys.argv[1], sys.argv[2]
    keep = "--keep" in sys.argv
    patches = sorted(f for f in os.listdir(d)
                     if re.match(r"refactor_\d+\.patch$", f))
    bad = 0
    for f in patches:
        n = re.search(r"\d+", f).group(0)
        res = evaluate(os.path.join(d, f))
        print("== {}-{} {}".format(tag, n, "silent" if not res else
                                   json.dumps(res, indent=1)), flush=True)
        bad += bool(res)
        if keep:
            out = os.path.join(HERE, "benign", "{}-{}".format(tag, n))
            os.makedirs(out, exist_ok=True)
            shutil.copy(os.path.join(d, f), os.path.join(out, "patch.diff"))
            json.dump({"tag": tag, "n": n, "alarms": res},
                      open(os.path.join(out, "meta.json"), "w"), indent=1)
    print("DONE", tag, "patches", len(patches), "alarming", bad)
    return 0


if __name__ == "__main__":
    sys.exit(main())
