#!/venv/bin/python
"""Regenerate the table of seeded changes in DESIGN.md (between the
SEED-TABLE markers) from seeded/*/meta.json and the patches."""
import json
import os
import re

HERE = os.path.dirname(os.path.dirname(os.path.abspath(__file__)))
BEGIN, END = "<!-- SEED-TABLE-BEGIN -->", "<!-- SEED-TABLE-END -->"


def site(patch: str) -> str:
    files = re.findall(r"(?m)^\+\+\+ b/(.+)$", patch)
    funcs = []
    for m in re.finditer(r"(?m)^@@ [^@]*@@ ?(.*)$", patch):
        ctx = m.group(1).strip()
        fm = re.search(r"def (\w+)", ctx)
        if fm and fm.group(1) not in funcs:
            funcs.append(fm.group(1))
    f = ", ".join(sorted({os.path.basename(x) for x in files}))
    return "{}{}".format(f, (": " + ", ".join(funcs[:2])) if funcs else "")


rows = []
for sd in sorted(os.listdir(os.path.join(HERE, "seeded"))):
    d = os.path.join(HERE, "seeded", sd)
    if not os.path.isdir(d):
        continue
    meta = json.load(open(os.path.join(d, "meta.json")))
    patch = open(os.path.join(d, "patch.diff")).read()
    det = meta.get("detected_by", {})
    by = "; ".join(", ".join(v) for k, v in sorted(det.items())) or "--"
    rnd = {"a": 1, "b": 1, "c": 2, "d": 2, "e": 3, "f": 3, "g": 4,
           "h": 4}.get(sd.split("-")[1], "?")
    rows.append("| {} | {} | {} | {} | {} |".format(
        sd, rnd, site(patch), by,
        "yes" if meta.get("confirmed") else "NO"))
table = [BEGIN,
         "| seed | round | site (file: function) | caught by | confirmed |",
         "|---|---|---|---|---|"] + rows + [END]
p = os.path.join(HERE, "DESIGN.md")
s = open(p).read()
if BEGIN in s:
    s = s[:s.index(BEGIN)] + "\n".join(table) + s[s.index(END) + len(END):]
else:
    raise SystemExit("markers not found in DESIGN.md")
open(p, "w").write(s)
print(len(rows), "rows")
