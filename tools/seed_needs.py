#!/venv/bin/python
"""Fill `needs_to_manifest` and `note` of seeded/<id>/meta.json from the
author's SEED.md (section of change A for tags a/c/e/g/i..., of change B for
tags b/d/f/h/j...).

`note` is the section heading (what was changed, where); `needs_to_manifest`
is the paragraph(s) in which the author says what the change needs in order
to show (input shape, option combination, history).
"""
import glob
import json
import os
import re
import sys

HERE = os.path.dirname(os.path.dirname(os.path.abspath(__file__)))


def section(text, which):
    """The part of SEED.md about change `which` ('A' or 'B')."""
    heads = [(m.start(), m.group(0)) for m in re.finditer(
        r"(?m)^#{1,4} .*$", text)]
    pat = re.compile(r"^#{1,4}\s*(?:Change|Seed|Regression|Patch|Mutation)?"
                     r"\s*\(?" + which + r"\b", re.I)
    pat2 = re.compile(r"seed_{}\.patch".format(which.lower()))
    start = None
    for i, (pos, h) in enumerate(heads):
        if pat.search(h) or pat2.search(h):
            start = i
            break
    if start is None:
        return None, None
    level = len(heads[start][1]) - len(heads[start][1].lstrip("#"))
    end = len(text)
    for pos, h in heads[start + 1:]:
        lv = len(h) - len(h.lstrip("#"))
        if lv <= level:
            end = pos
            break
    return heads[start][1].lstrip("# ").strip(), text[heads[start][0]:end]


def needs(sec):
    paras = re.split(r"\n\s*\n", sec)
    hits = []
    take_next = False
    for p in paras:
        q = p.strip()
        if not q:
            continue
        if q.startswith("#"):
            first, _, rest = q.partition("\n")
            if re.search(r"manifest|needed|trigger", first, re.I):
                if rest.strip():
                    hits.append(rest.strip())
                else:
                    take_next = True
            continue
        if take_next:
            hits.append(q)
            take_next = False
            continue
        if re.search(r"(needed|needs|required|requires|necessary)[^.\n]{0,60}"
                     r"(manifest|show|trigger|surface|observe)|"
                     r"to manifest|manifests? (only|when|if)|"
                     r"what it needs|trigger(s|ed)? (only|when)",
                     q, re.I):
            hits.append(q)
            if q.rstrip().endswith(":"):
                take_next = True
    out = "\n\n".join(hits)
    out = re.sub(r"[ \t]*\n[ \t]*", " ", out)
    return out.strip()


def main():
    n = miss = 0
    only = set(sys.argv[1:])
    for d in sorted(glob.glob(os.path.join(HERE, "seeded", "C*-*"))):
        sid = os.path.basename(d)
        if only and sid not in only:
            continue
        mp, sp = os.path.join(d, "meta.json"), os.path.join(d, "SEED.md")
        if not (os.path.exists(mp) and os.path.exists(sp)):
            continue
        tag = sid.split("-")[1]
        which = "A" if (ord(tag[0]) - ord("a")) % 2 == 0 else "B"
        text = open(sp, encoding="utf-8").read()
        head, sec = section(text, which)
        meta = json.load(open(mp))
        if sec is None:
            miss += 1
            print("no section", sid)
            continue
        nd = needs(sec)
        if not nd:
            miss += 1
            print("no needs paragraph", sid)
            continue
        meta["note"] = head
        meta["needs_to_manifest"] = nd[:1500]
        json.dump(meta, open(mp, "w"), indent=1)
        n += 1
    print("filled", n, "missing", miss)


if __name__ == "__main__":
    main()
