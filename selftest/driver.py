"""Self-test of the rules: mutants must alarm, benign variants must not.

Mutants are single edits applied to an in-memory overlay of a /repo source
file (nothing is written to disk and no repository code is executed); each
must yield at least one *new* finding whose rule id starts with the expected
prefix.  Benign variants (whole-file ``ast.unparse`` round trip, local
renames) must yield no new finding.  A surviving mutant or an alarming
benign variant means the checker is broken: exit 2.
"""
from __future__ import annotations

import ast
import importlib
import json
import os
import sys
import time
from concurrent.futures import ProcessPoolExecutor
from typing import Any, Dict, List, Optional, Tuple

from sa.model import REPO, Program
from sa.report import EVIDENCE_DIR, known_for, load_known, run_check

HERE = os.path.dirname(os.path.abspath(__file__))


def load_mutants(prop: str) -> List[Dict[str, Any]]:
    path = os.path.join(HERE, "mutants", prop.lower() + ".json")
    if not os.path.exists(path):
        return []
    with open(path, "r", encoding="utf-8") as fh:
        return json.load(fh)


def apply_edit(text: str, old: str, new: str, nth: int = 0) -> str:
    idx = -1
    start = 0
    for _ in range(nth + 1):
        idx = text.find(old, start)
        if idx < 0:
            raise ValueError("mutant anchor text not found: " + old[:60])
        start = idx + 1
    return text[:idx] + new + text[idx + len(old):]


def overlay_for(m: Dict[str, Any]) -> Dict[str, str]:
    out: Dict[str, str] = {}
    edits = m.get("edits") or [m]
    for e in edits:
        rel = e["file"]
        if rel not in out:
            with open(os.path.join(REPO, rel), "r", encoding="utf-8") as fh:
                out[rel] = fh.read()
        out[rel] = apply_edit(out[rel], e["old"], e["new"], e.get("nth", 0))
        ast.parse(out[rel])   # must still compile
    return out


def findings_with(prop: str, overlays: Dict[str, str]
                  ) -> Tuple[List[str], Optional[str]]:
    """New (not known) finding keys for the overlaid program, or an
    analysis error text."""
    mod = importlib.import_module("rules." + prop.lower())
    try:
        prog = Program(overlays=overlays)
        code, chk = run_check(prop, "thorough", mod.run, mod.META, prog=prog,
                              quiet=True, write=False)
    except Exception as ex:  # pylint: disable=broad-except
        return [], "{}: {}".format(type(ex).__name__, ex)
    known = {k["key"] for k in known_for(prop)}
    return sorted({f.key for f in chk.findings if f.key not in known}), None


def _run_mutant(args: Tuple[str, Dict[str, Any]]) -> Dict[str, Any]:
    prop, m = args
    t0 = time.time()
    try:
        ov = overlay_for(m)
    except Exception as ex:  # pylint: disable=broad-except
        return {"id": m["id"], "status": "stale",
                "detail": "{}: {}".format(type(ex).__name__, ex)}
    keys, err = findings_with(prop, ov)
    want = m.get("expect", prop)
    hit = [k for k in keys if k.startswith(want)]
    if err and m.get("accept_error"):
        status = "killed"
    elif err:
        status = "error"
    elif hit:
        status = "killed"
    else:
        status = "survived"
    return {"id": m["id"], "status": status, "findings": keys[:5],
            "detail": err or "", "wall_s": round(time.time() - t0, 2)}


# -- benign variants --------------------------------------------------------
class _RenameLocals(ast.NodeTransformer):
    """Rename every function-local variable that is not a parameter and not
    used by a nested function: x -> x_r."""

    def visit_FunctionDef(self, node: ast.FunctionDef) -> ast.AST:
        params = {a.arg for a in node.args.posonlyargs + node.args.args +
                  node.args.kwonlyargs}
        if node.args.vararg:
            params.add(node.args.vararg.arg)
        if node.args.kwarg:
            params.add(node.args.kwarg.arg)
        nested_names = set()
        has_nested = False
        for n in ast.walk(node):
            if n is not node and isinstance(
                    n, (ast.FunctionDef, ast.Lambda, ast.ClassDef)):
                has_nested = True
        if has_nested:
            self.generic_visit(node)
            return node
        stores = {n.id for n in ast.walk(node)
                  if isinstance(n, ast.Name) and isinstance(n.ctx, ast.Store)}
        globs = {nm for n in ast.walk(node)
                 if isinstance(n, (ast.Global, ast.Nonlocal))
                 for nm in n.names}
        ren = {s: s + "_r" for s in stores - params - globs
               if not s.startswith("_")}

        class R(ast.NodeTransformer):
            def visit_Name(self, n: ast.Name) -> ast.AST:
                if n.id in ren:
                    return ast.copy_location(
                        ast.Name(id=ren[n.id], ctx=n.ctx), n)
                return n
        node = R().visit(node)
        return node


BENIGN_FILES = [
    "yamlpath/processor.py", "yamlpath/yamlpath.py",
    "yamlpath/common/keywordsearches.py", "yamlpath/common/searches.py",
    "yamlpath/common/nodes.py", "yamlpath/common/anchors.py",
    "yamlpath/path/searchkeywordterms.py", "yamlpath/merger/merger.py",
    "yamlpath/merger/mergerconfig.py", "yamlpath/differ/differ.py",
    "yamlpath/commands/yaml_set.py", "yamlpath/commands/yaml_merge.py",
    "yamlpath/commands/yaml_get.py", "yamlpath/commands/yaml_diff.py",
    "yamlpath/commands/yaml_paths.py", "yamlpath/commands/yaml_validate.py",
    "yamlpath/commands/eyaml_rotate_keys.py",
    "yamlpath/eyaml/eyamlprocessor.py", "yamlpath/common/parsers.py",
]


class _DropDebug(ast.NodeTransformer):
    """Remove logging statements (`<x>.debug(...)`, `.verbose(...)`)."""

    def visit_Expr(self, node: ast.Expr) -> Any:
        v = node.value
        if isinstance(v, ast.Call) and isinstance(v.func, ast.Attribute) and \
                v.func.attr in ("debug", "verbose"):
            return ast.copy_location(ast.Pass(), node)
        return node


def _terminates(body: List[ast.stmt]) -> bool:
    return bool(body) and isinstance(
        body[-1], (ast.Return, ast.Raise, ast.Continue, ast.Break))


class _InvertIfElse(ast.NodeTransformer):
    """`if c: A else: B`  ->  `if not c: B else: A` (plain else only)."""

    def visit_If(self, node: ast.If) -> Any:
        self.generic_visit(node)
        if not node.orelse or (len(node.orelse) == 1 and
                               isinstance(node.orelse[0], ast.If)):
            return node
        test = node.test
        if isinstance(test, ast.UnaryOp) and isinstance(test.op, ast.Not):
            new_test: ast.expr = test.operand
        else:
            new_test = ast.UnaryOp(op=ast.Not(), operand=test)
        return ast.copy_location(
            ast.If(test=new_test, body=node.orelse, orelse=node.body), node)


class _DropElseAfterExit(ast.NodeTransformer):
    """`if c: ...; return/raise/continue/break` + `else: B`  ->  the `if`
    followed by B (no `elif` chains)."""

    def _flatten(self, stmts: List[ast.stmt]) -> List[ast.stmt]:
        out: List[ast.stmt] = []
        for st in stmts:
            if isinstance(st, ast.If) and st.orelse and \
                    _terminates(st.body) and not (
                        len(st.orelse) == 1 and
                        isinstance(st.orelse[0], ast.If)):
                tail = st.orelse
                st.orelse = []
                out.append(st)
                out.extend(tail)
            else:
                out.append(st)
        return out

    def generic_visit(self, node: ast.AST) -> ast.AST:
        super().generic_visit(node)
        for field in ("body", "orelse", "finalbody"):
            val = getattr(node, field, None)
            if isinstance(val, list) and val and \
                    isinstance(val[0], ast.stmt):
                setattr(node, field, self._flatten(val))
        return node


class _ElseAfterExit(ast.NodeTransformer):
    """`if c: ...; return` followed by the rest R of the block  ->
    `if c: ...; return` `else: R` (the inverse clean-up)."""

    def _nest(self, stmts: List[ast.stmt]) -> List[ast.stmt]:
        for i, st in enumerate(stmts):
            if isinstance(st, ast.If) and not st.orelse and \
                    _terminates(st.body) and i + 1 < len(stmts):
                rest = self._nest(stmts[i + 1:])
                if len(rest) == 1 and isinstance(rest[0], ast.If):
                    # `else: if ...` is an `elif`: a different edit (it
                    # joins two statements into one chain), not covered
                    return stmts[:i + 1] + rest
                st.orelse = rest
                return stmts[:i + 1]
        return stmts

    def generic_visit(self, node: ast.AST) -> ast.AST:
        super().generic_visit(node)
        if isinstance(node, (ast.FunctionDef, ast.For, ast.While)):
            node.body = self._nest(node.body)
        return node


class _ReturnTemp(ast.NodeTransformer):
    """`return <call or operation>`  ->  `rv_tmp = <expr>; return rv_tmp`
    (not in generators' bare returns, not for names / constants)."""

    def _expand(self, stmts: List[ast.stmt]) -> List[ast.stmt]:
        out: List[ast.stmt] = []
        for st in stmts:
            if isinstance(st, ast.Return) and st.value is not None and \
                    not isinstance(st.value, (ast.Name, ast.Constant)):
                out.append(ast.copy_location(ast.Assign(
                    targets=[ast.Name(id="rv_tmp", ctx=ast.Store())],
                    value=st.value), st))
                out.append(ast.copy_location(ast.Return(
                    value=ast.Name(id="rv_tmp", ctx=ast.Load())), st))
            else:
                out.append(st)
        return out

    def generic_visit(self, node: ast.AST) -> ast.AST:
        super().generic_visit(node)
        for field in ("body", "orelse", "finalbody"):
            val = getattr(node, field, None)
            if isinstance(val, list) and val and \
                    isinstance(val[0], ast.stmt):
                setattr(node, field, self._expand(val))
        if isinstance(node, ast.Try):
            for h in node.handlers:
                h.body = self._expand(h.body)
        return node


class _SortMethods(ast.NodeTransformer):
    """Methods of every class in alphabetical order (data attributes and
    everything else stay in front, in their order)."""

    def visit_ClassDef(self, node: ast.ClassDef) -> Any:
        funcs = [s for s in node.body if isinstance(s, ast.FunctionDef)]
        names = [f.name for f in funcs]
        if len(set(names)) != len(names):
            return node     # property setters etc. share a name
        rest = [s for s in node.body if not isinstance(s, ast.FunctionDef)]
        node.body = rest + sorted(funcs, key=lambda f: f.name)
        return node


STRESS = [("invert-if-else", _InvertIfElse),
          ("drop-else-after-exit", _DropElseAfterExit),
          ("else-after-exit", _ElseAfterExit),
          ("return-through-temp", _ReturnTemp),
          ("sort-methods", _SortMethods)]


def stress_variants() -> List[Tuple[str, Dict[str, str]]]:
    """Further behaviour-preserving rewrites (whole-tree, mechanical)."""
    texts: Dict[str, str] = {}
    for rel in BENIGN_FILES:
        with open(os.path.join(REPO, rel), "r", encoding="utf-8") as fh:
            texts[rel] = fh.read()
    out = []
    for name, cls in STRESS:
        ov = {}
        for rel, t in texts.items():
            tree = cls().visit(ast.parse(t))
            ov[rel] = ast.unparse(ast.fix_missing_locations(tree))
            compile(ov[rel], rel, "exec")
        out.append((name, ov))
    return out


def benign_variants() -> List[Tuple[str, Dict[str, str]]]:
    texts: Dict[str, str] = {}
    for rel in BENIGN_FILES:
        with open(os.path.join(REPO, rel), "r", encoding="utf-8") as fh:
            texts[rel] = fh.read()
    unparsed = {rel: ast.unparse(ast.parse(t)) for rel, t in texts.items()}
    renamed = {}
    for rel, t in texts.items():
        tree = _RenameLocals().visit(ast.parse(t))
        renamed[rel] = ast.unparse(ast.fix_missing_locations(tree))
    nodebug = {}
    for rel, t in texts.items():
        tree = _DropDebug().visit(ast.parse(t))
        nodebug[rel] = ast.unparse(ast.fix_missing_locations(tree))
    # whole-tree rewrites that the load-time canonicalisation
    # (sa/normalize.py) reduces to the form the rules were confirmed on;
    # "else-after-exit" is left out: `if c: return` + rest and
    # `if c: return / else: rest` have no common normal form that also
    # leaves the tree's `elif` ladders alone (DESIGN 8.18)
    more = [(n, ov) for n, ov in stress_variants() if n != "else-after-exit"]
    return [("unparse-roundtrip", unparsed), ("rename-locals", renamed),
            ("drop-debug-logging", nodebug)] + more


def _run_benign(args: Tuple[str, str, Dict[str, str]]) -> Dict[str, Any]:
    prop, name, ov = args
    keys, err = findings_with(prop, ov)
    status = "silent" if not keys and not err else "alarm"
    return {"id": name, "status": status, "findings": keys[:5],
            "detail": err or ""}


def run_selftest(prop: str, jobs: int = 16, verbose: bool = True) -> int:
    t0 = time.time()
    mutants = load_mutants(prop)
    tasks = [(prop, m) for m in mutants]
    btasks = [(prop, name, ov) for name, ov in benign_variants()]
    results: List[Dict[str, Any]] = []
    bresults: List[Dict[str, Any]] = []
    if jobs > 1 and (tasks or btasks):
        with ProcessPoolExecutor(max_workers=jobs) as ex:
            results = list(ex.map(_run_mutant, tasks))
            bresults = list(ex.map(_run_benign, btasks))
    else:
        results = [_run_mutant(t) for t in tasks]
        bresults = [_run_benign(t) for t in btasks]
    bad = [r for r in results if r["status"] != "killed"]
    balarm = [r for r in bresults if r["status"] != "silent"]
    if verbose:
        print("SELFTEST {}: mutants={} killed={} benign={} silent={} "
              "wall={:.1f}s".format(
                  prop, len(results),
                  sum(1 for r in results if r["status"] == "killed"),
                  len(bresults),
                  sum(1 for r in bresults if r["status"] == "silent"),
                  time.time() - t0))
        for r in bad:
            print("  MUTANT {} {}: {} {}".format(
                r["status"].upper(), r["id"], r.get("detail", ""),
                r.get("findings", "")))
        for r in balarm:
            print("  BENIGN-ALARM {}: {} {}".format(
                r["id"], r.get("detail", ""), r.get("findings", "")))
    # append to evidence
    path = os.path.join(EVIDENCE_DIR, prop + ".json")
    if os.path.exists(path):
        with open(path, "r", encoding="utf-8") as fh:
            doc = json.load(fh)
        doc["coverage"]["selftest"] = {
            "mutants": len(results),
            "killed": sum(1 for r in results if r["status"] == "killed"),
            "mutant_results": results,
            "benign": bresults,
        }
        doc["tier"] = "thorough"
        with open(path, "w", encoding="utf-8") as fh:
            json.dump(doc, fh, indent=1, default=str)
    if bad or balarm:
        print("ANALYSIS-ERROR property={} self-test failed: {} mutant(s) "
              "not killed, {} benign variant(s) alarmed".format(
                  prop, len(bad), len(balarm)))
        return 2
    return 0


if __name__ == "__main__":
    sys.path.insert(0, os.path.dirname(HERE))
    sys.exit(run_selftest(sys.argv[1]))
