"""Self-test driver (mutants / benign variants); filled in later."""
def run_selftest(prop, jobs=16):
    return 0
