#!/venv/bin/python
"""Source of the self-test mutant catalogue (writes selftest/mutants/*.json).
Each mutant is one textual edit of a /repo file that still compiles and
breaks the property; ``expect`` is the rule-id prefix that must fire."""
import json, os
HERE = os.path.dirname(os.path.abspath(__file__))
Y = "yamlpath/yamlpath.py"
P = "yamlpath/processor.py"
K = "yamlpath/common/keywordsearches.py"
S = "yamlpath/common/searches.py"
N = "yamlpath/common/nodes.py"
T = "yamlpath/path/searchkeywordterms.py"

M = {}

M["c14"] = [
 dict(id="pop-guard-removed-keyword-close", file=Y, expect="C14-D1",
      old='''                    demarc_count > 0
                    and char == ")"
                    and segment_type is PathSegmentTypes.KEYWORD_SEARCH''',
      new='''                    char == ")"
                    and segment_type is PathSegmentTypes.KEYWORD_SEARCH'''),
 dict(id="pop-guard-removed-collector-close", file=Y, expect="C14-D1",
      old='''                    demarc_count > 0
                    and char == ")"
                    and demarc_stack[-1] == "("''',
      new='''                    char == ")"
                    and demarc_stack[-1] == "("'''),
 dict(id="unmatched-bracket-guard-removed", file=Y, expect="C14-D1",
      old='''                if demarc_count < 1:
                    raise YAMLPathException((
                        "YAML Path contains an unmatched ] demarcation mark"''',
      new='''                if demarc_count < 0:
                    raise YAMLPathException((
                        "YAML Path contains an unmatched ] demarcation mark"'''),
 dict(id="quote-top-read-unguarded", file=Y, expect="C14-D1",
      old='''                    and (demarc_count < 1
                         or demarc_stack[-1] not in ["'", '"'])''',
      new='''                    and (demarc_stack[-1] not in ["'", '"'])'''),
 dict(id="push-without-regex-flag", file=Y, expect="C14-D1",
      old='''                seeking_regex_delim = False
                capturing_regex = True
                demarc_stack.append(char)
                demarc_count += 1
                continue''',
      new='''                seeking_regex_delim = False
                capturing_regex = True
                continue'''),
 dict(id="foreign-raise-in-parser", file=Y, expect="C14-D2a",
      old='''                        raise YAMLPathException((
                            "Double search inversion is meaningless at"''',
      new='''                        raise ValueError((
                            "Double search inversion is meaningless at"'''),
 dict(id="unguarded-int-index", file=Y, expect="C14-D2",
      old='''                    try:
                        idx = int(segment_id)
                    except ValueError as wrap_ex:
                        raise TypeMismatchYAMLPathException((
                            "Not an integer index at character index {}:  {}")
                            .format(char_idx, segment_id)
                            , yaml_path
                            , segment_id
                        ) from wrap_ex''',
      new='''                    idx = int(segment_id)'''),
 dict(id="while-true-introduced", file=Y, expect="C14-D3a",
      old='''        escaped: str = value
        for symbol in symbols:''',
      new='''        escaped: str = value
        while value is None:
            pass
        for symbol in symbols:'''),
 dict(id="empty-path-check-removed", file=Y, expect="C14-D2b",
      old='''        if not yaml_path:
            return path_segments

        # Infer''',
      new='''        # Infer'''),
 dict(id="term-first-char-unguarded", file=Y, expect="C14-D2b",
      old='''if segment_id and segment_id[0] in ["'", '"']:''',
      new='''if segment_id[0] in ["'", '"']:'''),
 dict(id="keyword-lookup-unguarded", file=Y, expect="C14-D2b",
      old='''                    if PathSearchKeywords.is_keyword(segment_id):
                        demarc_stack.append(char)''',
      new='''                    if segment_id:
                        demarc_stack.append(char)'''),
 dict(id="params-parser-pop-unguarded", file=T, expect="C14-D1",
      old='''                if demarc_count > 0:
                    # Already appending to an ongoing demarcated value
                    if char == demarc_stack[-1]:''',
      new='''                if demarc_count >= 0:
                    # Already appending to an ongoing demarcated value
                    if char == demarc_stack[-1]:'''),
 dict(id="pop-segments-unguarded", file=Y, expect="C14-D2b",
      old='''        if len(segments) < 1:
            raise YAMLPathException(
                "Cannot pop when there are no segments to pop from",
                str(self))
''', new=""),
]

M["c15"] = [
 dict(id="index-lower-bound-dropped", file=P, expect="C15-D2a",
      old="if isinstance(data, list) and -len(data) <= idx < len(data):",
      new="if isinstance(data, list) and idx < len(data):"),
 dict(id="key-as-index-bound-dropped", file=P, expect="C15-D2a",
      old='''                if -len(data) <= idx < len(data):
                    self.logger.debug(''',
      new='''                if idx < len(data):
                    self.logger.debug('''),
 dict(id="slice-skip-removed", file=P, expect="C15-D2a",
      old='''                        if not -len(data) <= slice_index < len(data):
                            continue
''', new=""),
 dict(id="key-presence-guard-dropped", file=P, expect="C15-D2a",
      old='''            if stripped_attrs in data:
                self.logger.debug(
                    "Processor::_get_nodes_by_key:  FOUND key node by name at"''',
      new='''            if stripped_attrs is not None:
                self.logger.debug(
                    "Processor::_get_nodes_by_key:  FOUND key node by name at"'''),
 dict(id="attr-presence-guard-dropped", file=P, expect="C15-D2a",
      old="elif isinstance(ele, dict) and attr in ele:",
      new="elif isinstance(ele, dict):"),
 dict(id="int-try-removed", file=P, expect="C15-D2a",
      old='''            try:
                idx: int = int(str_stripped)
            except ValueError as wrap_ex:
                raise TypeMismatchYAMLPathException(
                    "{} is not an integer array index"
                    .format(str_stripped),
                    str(yaml_path),
                    str(unstripped_attrs)
                ) from wrap_ex''',
      new='''            idx: int = int(str_stripped)'''),
 dict(id="new-foreign-raise", file=P, expect="C15-D1",
      old='''                raise YAMLPathException(
                    "Array indexing is invalid against unordered set data"''',
      new='''                raise KeyError(
                    "Array indexing is invalid against unordered set data"'''),
 dict(id="regex-handler-dropped", file=S, expect="C15-D2a",
      old='''            try:
                matcher = re.compile(needle)
            except (re.error, OverflowError, RecursionError) as ex:
                raise YAMLPathException(
                    "Invalid Regular Expression, {}".format(ex),
                    str(needle)) from ex''',
      new='''            matcher = re.compile(needle)'''),
 dict(id="undo-overflow-is-a-path-error", file=S, expect="C15-D2a",
      old="            except (re.error, OverflowError, RecursionError) as ex:",
      new="            except (re.error, RecursionError) as ex:"),
 dict(id="param-conversion-dropped", file=K, expect="C15-D1",
      old='''        try:
            parameters: List[str] = terms.parameters
        except ValueError as ex:
            raise YAMLPathException(str(ex), str(yaml_path)) from ex''',
      new='''        parameters: List[str] = terms.parameters'''),
 dict(id="null-element-guard-dropped", file=P, expect="C15-D2c",
      old="matches = ((is_aoh and ele is not None and term in ele)",
      new="matches = ((is_aoh and term in ele)"),
 dict(id="hash-slice-text-compare-dropped", file=P, expect="C15-D2b",
      old="if min_match <= str(key) <= max_match:",
      new="if min_match <= key <= max_match:"),
 dict(id="literal-eval-typeerror-uncaught", file=N, expect="C15-D2a",
      old='''        except TypeError:
            typed_value = value
''', new=""),
 dict(id="param-count-check-dropped", file=K, expect="C15-D2a",
      old='''        param_count = len(parameters)
        if param_count != 1:
            raise YAMLPathException(
                ("Invalid parameter count to {}; {} required, got {} in"
                 " YAML Path").format(
                     PathSearchKeywords.HAS_CHILD, 1, param_count),
                str(yaml_path))
        match_key = parameters[0]''',
      new='''        param_count = len(parameters)
        match_key = parameters[0]'''),
 dict(id="segment-length-check-weakened", file=P, expect="C15-D2a",
      old="        if not (segments and len(segments) > segment_index):",
      new="        if not segments:"),
 dict(id="negative-creation-guard-dropped", file=P, expect="C15-D2a",
      old="                        if newidx < 0:",
      new="                        if newidx < -len(data) - 1:"),
 dict(id="climb-bound-dropped", file=K, expect="C15-D2a",
      old="        if parent_levels > steps_max:",
      new="        if parent_levels > steps_max + 1:"),
 dict(id="scan-node-null-guard-dropped", file=K, expect="C15-D2c",
      old="                if (ele is not None and scan_node in ele\n                    and ele[scan_node] is not None\n                ):\n                    eval_val = ele[scan_node]\n                    if (match_value is None\n                        or Searches.search_matches(\n                            PathSearchMethods.GREATER_THAN",
      new="                if (scan_node in ele\n                    and ele[scan_node] is not None\n                ):\n                    eval_val = ele[scan_node]\n                    if (match_value is None\n                        or Searches.search_matches(\n                            PathSearchMethods.GREATER_THAN"),
 dict(id="dispatcher-branch-dropped-not-implemented", file=P, expect="C15-D1",
      old='''        elif segment_type == PathSegmentTypes.TRAVERSE:
            node_coords = self._get_nodes_by_traversal(
                data, yaml_path, segment_index, parent=parent,
                parentref=parentref, translated_path=translated_path,
                ancestry=ancestry)
        else:''',
      new='''        else:'''),
]

M["c09"] = [
 dict(id="pop-in-read-handler", file=P, expect="C09-D1",
      old='''            if stripped_attrs in data:
                self.logger.debug(
                    "Processor::_get_nodes_by_key:  FOUND key node by name at"''',
      new='''            if stripped_attrs in data:
                data.move_to_end(stripped_attrs)
                self.logger.debug(
                    "Processor::_get_nodes_by_key:  FOUND key node by name at"'''),
 dict(id="del-in-intersection", file=P, expect="C09-D1",
      old='''        updated_coords = [
            nc for nc in lhs_ncs
            if NodeCoords.unwrap_node_coords(nc) in rhs_unwrapped_data]
''',
      new='''        updated_coords = [
            nc for nc in lhs_ncs
            if NodeCoords.unwrap_node_coords(nc) in rhs_unwrapped_data]
        for nc in lhs_ncs:
            if nc not in updated_coords and isinstance(nc.parent, dict):
                del nc.parent[nc.parentref]
'''),
 dict(id="creation-outside-no-match-guard", file=P, expect="C09-D2",
      old='''            if (
                    matched_nodes < 1
                    and segment_type is not PathSegmentTypes.SEARCH''',
      new='''            if (
                    segment_type is not PathSegmentTypes.SEARCH'''),
 dict(id="padding-bound-off-by-one", file=P, expect="C09-D3b",
      old="for _ in range(len(data) - 1, newidx):",
      new="for _ in range(len(data) - 1, newidx + 1):"),
 dict(id="mutation-through-helper", file=P, expect="C09-D1",
      old='''            is_aoh = Nodes.node_is_aoh(data, accept_nulls=True)
            search_keys = attr == '.\'''',
      new='''            is_aoh = Nodes.node_is_aoh(data, accept_nulls=True)
            Nodes.append_list_element(data, None)
            search_keys = attr == '.\''''),
 dict(id="exists-uses-optional-driver", file=P, expect="C09-D1",
      old="        for _ in self._get_required_nodes(self.data, yaml_path):\n            matched_nodes += 1\n\n        return 0 < matched_nodes",
      new="        for _ in self._get_optional_nodes(self.data, yaml_path):\n            matched_nodes += 1\n\n        return 0 < matched_nodes"),
 dict(id="creation-stores-wrong-key", file=P, expect="C09-D3c",
      old="                        data[stripped_attrs] = Nodes.build_next_node(",
      new="                        data[except_segment] = Nodes.build_next_node("),
 dict(id="sort-in-keyword-search", file=K, expect="C09-D1",
      old="            for idx, ele in enumerate(data):\n                next_path = translated_path + \"[{}]\".format(idx)\n                next_ancestry = ancestry + [(data, idx)]\n                if (ele is not None\n                    and (\n                        match_value is None or\n                        Searches.search_matches(\n                            PathSearchMethods.GREATER_THAN",
      new="            data.sort()\n            for idx, ele in enumerate(data):\n                next_path = translated_path + \"[{}]\".format(idx)\n                next_ancestry = ancestry + [(data, idx)]\n                if (ele is not None\n                    and (\n                        match_value is None or\n                        Searches.search_matches(\n                            PathSearchMethods.GREATER_THAN"),
 dict(id="creation-deletes", file=P, expect="C09-D3a",
      old="                    data.add(stripped_attrs)",
      new="                    data.discard(parentref)\n                    data.add(stripped_attrs)"),
]

M["c02"] = [
 dict(id="wrong-parentref-variable", file=P, expect="C02-D1",
      old='''                    yield NodeCoords(
                        ele, data, lstidx,
                        translated_path + "[{}]".format(lstidx),
                        ancestry + [(data, lstidx)], pathseg)''',
      new='''                    yield NodeCoords(
                        ele, data, parentref,
                        translated_path + "[{}]".format(lstidx),
                        ancestry + [(data, lstidx)], pathseg)'''),
 dict(id="path-append-instead-of-plus", file=P, expect="C02-D",
      old='''                next_translated_path = (
                    translated_path + YAMLPath.escape_path_section(
                        key, translated_path.separator))
                next_ancestry = ancestry + [(data, key)]
                self.logger.debug(
                    f"Yielding dict value at key, {key} from data:",''',
      new='''                next_translated_path = (
                    translated_path.append(YAMLPath.escape_path_section(
                        key, translated_path.separator)))
                next_ancestry = ancestry + [(data, key)]
                self.logger.debug(
                    f"Yielding dict value at key, {key} from data:",'''),
 dict(id="ancestry-dropped-in-recursion", file=P, expect="C02-D2",
      old='''                    for node_coord in self._get_nodes_by_traversal(
                        val, yaml_path, segment_index,
                        parent=data, parentref=key,
                        translated_path=next_translated_path,
                        ancestry=next_ancestry
                    ):
                        self.logger.debug(
                            "Yielding unfiltered Hash value:",''',
      new='''                    for node_coord in self._get_nodes_by_traversal(
                        val, yaml_path, segment_index,
                        parent=data, parentref=key,
                        translated_path=next_translated_path
                    ):
                        self.logger.debug(
                            "Yielding unfiltered Hash value:",'''),
 dict(id="escape-dropped-search-key", file=P, expect="C02-D1",
      old='''                        yield NodeCoords(
                            val, data, key,
                            translated_path + YAMLPath.escape_path_section(
                                key, translated_path.separator),
                            ancestry + [(data, key)], pathseg)

            elif attr in data:''',
      new='''                        yield NodeCoords(
                            val, data, key,
                            translated_path + str(key),
                            ancestry + [(data, key)], pathseg)

            elif attr in data:'''),
 dict(id="escape-dropped-set-member", file=P, expect="C02-D1",
      old='''                    yield NodeCoords(
                        ele, data, ele,
                        translated_path + YAMLPath.escape_path_section(
                            ele, translated_path.separator),
                        ancestry + [(data, ele)], pathseg)

        else:
            # Check the passed data itself for a match''',
      new='''                    yield NodeCoords(
                        ele, data, ele,
                        translated_path + "{}".format(ele),
                        ancestry + [(data, ele)], pathseg)

        else:
            # Check the passed data itself for a match'''),
 dict(id="wrong-separator", file=P, expect="C02-D1",
      old='''                    translated_path + YAMLPath.escape_path_section(
                        key, translated_path.separator))
                next_ancestry = ancestry + [(data, key)]
                for filtered_nc in self._get_nodes_by_path_segment(''',
      new='''                    translated_path + YAMLPath.escape_path_section(
                        key, yaml_path.separator))
                next_ancestry = ancestry + [(data, key)]
                for filtered_nc in self._get_nodes_by_path_segment('''),
 dict(id="parent-instead-of-data", file=P, expect="C02-D1",
      old='''                yield NodeCoords(val, data, key, next_translated_path,
                    next_ancestry, pathseg)
            return''',
      new='''                yield NodeCoords(val, parent, key, next_translated_path,
                    next_ancestry, pathseg)
            return'''),
 dict(id="ancestry-entry-parent-key", file=P, expect="C02-D1",
      old='''                yield NodeCoords(
                    data[idx], data, idx, translated_path + "[{}]".format(idx),
                    ancestry + [(data, idx)], pathseg)''',
      new='''                yield NodeCoords(
                    data[idx], data, idx, translated_path + "[{}]".format(idx),
                    ancestry + [(parent, idx)], pathseg)'''),
 dict(id="pass-through-changes-path", file=P, expect="C02-D1",
      old='''                    yield NodeCoords(
                        data, parent, parentref, translated_path, ancestry,
                        pathseg)

        elif isinstance(data, (CommentedSet, set)):''',
      new='''                    yield NodeCoords(
                        data, parent, parentref, desc_path, ancestry,
                        pathseg)

        elif isinstance(data, (CommentedSet, set)):'''),
 dict(id="escape-alphabet-bracket-removed", file=Y, expect="C02-D5",
      old='''            '\\\\', str(pathsep), '(', ')', '[', ']', '^', '$', '%',
            ' ', "'", '"\'''',
      new='''            '\\\\', str(pathsep), '(', ')', '[', '^', '$', '%',
            ' ', "'", '"\''''),
 dict(id="add-mutates-self", file=Y, expect="C02-D3",
      old="        return YAMLPath(self).append(next_segment)",
      new="        return self.append(next_segment)"),
 dict(id="parent-copy-removed", file=K, expect="C02-D3",
      old="            translated_path = YAMLPath(translated_path)\n            ancestry = list(ancestry)\n",
      new=""),
 dict(id="aoh-ancestry-key-name", file=P, expect="C02-D2",
      old="                    next_ancestry = ancestry + [(data, eleidx)]",
      new="                    next_ancestry = ancestry + [(data, stripped_attrs)]"),
 dict(id="descent-with-own-parent", file=P, expect="C02-D2",
      old='''                    for subnode_coord in self._get_required_nodes(
                            segment_node_coords.node, yaml_path, depth + 1,
                            parent=segment_node_coords.parent,''',
      new='''                    for subnode_coord in self._get_required_nodes(
                            segment_node_coords.node, yaml_path, depth + 1,
                            parent=parent,'''),
 dict(id="max-index-of-other-loop", file=K, expect="C02-D1",
      old='''                if isinstance(val, dict):
                    if (val is not None and scan_node in val
                        and val[scan_node] is not None
                    ):
                        eval_val = val[scan_node]
                        if (match_value is None
                            or Searches.search_matches(
                                PathSearchMethods.GREATER_THAN, match_value,
                                eval_val)
                        ):
                            match_value = eval_val
                            discard_nodes.extend(match_nodes)
                            match_nodes = [
                                NodeCoords(
                                    val, data, key, next_path, next_ancestry,''',
      new='''                if isinstance(val, dict):
                    if val is not None and scan_node in val:
                        eval_val = val[scan_node]
                        if (match_value is None
                            or Searches.search_matches(
                                PathSearchMethods.GREATER_THAN, match_value,
                                eval_val)
                        ):
                            match_value = eval_val
                            discard_nodes.extend(match_nodes)
                            match_nodes = [
                                NodeCoords(
                                    val, data, scan_node, next_path, next_ancestry,'''),
]

ops = [("GREATER_THAN", ">"), ("LESS_THAN", "<"),
       ("GREATER_THAN_OR_EQUAL", ">="), ("LESS_THAN_OR_EQUAL", "<=")]
M["c12"] = []
for name, op in ops:
    for _, other in ops:
        if other == op:
            continue
        M["c12"].append(dict(
            id="order-{}-int-branch-uses-{}".format(name, other), file=S,
            expect="C12-D1",
            old="                    matches = typed_haystack {} typed_needle".format(op),
            new="                    matches = typed_haystack {} typed_needle".format(other)))
M["c12"] += [
 dict(id="regex-match-instead-of-search", file=S, expect="C12-D1",
      old="matches = matcher.search(str(typed_haystack)) is not None",
      new="matches = matcher.match(str(typed_haystack)) is not None"),
 dict(id="needle-type-int-to-float", file=S, expect="C12-D1",
      old="elif isinstance(typed_haystack, int) and needle_type is int:",
      new="elif isinstance(typed_haystack, int) and needle_type is float:"),
 dict(id="non-numeric-needle-not-false", file=S, expect="C12-D1",
      old='''                if isinstance(typed_needle, (int, float)):
                    matches = typed_haystack > typed_needle
                else:
                    matches = False
            elif isinstance(typed_haystack, float):''',
      new='''                if isinstance(typed_needle, (int, float)):
                    matches = typed_haystack > typed_needle
                else:
                    matches = True
            elif isinstance(typed_haystack, float):'''),
 dict(id="operands-swapped", file=S, expect="C12-D1",
      old="                matches = str(typed_haystack) > str(needle)",
      new="                matches = str(needle) > str(typed_haystack)"),
 dict(id="title-removed-for-booleans", file=N, expect="C12-D3",
      old="                cased_value = str(value).title()",
      new="                cased_value = str(value)"),
 dict(id="boolean-spelling-extended", file=N, expect="C12-D3",
      old='if lower_value in ("true", "false"):',
      new='if lower_value in ("true", "false", "yes", "no"):'),
 dict(id="startswith-on-raw-haystack", file=S, expect="C12-D1",
      old="matches = str(typed_haystack).startswith(needle)",
      new="matches = str(needle).startswith(str(typed_haystack))"),
 dict(id="contains-reversed", file=S, expect="C12-D1",
      old="matches = needle in str(typed_haystack)",
      new="matches = str(typed_haystack) in needle"),
 dict(id="inversion-flipped-list-branch", file=P, expect="C12-D5",
      old='''                if (matches and not invert) or (invert and not matches):
                    debug_matched = "one list match yielded"''',
      new='''                if (matches and not invert) or (invert and matches):
                    debug_matched = "one list match yielded"'''),
 dict(id="inversion-dropped-set-branch", file=P, expect="C12-D5",
      old='''                if (matches and not invert) or (invert and not matches):
                    debug_matched = "one set match yielded"''',
      new='''                if matches or (invert and not matches):
                    debug_matched = "one set match yielded"'''),
 dict(id="anchor-inversion-flipped", file=S, expect="C12-D5",
      old='''        if ((matches and not terms.inverted)
            or (terms.inverted and not matches)
        ):''',
      new='''        if ((matches and not terms.inverted)
            or (terms.inverted and matches)
        ):'''),
 dict(id="equals-text-compare-on-typed-needle", file=S, expect="C12-D1",
      old="                matches = str(typed_haystack) == str(needle)",
      new="                matches = str(typed_haystack) == str(typed_needle)"),
 dict(id="valueerror-fallback-dropped", file=N, expect="C12-D",
      old='''        except ValueError:
            typed_value = value
        except SyntaxError:''',
      new='''        except SyntaxError:'''),
]

if __name__ == "__main__":
    os.makedirs(os.path.join(HERE, "mutants"), exist_ok=True)
    import importlib, glob
    for extra in sorted(glob.glob(os.path.join(HERE, "mutants_src", "*.py"))):
        ns = {}
        exec(open(extra).read(), ns)
        for k, v in ns.get("M", {}).items():
            M.setdefault(k, []).extend(v)
    for prop, lst in M.items():
        ids = [m["id"] for m in lst]
        assert len(ids) == len(set(ids)), prop
        json.dump(lst, open(os.path.join(HERE, "mutants", prop + ".json"), "w"), indent=1)
        print(prop, len(lst))
