"""C10 -- anchor conflicts follow the chosen policy.

Decided clauses (DESIGN.md section 4, C10 and appendix A.4):
  D1  policy table with argument roles (partial evaluation of
      _resolve_anchor_conflicts per AnchorConflictResolutions member);
  D2  unique-name postcondition of _calc_unique_anchor and the name pool
      handed to it;
  D3  traversal agreement of rename_anchor / replace_anchor /
      scan_for_anchors (same container kinds, keys and values).
"""
from __future__ import annotations

import ast
from typing import Any, Dict, List, Optional, Set, Tuple

from sa.guards import facts_at
from sa.model import (AnalysisError, FuncInfo, Program, ancestors, parent,
                      src, walk_local)
from sa.peval import Const, Enum, PEval, show
from sa.report import Check

META = {
    "explanation": (
        "Static decision over Merger._resolve_anchor_conflicts, "
        "_calc_unique_anchor and Anchors.rename_anchor / replace_anchor / "
        "scan_for_anchors: the conflict dispatcher is specialised per "
        "policy member and the residual call must be the documented one "
        "with the documented argument roles (which document is edited, "
        "which node replaces which); the dispatch is dominated by the "
        "'values differ' test and equal-valued anchors take the "
        "no-conflict branch; the unique-name routine returns the variable "
        "its `while name in known` loop tests and receives the union of "
        "both documents' anchor names; the three tree walkers descend "
        "into the same container kinds and look at keys and values.  "
        "Nothing is executed."),
    "declined": ["that every alias reads the chosen value afterwards and "
                 "that the dump reloads (object graph / emitter)"],
    "assumptions": ["ruamel anchors are shared objects between an anchor "
                    "and its aliases"],
    "trusted_base": ["ruamel.yaml anchor representation"],
}


def d1_policy(chk: Check) -> None:
    prog = chk.prog
    chk.rule("C10-D1", "each anchor-conflict policy performs its documented "
             "action with the documented argument roles; the dispatch runs "
             "only for unequal anchors and equal ones are unified", floor=6)
    fi = prog.func("Merger._resolve_anchor_conflicts")
    chk.analysed(fi)
    rhs = fi.params()[1]
    mv = None
    for n in walk_local(fi.node):
        if isinstance(n, ast.Assign) and isinstance(n.value, ast.Call) and \
                src(n.value.func).endswith(".anchor_merge_mode"):
            mv = src(n.targets[0])
    if mv is None:
        raise AnalysisError("conflict mode variable not found")
    # roles: anchor maps filled from self.data / rhs
    maps: Dict[str, str] = {}
    for n in walk_local(fi.node):
        if isinstance(n, ast.Call) and \
                src(n.func).endswith("scan_for_anchors") and len(n.args) == 2:
            maps[src(n.args[1])] = src(n.args[0])
    lmap = next((m for m, d in maps.items() if d == "self.data"), None)
    rmap = next((m for m, d in maps.items() if d == rhs), None)
    if not lmap or not rmap:
        raise AnalysisError("anchor maps of both documents not found")
    loops = [n for n in walk_local(fi.node) if isinstance(n, ast.For)]
    if not loops:
        raise AnalysisError("conflict loop not found")
    loop = []
    name = ""
    lnode = rnode = None
    for cand in loops:
        nm = src(cand.target)
        ln = rn = None
        for n in walk_local(cand):
            if isinstance(n, ast.Assign):
                v = src(n.value)
                if v == "{}[{}]".format(lmap, nm):
                    ln = src(n.targets[0])
                elif v == "{}[{}]".format(rmap, nm):
                    rn = src(n.targets[0])
        if ln and rn:
            loop, name, lnode, rnode = [cand], nm, ln, rn
            break
    if not lnode or not rnode:
        raise AnalysisError("anchored node roles not found")
    # the loop visits exactly the names defined in both documents
    it = src(loop[0].iter)
    if isinstance(loop[0].iter, ast.Name):
        from sa.coords import reaching_def
        d = reaching_def(loop[0].iter.id, loop[0])
        if d is not None:
            it = src(d)
    if "in {}".format(rmap) in it and "in {}".format(lmap) in it:
        chk.ok("C10-D1", fi, loop[0], "conflict candidates",
               "names defined in both documents")
    else:
        chk.fail("C10-D1", fi, loop[0], "conflict candidates",
                 "the loop does not range over the names defined in both "
                 "documents")
    # dispatch If: `if not anchors_match:`
    disp = None
    disp_body: List[ast.stmt] = []
    disp_else: List[ast.stmt] = []
    for n in walk_local(loop[0]):
        if not isinstance(n, ast.If):
            continue
        if isinstance(n.test, ast.UnaryOp) and \
                isinstance(n.test.op, ast.Not) and any(
                    mv in src(x) for x in walk_local(n)):
            disp, disp_body, disp_else = n, n.body, n.orelse
            match_var = src(n.test.operand)
        elif isinstance(n.test, ast.Name) and n.orelse and any(
                mv in src(x) for s_ in n.orelse for x in walk_local(s_)) \
                and not any(mv in src(x) for s_ in n.body
                            for x in walk_local(s_)):
            # the same decision with the arms swapped:
            # `if <equal>: unify` / `else | elif ...: dispatch`
            disp, disp_body, disp_else = n, n.orelse, n.body
            match_var = src(n.test)
    if disp is None:
        chk.fail("C10-D1", fi, loop[0], "dispatch guard",
                 "the policy dispatch is not guarded by `not <anchors "
                 "equal>`")
        return
    # a conflict is declared nowhere else: any other raise of the merge
    # exception / consultation of the mode decides "conflict" by a test of
    # its own, which need not agree with the equality computed here
    for n in walk_local(fi.node):
        outside = not any(a is disp for a in ancestors(n))
        if isinstance(n, ast.Raise) and outside:
            chk.fail("C10-D1", fi, n, "conflict declared outside the "
                     "dispatch",
                     "`{}` is not governed by the equality flag `{}` of the "
                     "conflict loop: the merge can be refused for anchors "
                     "the loop itself finds equal".format(
                         src(n)[:50], match_var))
        if isinstance(n, ast.Compare) and outside and any(
                isinstance(x, ast.Attribute) and x.attr == "STOP"
                for x in ast.walk(n)):
            chk.fail("C10-D1", fi, n, "policy consulted outside the "
                     "dispatch",
                     "`{}` consults the policy outside the dispatch guarded "
                     "by `not {}`".format(src(n)[:60], match_var))
    # the equality flag compares the two nodes (value and tag for tagged)
    eq_defs = [src(n.value) for n in walk_local(loop[0])
               if isinstance(n, ast.Assign) and
               src(n.targets[0]) == match_var]
    for _hop in range(3):
        # a plain copy `flag = other` (e.g. an inlined helper's result)
        if len(eq_defs) == 1 and eq_defs[0].isidentifier() and \
                eq_defs[0] != match_var:
            via = eq_defs[0]
            eq_defs = [src(n.value) for n in walk_local(loop[0])
                       if isinstance(n, ast.Assign) and
                       src(n.targets[0]) == via]
    eq_calls = [n.value for n in walk_local(loop[0])
                if isinstance(n, ast.Assign) and
                src(n.targets[0]) == match_var and
                isinstance(n.value, ast.Call)]
    if len(eq_defs) == 1 and len(eq_calls) == 1:
        # the comparison lives in a helper that is given the two nodes:
        # read the definitions of the value it returns, in the caller's terms
        from sa.interproc import arg_map, subst
        from sa.model import resolve_call
        callee = resolve_call(prog, fi, eq_calls[0])
        cfi = callee[0] if isinstance(callee, list) and callee else callee
        am = arg_map(cfi, eq_calls[0]) if cfi is not None else None
        if cfi is not None and am is not None:
            rets = [r.value for r in walk_local(cfi.node)
                    if isinstance(r, ast.Return) and r.value is not None]
            if len(rets) == 1 and isinstance(rets[0], ast.Name):
                eq_defs = [src(subst(n.value, am))
                           for n in walk_local(cfi.node)
                           if isinstance(n, ast.Assign) and
                           src(n.targets[0]) == rets[0].id]
            elif len(rets) >= 1:
                eq_defs = [src(subst(r, am)) for r in rets]
    if any("{} == {}".format(lnode, rnode) == d for d in eq_defs) and \
            any(".value ==" in d and ".tag.value ==" in d for d in eq_defs):
        chk.ok("C10-D1", fi, disp, "equality test",
               "nodes compared by value (and tag for tagged scalars)")
    else:
        chk.fail("C10-D1", fi, disp, "equality test",
                 "'no conflict' is not decided by equality of the two "
                 "anchored nodes: {}".format(eq_defs))
    pe = PEval(enum_classes={"AnchorConflictResolutions"})
    want = {
        "RENAME": ("rename_anchor", [rhs, name]),
        "LEFT": ("replace_anchor", [rhs, rnode, lnode]),
        "RIGHT": ("replace_anchor", ["self.data", lnode, rnode]),
        "STOP": ("raise", []),
    }
    members = prog.enum_members("AnchorConflictResolutions")
    if set(members) != set(want):
        raise AnalysisError("AnchorConflictResolutions members changed")
    for m in members:
        res = pe.specialise(disp_body,
                            {mv: Enum("AnchorConflictResolutions", m)},
                            pinned=[mv])
        calls = [c for s in res for c in ast.walk(s)
                 if isinstance(c, ast.Call) and
                 src(c.func).startswith("Anchors.")]
        raises = [r for s in res for r in ast.walk(s)
                  if isinstance(r, ast.Raise)]
        kind, args = want[m]
        if kind == "raise":
            ok = not calls and len(raises) == 1 and \
                "MergeException" in src(raises[0])
            got = "raise" if raises else [src(c)[:60] for c in calls]
        else:
            ok = len(calls) == 1 and not raises and \
                src(calls[0].func) == "Anchors." + kind and \
                [src(a) for a in calls[0].args[:len(args)]] == args
            got = [src(c)[:90] for c in calls]
            if ok and m == "RENAME":
                third = calls[0].args[2] if len(calls[0].args) > 2 else None
                ok = isinstance(third, ast.Call) and \
                    src(third.func).endswith("._calc_unique_anchor") and \
                    src(third.args[0]) == name
        text = "policy " + m
        if ok:
            chk.ok("C10-D1", fi, None, text, "residual: {}".format(got))
        else:
            chk.fail("C10-D1", fi, None, text,
                     "policy {} must perform {}({}) but the residual is {}"
                     .format(m, kind, ", ".join(args), got),
                     {"residual": show(res)[:500]})
    # equal anchors: unified by replacing left nodes with right ones
    calls = [c for s in disp_else for c in walk_local(s)
             if isinstance(c, ast.Call) and src(c.func).startswith("Anchors.")]
    if len(calls) == 1 and src(calls[0].func) == "Anchors.replace_anchor" \
            and [src(a) for a in calls[0].args] == ["self.data", lnode, rnode]:
        chk.ok("C10-D1", fi, calls[0], "equal anchors",
               "no policy consulted; left nodes unified with the right ones")
    else:
        chk.fail("C10-D1", fi, disp, "equal anchors",
                 "same-name anchors with equal values are not simply "
                 "unified")


def d2_unique(chk: Check) -> None:
    prog = chk.prog
    chk.rule("C10-D2", "_calc_unique_anchor returns a name that its loop "
             "has tested to be outside the known names; the caller passes "
             "the union of both documents' anchor names; names handed out in "
             "one pass are pairwise distinct", floor=3)
    fi = prog.func("Merger._calc_unique_anchor")
    chk.analysed(fi)
    known = fi.params()[2]
    whiles = [n for n in walk_local(fi.node) if isinstance(n, ast.While)]
    rets = [n for n in walk_local(fi.node) if isinstance(n, ast.Return)]
    ok = False
    if len(whiles) == 1 and len(rets) == 1:
        t = whiles[0].test
        if isinstance(t, ast.Compare) and isinstance(t.ops[0], ast.In) and \
                src(t.comparators[0]) == known and \
                src(t.left) == src(rets[0].value) and \
                not any(a is whiles[0] for a in ancestors(rets[0])) and \
                rets[0].lineno > whiles[0].lineno:
            # the loop must change the candidate (progress)
            changes = [n for n in walk_local(whiles[0])
                       if isinstance(n, ast.Assign) and
                       src(n.targets[0]) == src(t.left)]
            counter = [n for n in walk_local(whiles[0])
                       if isinstance(n, ast.AugAssign)]
            ok = bool(changes) and bool(counter)
    if ok:
        chk.ok("C10-D2", fi, whiles[0], "while {} in {}".format(
            src(whiles[0].test.left), known),  # type: ignore
            "the returned name is the loop's exit witness (not in known)")
    else:
        chk.fail("C10-D2", fi, fi.node, "unique-name postcondition",
                 "the returned name is not the one tested by `while name in "
                 "known`: a renamed anchor may collide with an existing one")
    # names handed out in one pass are pairwise distinct: the caller's
    # pool is computed once, so the routine itself must be injective over
    # different source names.  Extending the *current candidate* is (the
    # result of `s` is s_1_2.._k with every proper prefix taken; for another
    # source t = s_1.._j the results part after position j: `_{j+1}` against
    # `_1`); restarting from a base shared by several sources is not.
    rc = prog.func("Merger._resolve_anchor_conflicts")
    if ok:
        cand = src(whiles[0].test.left)  # type: ignore[attr-defined]
        steps = [n for n in walk_local(whiles[0])
                 if isinstance(n, ast.Assign) and src(n.targets[0]) == cand]
        extending = True
        for st in steps:
            v = st.value
            lead: Optional[ast.AST] = None
            if isinstance(v, ast.Call) and \
                    isinstance(v.func, ast.Attribute) and \
                    v.func.attr == "format" and \
                    isinstance(v.func.value, ast.Constant) and \
                    str(v.func.value.value).startswith("{}") and v.args:
                lead = v.args[0]
            elif isinstance(v, ast.BinOp) and isinstance(v.op, ast.Add):
                cur: ast.AST = v
                while isinstance(cur, ast.BinOp):
                    cur = cur.left
                lead = cur
            elif isinstance(v, ast.JoinedStr) and v.values and \
                    isinstance(v.values[0], ast.FormattedValue):
                lead = v.values[0].value
            if lead is None or src(lead) != cand:
                extending = False
        pooled = False
        for c in walk_local(rc.node):
            if isinstance(c, ast.Call) and \
                    src(c.func).endswith("._calc_unique_anchor"):
                st_ = c
                while parent(st_) is not None and \
                        not isinstance(st_, ast.stmt):
                    st_ = parent(st_)
                if isinstance(st_, ast.Assign):
                    res = src(st_.targets[0])
                    pooled = any(
                        isinstance(x, ast.Call) and
                        isinstance(x.func, ast.Attribute) and
                        x.func.attr in ("add", "append") and x.args and
                        src(x.args[0]) == res
                        for x in walk_local(rc.node)) or any(
                            isinstance(x, ast.Subscript) and
                            isinstance(x.ctx, ast.Store) and
                            src(x.slice) == res
                            for x in walk_local(rc.node))
        if extending or pooled:
            chk.ok("C10-D2", fi, whiles[0], "names of one pass are distinct",
                   "each candidate extends the current candidate"
                   if extending else "the caller records each name handed "
                   "out")
        else:
            chk.fail("C10-D2", fi, whiles[0],
                     "names of one pass are distinct",
                     "candidates restart from a text other than the current "
                     "candidate and the caller's pool is computed once: two "
                     "conflicting anchors can be given the same new name "
                     "(duplicate anchor in the result)")
    calls = [c for c in walk_local(rc.node) if isinstance(c, ast.Call)
             and src(c.func).endswith("._calc_unique_anchor")]
    if len(calls) == 1 and len(calls[0].args) == 2:
        pool = src(calls[0].args[1])
        maps = [src(n.args[1]) for n in walk_local(rc.node)
                if isinstance(n, ast.Call) and
                src(n.func).endswith("scan_for_anchors")]
        if all(m in pool for m in maps) and "union" in pool:
            chk.ok("C10-D2", rc, calls[0], "name pool", pool[:70])
        else:
            chk.fail("C10-D2", rc, calls[0], "name pool",
                     "the unique-name routine is not given the union of "
                     "both documents' anchor names: {}".format(pool))
    else:
        chk.fail("C10-D2", rc, rc.node, "name pool",
                 "call of the unique-name routine not found")


def d3_traversal(chk: Check) -> None:
    prog = chk.prog
    chk.rule("C10-D3", "rename_anchor, replace_anchor and scan_for_anchors "
             "descend into mappings and sequences and look at both keys and "
             "values", floor=3)
    for name in ("Anchors.scan_for_anchors", "Anchors.rename_anchor",
                 "Anchors.replace_anchor"):
        fi = prog.func(name)
        chk.analysed(fi)
        kinds: Dict[str, ast.If] = {}
        for n in walk_local(fi.node):
            if isinstance(n, ast.If) and "isinstance" in src(n.test) and \
                    fi.params()[0] in src(n.test):
                if "CommentedMap" in src(n.test):
                    kinds.setdefault("map", n)
                if "CommentedSeq" in src(n.test):
                    kinds.setdefault("seq", n)
        problems: List[str] = []
        for k in ("map", "seq"):
            if k not in kinds:
                problems.append("no {} branch".format(k))
                continue
            body = kinds[k].body
            rec = [c for s in body for c in walk_local(s)
                   if isinstance(c, ast.Call) and
                   src(c.func) == "Anchors." + fi.node.name]
            loops = [l for s in body for l in walk_local(s)
                     if isinstance(l, ast.For)]
            if not rec or not loops:
                problems.append("{} branch does not recurse over its "
                                "members".format(k))
            if any(isinstance(x, (ast.Break, ast.Return))
                   for s in body for x in walk_local(s)):
                problems.append("{} branch can leave early".format(k))
        if "map" in kinds:
            t = " ".join(src(s) for s in kinds["map"].body)
            if not ("key" in t and ".anchor" in t and "val" in t):
                problems.append("map branch does not examine keys and "
                                "values")
            else:
                anchored = [n for s in kinds["map"].body
                            for n in walk_local(s)
                            if isinstance(n, ast.Call) and
                            src(n.func) == "hasattr" and n.args]
                who = {src(n.args[0]) for n in anchored}
                if len(who) < 2:
                    problems.append("map branch tests anchors of {} only"
                                    .format(sorted(who)))
        if problems:
            chk.fail("C10-D3", fi, fi.node, fi.short, "; ".join(problems))
        else:
            chk.ok("C10-D3", fi, fi.node, fi.short,
                   "mappings (keys and values) and sequences, full "
                   "iteration, recursive")


def d3b_every_member(chk: Check) -> None:
    """Within each container branch of the three walkers, every path
    through the handling of one member either replaces that member or
    recurses into it; the recursion may be skipped only for a member that
    is neither a mapping nor a sequence."""
    from sa.flow import Flow
    prog = chk.prog
    chk.rule("C10-D3b", "every member of a mapping / sequence is recursed "
             "into (or replaced) on every path; only non-containers are "
             "exempt", floor=6)
    for name in ("Anchors.scan_for_anchors", "Anchors.rename_anchor",
                 "Anchors.replace_anchor"):
        fi = prog.func(name)
        dom = fi.params()[0]
        me = "Anchors." + fi.node.name
        for loop in [n for n in walk_local(fi.node) if isinstance(n, ast.For)]:
            recs = [c for c in walk_local(loop) if isinstance(c, ast.Call)
                    and src(c.func) == me and c.args]
            if not recs:
                continue
            member = src(loop.target.elts[-1]) \
                if isinstance(loop.target, ast.Tuple) else src(loop.target)

            def transfer(stmt: ast.stmt, st, flow, member=member):
                for c in ast.walk(stmt):
                    if isinstance(c, ast.Call) and src(c.func) == me and \
                            c.args and src(c.args[0]) == member:
                        return [True]
                if isinstance(stmt, ast.Assign) and \
                        isinstance(stmt.targets[0], ast.Subscript) and \
                        src(stmt.targets[0].value) == dom:
                    return [True]     # the member itself is replaced
                return [st]

            def branch(test: ast.AST, st, flow, member=member):
                t = src(test)
                if isinstance(test, ast.Call) and \
                        src(test.func) == "isinstance" and \
                        src(test.args[0]) == member and \
                        "CommentedMap" in t and "CommentedSeq" in t:
                    return [st], [True]   # a scalar has nothing below it
                return [st], [st]
            out = Flow(transfer, branch).run(loop.body, [False])
            ends = list(out.fall) + list(out.continues)
            text = "{}: for {} in {}".format(fi.node.name, src(loop.target),
                                             src(loop.iter)[:30])
            if ends and all(ends) and not out.breaks and not out.returns:
                chk.ok("C10-D3b", fi, loop, text,
                       "`{}` replaced or recursed into on every path"
                       .format(member))
            else:
                chk.fail("C10-D3b", fi, loop, text,
                         "some path through the iteration neither replaces "
                         "`{}` nor recurses into it (or restricts the "
                         "recursion to one container kind): uses of the "
                         "anchor below it are missed".format(member))


def d4_fresh_tables(chk: Check, rid: str = "C10-D4") -> None:
    """Conflict detection compares the anchors of the documents *as they
    are now*: both tables are local, start empty and are filled by an
    unconditional scan in the same call (a Merger folds many right-hand
    documents into one left document, whose anchors grow on the way)."""
    from sa.coords import reaching_def
    from sa.guards import facts_at
    prog = chk.prog
    chk.rule(rid, "the anchor tables compared by "
             "_resolve_anchor_conflicts are local, empty at the start and "
             "filled by an unconditional scan of the current documents",
             floor=2)
    fi = prog.func("Merger._resolve_anchor_conflicts")
    rhs = fi.params()[1]
    scans = [c for c in walk_local(fi.node) if isinstance(c, ast.Call) and
             src(c.func).endswith("scan_for_anchors") and len(c.args) == 2]
    if len(scans) != 2:
        raise AnalysisError("expected two anchor scans, found {}".format(
            len(scans)))
    for c in scans:
        doc, table = src(c.args[0]), c.args[1]
        text = src(c)
        d = reaching_def(table.id, c) if isinstance(table, ast.Name) else None
        conds = [f for f in facts_at(c) if f.kind == "cond"]
        problems = []
        if doc not in ("self.data", rhs):
            problems.append("scans `{}`".format(doc))
        if d is None or src(d) not in ("{}", "dict()"):
            problems.append("table `{}` does not start as a new empty dict "
                            "in this call (it is `{}`)".format(
                                src(table), src(d) if d is not None
                                else "defined elsewhere"))
        if conds:
            problems.append("the scan is conditional on {}".format(conds[0]))
        if problems:
            chk.fail(rid, fi, c, text, "; ".join(problems) +
                     ": anchors brought in by earlier merges are invisible "
                     "to the conflict test")
        else:
            chk.ok(rid, fi, c, text, "fresh table, unconditional scan")


def d5_no_live_mutation(chk: Check, rid: str = "C10-D5",
                        prefixes: Tuple[str, ...] = (
                            "yamlpath/common/anchors.py",
                            "yamlpath/merger/")) -> None:
    """Anchor replacement re-keys mappings (pop + insert) while it walks
    them.  That is only sound over a snapshot of the keys; over a live view
    or a generator it raises RuntimeError for every anchored key that is
    not the last one -- an acceptable merge is refused."""
    from sa.iterate import live_mutations
    prog = chk.prog
    chk.rule(rid, "no loop changes the size of the container it iterates "
             "live (snapshots and mutate-then-leave are fine)", floor=10)
    for fi in prog.functions.values():
        if not fi.module.relpath.startswith(prefixes):
            continue
        bad, n = live_mutations(fi)
        for loop, node, what in bad:
            chk.fail(rid, fi, node, "{} inside `for {} in {}`".format(
                what, src(loop.target), src(loop.iter)[:40]),
                "the loop iterates the container live (a generator "
                "expression is not a snapshot) and changes its size: "
                "RuntimeError / skipped elements")
        for _ in range(n):
            chk.ok(rid, fi, fi.node, fi.short, "loop ok", False)


def d3c_recursion_forwards(chk: Check) -> None:
    """A walker that recurses with its own parameters passes each one in
    its own position: `rename_anchor(ele, new_anchor, anchor)` below a
    sequence renames the new name back to the old one."""
    prog = chk.prog
    chk.rule("C10-D3c", "in self-recursive calls (anchors.py, merger.py) a "
             "parameter handed on occupies its own position", floor=8)
    for fi in prog.functions.values():
        if not fi.module.relpath.startswith(("yamlpath/common/anchors.py",
                                             "yamlpath/merger/")):
            continue
        ps = [a.arg for a in fi.node.args.args]
        name = fi.node.name
        for c in walk_local(fi.node):
            if not (isinstance(c, ast.Call) and
                    src(c.func).split(".")[-1] == name) or \
                    src(c.func).startswith("super()"):
                continue
            off = 1 if ps and ps[0] in ("self", "cls") and \
                isinstance(c.func, ast.Attribute) and \
                src(c.func.value) in ("self", "cls") else 0
            for i, a in enumerate(c.args):
                if not (isinstance(a, ast.Name) and a.id in ps):
                    continue
                pos = ps.index(a.id) - off
                text = "{}: {}".format(fi.short, src(c)[:60])
                if pos == i:
                    chk.ok("C10-D3c", fi, c, text, "`{}` in its own "
                           "position".format(a.id), False)
                else:
                    chk.fail("C10-D3c", fi, c, text,
                             "parameter `{}` is handed on in the position "
                             "of `{}`: below this point the walk works with "
                             "the two exchanged".format(
                                 a.id, ps[i + off] if i + off < len(ps)
                                 else "?"))


def d3d_leaf_is_registered(chk: Check) -> None:
    """scan_for_anchors is also called on nodes that are no containers: the
    elements of a sequence (through its own recursion) and a document whose
    root is a bare anchored scalar (`--- &x 2`, merged into a list).  Its
    last arm registers the anchor of *the node it was called on*.  Without
    it no shared name is found for such a document: `stop` accepts a real
    conflict, `rename` renames nothing, and the result defines the anchor
    twice."""
    prog = chk.prog
    chk.rule("C10-D3d", "scan_for_anchors registers the anchor of the node "
             "it is called on when that node is no mapping and no sequence",
             floor=1)
    fi = prog.func("Anchors.scan_for_anchors")
    dom, table = fi.params()[0], fi.params()[1]
    hits = []
    for a in walk_local(fi.node):
        if isinstance(a, ast.Assign) and \
                src(a.targets[0]) == "{}[{}.anchor.value]".format(table, dom) \
                and src(a.value) == dom:
            negs = [f for f in facts_at(a) if f.kind == "cond" and not f.pol]
            kinds = " ".join(src(f.expr) for f in negs)
            if "CommentedMap" in kinds and "CommentedSeq" in kinds and \
                    not any(isinstance(x, (ast.For, ast.While))
                            for x in ancestors(a)):
                hits.append(a)
    if hits:
        chk.ok("C10-D3d", fi, hits[0], "leaf arm of scan_for_anchors",
               "`{}[{}.anchor.value] = {}` after the container arms".format(
                   table, dom, dom))
    else:
        chk.fail("C10-D3d", fi, fi.node, "leaf arm of scan_for_anchors",
                 "no arm registers the anchor of a node that is neither "
                 "mapping nor sequence: an anchored scalar document root "
                 "(and any anchored scalar reached by plain recursion) is "
                 "invisible to conflict detection")


def d6_conflicts_before_targets(chk: Check) -> None:
    """The merge-point query of merge_with runs in the optional-match mode
    with the right-hand document as default value: for a merge point that
    does not exist yet it *grafts the right document into the left one*.
    If that happens before the anchor conflicts are looked at, the scan of
    the left document finds the right-hand anchors too, every pair looks
    symmetric, and each policy degenerates to `right` (`stop` accepts).  On
    every path the conflict resolution precedes the target query."""
    from sa.flow import Flow
    prog = chk.prog
    chk.rule("C10-D6", "merge_with resolves anchor conflicts before it "
             "queries (and possibly creates) the merge targets", floor=1)
    fi = prog.func("Merger.merge_with")
    bad: List[ast.AST] = []
    seen = {"q": 0}

    def transfer(stmt: ast.stmt, st, flow):
        for c in ast.walk(stmt):
            if isinstance(c, ast.Call):
                f = src(c.func)
                if f.endswith("._resolve_anchor_conflicts"):
                    st = True
                elif f.endswith("._get_merge_target_nodes") or \
                        f.endswith(".get_nodes"):
                    seen["q"] += 1
                    if not st:
                        bad.append(c)
        return [st]

    def branch(test: ast.AST, st, flow):
        return [st], [st]

    def bind(target: ast.AST, it: ast.AST, st, flow):
        for c in ast.walk(it):
            if isinstance(c, ast.Call) and (
                    src(c.func).endswith("._get_merge_target_nodes") or
                    src(c.func).endswith(".get_nodes")):
                seen["q"] += 1
                if not st:
                    bad.append(c)
        return [st]
    Flow(transfer, branch, bind=bind).run(fi.node.body, [False])
    if not seen["q"]:
        raise AnalysisError("merge_with: target query not found")
    if bad:
        chk.fail("C10-D6", fi, bad[0], src(bad[0])[:60],
                 "the merge targets are queried (a missing merge point is "
                 "created from the right document) before the anchor "
                 "conflicts are resolved: the left document then already "
                 "holds the right-hand anchors and no conflict is seen")
    else:
        chk.ok("C10-D6", fi, fi.node, "conflicts, then targets",
               "every target query follows _resolve_anchor_conflicts()")


def d9_every_shared_name_is_judged(chk: Check) -> None:
    """The conflict pass looks at *every* anchor name the two documents
    share.  Which names are "only generated" cannot be told from their
    spelling: ruamel keeps a scalar anchor named `id001` exactly like any
    other.  A further filter on the names lets such a pair through
    unjudged -- `stop` accepts the conflicting merge and the result
    defines the anchor twice."""
    prog = chk.prog
    chk.rule("C10-D9", "the names handed to the conflict dispatch are all "
             "names present in both anchor tables: the selection has one "
             "filter, membership in the other table", floor=1)
    fi = prog.func("Merger._resolve_anchor_conflicts")
    tables = [c.args[1].id for c in walk_local(fi.node)
              if isinstance(c, ast.Call) and
              src(c.func).endswith("scan_for_anchors") and
              len(c.args) == 2 and isinstance(c.args[1], ast.Name)]
    if len(tables) != 2:
        raise AnalysisError("anchor tables of the conflict pass not found")
    loops = [l for l in fi.node.body if isinstance(l, ast.For)]
    sel = None
    for l in loops:
        it = l.iter
        if isinstance(it, (ast.ListComp, ast.GeneratorExp, ast.SetComp)) \
                and len(it.generators) == 1 and \
                src(it.generators[0].iter).split(".")[0] in tables:
            sel = (l, it.generators[0])
        elif src(it).split(".")[0] in tables:
            sel = (l, None)
    if sel is None:
        return      # the rule's floor reports a lost subject
    loop, gen = sel
    text = "for {} in {}".format(src(loop.target), src(loop.iter)[:60])
    if gen is None:
        # iterating one table directly: the membership test must be the
        # first statement guard -- accept a leading `if x not in other:
        # continue`
        first = loop.body[0] if loop.body else None
        ok = isinstance(first, ast.If) and any(t in src(first.test)
                                               for t in tables)
        extra = []
    else:
        member = [i for i in gen.ifs if isinstance(i, ast.Compare) and
                  len(i.ops) == 1 and isinstance(i.ops[0], ast.In) and
                  src(i.comparators[0]) in tables]
        extra = [i for i in gen.ifs if i not in member]
        ok = len(member) == 1
    if ok and not extra:
        chk.ok("C10-D9", fi, loop, text, "every name present in both "
               "tables")
    else:
        chk.fail("C10-D9", fi, (extra or [loop])[0], text,
                 "shared names are filtered further (`{}`): a pair of "
                 "same-name anchors that the filter drops is never "
                 "compared, so no policy -- not even `stop` -- applies to "
                 "it and the merged document defines the anchor twice"
                 .format(src(extra[0]) if extra else "no membership test"))


def d10_anchor_edits_cover_the_document(chk: Check) -> None:
    """Replacing or renaming an anchor is a whole-document operation: every
    alias of the old node, wherever it sits, must be switched, or the name
    ends up on two different nodes.  Inside the merger the anchor editing
    routines are therefore called from the conflict pass only, with a
    document root (the merger's own data or the incoming document).  A call
    from one of the recursive mergers passes the Hash it happens to be
    working on; aliases in other branches keep the old node."""
    prog = chk.prog
    chk.rule("C10-D10", "Anchors.replace_anchor / rename_anchor are called "
             "in merger.py only by _resolve_anchor_conflicts, on self.data "
             "or on its right-hand document parameter", floor=3)
    n = 0
    for fi in prog.funcs_in("yamlpath/merger/merger.py"):
        for c in walk_local(fi.node):
            if not (isinstance(c, ast.Call) and src(c.func) in (
                    "Anchors.replace_anchor", "Anchors.rename_anchor")):
                continue
            if len(c.args) == 1 and isinstance(c.args[0], ast.Starred):
                continue    # a public pass-through kept for compatibility
            n += 1
            text = "{}: {}".format(fi.short, src(c)[:60])
            arg = src(c.args[0]) if c.args else ""
            roots = {"self.data"}
            if fi.node.name == "_resolve_anchor_conflicts":
                roots.add(fi.params()[1])
            if fi.node.name == "_resolve_anchor_conflicts" and arg in roots:
                chk.ok("C10-D10", fi, c, text, "on a document root")
            else:
                chk.fail("C10-D10", fi, c, text,
                         "the anchor is edited in `{}` only, which is not a "
                         "document root here: aliases outside it keep the "
                         "old node, so two different nodes carry the anchor "
                         "and the dumped document defines it twice".format(
                             arg))


def run(chk: Check) -> None:
    d1_policy(chk)
    d2_unique(chk)
    d3_traversal(chk)
    d3b_every_member(chk)
    d3c_recursion_forwards(chk)
    d3d_leaf_is_registered(chk)
    d6_conflicts_before_targets(chk)
    d9_every_shared_name_is_judged(chk)
    d10_anchor_edits_cover_the_document(chk)
    d4_fresh_tables(chk)
    d5_no_live_mutation(chk)
    from rules.shared import late_binding_rule
    late_binding_rule(chk, "C10-D7", ("yamlpath/merger/merger.py",
                                      "yamlpath/common/anchors.py"), 25)
    from rules.shared import no_copies_of_document_nodes_rule
    no_copies_of_document_nodes_rule(chk, "C10-D8",
                                     ("yamlpath/merger/merger.py",), 20)
