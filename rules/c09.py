"""C09 -- queries never modify the document; creation adds only the tail.

Decided clauses (DESIGN.md section 4, C09):
  D1  purity of the read path (effect analysis with freshness and
      interprocedural mutation summaries);
  D2  every document mutation in the optional-match driver is dominated by
      the "nothing matched at this depth" test;
  D3  the creation sites are exactly: padded append, one key store, one set
      add; the padding loop's trip count is newidx - len(data) + 1.
"""
from __future__ import annotations

import ast
from typing import Dict, List, Optional, Set

from sa.effects import Effects, MutSite, mutation_sites
from sa.guards import facts_at, linear, root_name
from sa.model import (AnalysisError, FuncInfo, Program, closure,
                      resolve_call, src, walk_local)
from sa.report import Check

META = {
    "explanation": (
        "Effect analysis over the AST of the read path (closure of "
        "Processor.exists and Processor._get_required_nodes: segment "
        "handlers, collectors, keyword searches, comparison helpers, path "
        "objects): every mutation site (mutating method call, subscript/"
        "attribute store or delete) is classified by the provenance of its "
        "receiver -- fresh local, own cache field, per-call kwargs, "
        "parameter, or possibly-document data -- with mutation summaries "
        "propagated through the call graph; no site may touch document "
        "data (D1).  In the optional-match driver every document mutation "
        "is dominated by the no-match test of its own depth (D2) and the "
        "mutations are exactly the three tail-creation forms with the "
        "padding loop's trip count in the normal form newidx-len(data)+1 "
        "(D3).  Nothing is executed."),
    "declined": [
        "value-level frame condition (every pre-existing node unchanged) -- "
        "follows from D2/D3 only under aliasing assumptions on the input",
    ],
    "assumptions": [
        "mutating API of list/dict/set/deque/ruamel containers = the "
        "MUTATORS table in sa/guards.py",
        "ConsolePrinter (logging) does not mutate its data argument",
    ],
    "trusted_base": ["MUTATORS table", "FRESH_CALLS table (sa/effects.py)"],
}

READ_ROOTS = ["Processor.exists", "Processor._get_required_nodes"]


def read_closure(prog: Program) -> List[FuncInfo]:
    roots = [prog.func(r) for r in READ_ROOTS]
    cl = [f for f in closure(prog, roots)
          if not f.short.startswith("ConsolePrinter.")]
    return sorted(cl, key=lambda f: f.qual)


def d1_purity(chk: Check, ef: Effects, cl: List[FuncInfo]) -> None:
    chk.rule("C09-D1", "no mutation site on the read path has a receiver "
             "that may be document data (directly or through a callee's "
             "mutated parameter)", floor=150)
    prog = chk.prog
    for fi in cl:
        chk.analysed(fi)
        for site in mutation_sites(fi):
            cls, detail = ef.classify(site)
            text = "{} on {}".format(site.how, src(site.receiver))
            if cls == "doc":
                key = "{} on <document data: {}>".format(site.how, detail)
                chk.fail("C09-D1", fi, site.node, key,
                         "`{}` mutates possibly-document data ({}) on the "
                         "read path: a query must leave the document "
                         "unchanged".format(site.text, detail))
            elif cls == "unknown":
                chk.fail("C09-D1", fi, site.node, text,
                         "receiver `{}` of a mutation on the read path has "
                         "unknown provenance (neither fresh, own field, "
                         "kwargs nor a tracked parameter)".format(
                             src(site.receiver)))
            else:
                chk.ok("C09-D1", fi, site.node, text,
                       "receiver is {} ({})".format(cls, detail),
                       nontrivial=cls not in ("kwargs",))
        for call, callee, param, arg in ef.calls_mutating_doc(fi):
            chk.fail("C09-D1", fi, call,
                     "call {}({}=<{}>)".format(callee.short, param, src(arg)),
                     "passes possibly-document data `{}` to `{}`, which "
                     "mutates its parameter `{}`".format(
                         src(arg), callee.short, param))
    # the required-match drivers must not fall into the optional driver
    for name in ("Processor.exists",):
        fi = prog.func(name)
        for n in walk_local(fi.node):
            if isinstance(n, ast.Call) and \
                    src(n.func).endswith("_get_optional_nodes"):
                chk.fail("C09-D1", fi, n, src(n.func),
                         "existence test calls the optional-match driver, "
                         "which creates missing nodes")


def _counts_every_candidate(chk: Check, fi: FuncInfo, counter: str) -> None:
    """The `counter < 1` test means "the segment matched nothing" only if
    every candidate the dispatcher produced was counted, whatever branch
    handled it; and nothing but the initialisation resets it."""
    from sa.flow import Flow
    chk.rule("C09-D2b", "the match counter is incremented on every path "
             "through the handling of one candidate and is reset only by "
             "its initialisation before the candidate loop", floor=2)
    loops = [n for n in walk_local(fi.node) if isinstance(n, ast.For) and
             "_get_nodes_by_path_segment" in src(n.iter)]
    for loop in loops:
        def transfer(stmt: ast.stmt, st, flow):
            if isinstance(stmt, ast.AugAssign) and \
                    src(stmt.target) == counter and \
                    isinstance(stmt.op, ast.Add):
                return [True]
            return [st]

        def branch(test: ast.AST, st, flow):
            return [st], [st]
        out = Flow(transfer, branch).run(loop.body, [False])
        ends = list(out.fall) + list(out.continues) + list(out.breaks)
        text = "for {} in <candidates of this segment>".format(
            src(loop.target))
        if all(ends) and ends:
            chk.ok("C09-D2b", fi, loop, text,
                   "{} end state(s) of the loop body, all counted".format(
                       len(set(ends))))
        else:
            chk.fail("C09-D2b", fi, loop, text,
                     "some path through the handling of a matched candidate "
                     "does not count it: `{} < 1` then holds although the "
                     "segment matched, and the creation path runs".format(
                         counter))
    inits = [n for n in walk_local(fi.node) if isinstance(n, ast.Assign) and
             any(src(t) == counter for t in n.targets)]
    for a in inits:
        from sa.model import ancestors
        in_loop = any(isinstance(x, (ast.For, ast.While))
                      for x in ancestors(a) if x is not fi.node and
                      any(y is x for y in walk_local(fi.node)))
        text = src(a)
        if src(a.value) == "0" and not in_loop:
            chk.ok("C09-D2b", fi, a, text, "initialised once, outside a loop")
        else:
            chk.fail("C09-D2b", fi, a, text,
                     "the match counter is re-assigned after candidates "
                     "may have been counted")


def d2_guarded_creation(chk: Check, ef: Effects) -> List[ast.AST]:
    prog = chk.prog
    chk.rule("C09-D2", "every document mutation in the optional-match driver "
             "is dominated by the `matched_nodes < 1` test of its own depth",
             floor=4)
    fi = prog.func("Processor._get_optional_nodes")
    chk.analysed(fi)
    # role: the counter incremented inside the loop over the segment's
    # candidates
    counter = None
    for n in walk_local(fi.node):
        if isinstance(n, ast.For) and \
                "_get_nodes_by_path_segment" in src(n.iter):
            for s in walk_local(n):
                if isinstance(s, ast.AugAssign) and \
                        isinstance(s.op, ast.Add) and src(s.value) == "1" \
                        and isinstance(s.target, ast.Name):
                    counter = src(s.target)
                    break
    if counter is None:
        raise AnalysisError("match counter of _get_optional_nodes not found")
    _counts_every_candidate(chk, fi, counter)
    sites: List[ast.AST] = []
    items = []
    for site in mutation_sites(fi):
        cls, _ = ef.classify(site)
        if cls == "doc":
            items.append((site.node, "{} on {}".format(
                site.how, src(site.receiver))))
    for call, callee, param, arg in ef.calls_mutating_doc(fi):
        if callee.qual == fi.qual:
            continue   # recursion into a child: same obligations, by induction
        items.append((call, "call {}({}=<{}>)".format(
            callee.short, param, src(arg))))
    for node, text in items:
        sites.append(node)
        ok = None
        for f in facts_at(node):
            if f.kind != "cond":
                continue
            forms = []
            from sa.guards import fact_ge0
            for form in fact_ge0(f):
                # counter < 1  <=>  -counter >= 0
                if form.get(counter, 0) == -1 and form.get("", 0) == 0 and \
                        set(form) <= {counter, ""}:
                    ok = f
        if ok is not None:
            chk.ok("C09-D2", fi, node, text,
                   "dominated by `{}` (not re-assigned on the way)".format(ok))
        else:
            chk.fail("C09-D2", fi, node, text,
                     "document mutation in the optional-match driver is not "
                     "dominated by `{} < 1`: it can run although the "
                     "segment matched existing nodes".format(counter))
    return sites


def d3_tail_only(chk: Check, ef: Effects) -> None:
    prog = chk.prog
    chk.rule("C09-D3a", "creation sites are only: key store of a built "
             "node, set add, list append (no delete/pop/other store)",
             floor=4)
    chk.rule("C09-D3b", "list padding appends exactly up to the requested "
             "index: loop range(len(data) - 1, newidx), one append per step, "
             "and the created element data[newidx] is what is recursed into",
             floor=1)
    chk.rule("C09-D3c", "the created key / member is the segment's own "
             "attribute and the recursion descends into that same entry",
             floor=2)
    fi = prog.func("Processor._get_optional_nodes")
    for site in mutation_sites(fi):
        cls, _ = ef.classify(site)
        if cls != "doc":
            continue
        text = "{} on {}".format(site.how, src(site.receiver))
        if site.how == "store[]":
            stmt = site.node
            from sa.model import enclosing_stmt
            st = enclosing_stmt(stmt)
            val = getattr(st, "value", None)
            if isinstance(st, ast.Assign) and isinstance(val, ast.Call) and \
                    src(val.func).endswith("build_next_node"):
                chk.ok("C09-D3a", fi, site.node, text,
                       "stores a freshly built node")
                key = src(site.node.slice)  # type: ignore[attr-defined]
                _descends(chk, fi, st, src(site.receiver), key)
            else:
                chk.fail("C09-D3a", fi, site.node, text,
                         "a document store in the creation path does not "
                         "store a freshly built node")
        elif site.how == ".add()":
            chk.ok("C09-D3a", fi, site.node, text, "set add")
        else:
            chk.fail("C09-D3a", fi, site.node, text,
                     "creation path may only add (key store, set add, "
                     "append); found `{}`".format(site.how))
    for call, callee, param, arg in ef.calls_mutating_doc(fi):
        if callee.qual == fi.qual:
            continue
        text = "call {}".format(callee.short)
        if callee.short == "Nodes.append_list_element":
            chk.ok("C09-D3a", fi, call, text, "append helper")
        else:
            chk.fail("C09-D3a", fi, call, text,
                     "document handed to an unexpected mutator")
    # padding loop
    apl = prog.func("Nodes.append_list_element")
    appends = [n for n in walk_local(apl.node)
               if isinstance(n, ast.Call) and
               isinstance(n.func, ast.Attribute) and
               src(n.func.value) == apl.params()[0] and
               n.func.attr in ("append", "insert", "extend")]
    if len(appends) != 1 or appends[0].func.attr != "append":  # type: ignore
        chk.fail("C09-D3b", apl, apl.node, "append_list_element",
                 "helper no longer appends exactly one element")
    found = False
    for n in walk_local(fi.node):
        if isinstance(n, ast.For) and isinstance(n.iter, ast.Call) and \
                src(n.iter.func) == "range" and any(
                    isinstance(c, ast.Call) and
                    src(c.func).endswith("append_list_element")
                    for c in walk_local(n)):
            found = True
            args = n.iter.args
            calls = [c for c in walk_local(n) if isinstance(c, ast.Call)
                     and src(c.func).endswith("append_list_element")]
            text = "for _ in {}".format(src(n.iter))
            ok = False
            if len(args) == 2 and len(calls) == 1:
                lo, hi = linear(args[0]), linear(args[1])
                cont = src(calls[0].args[0]) if calls[0].args else "?"
                if lo is not None and hi is not None:
                    trip = dict(hi)
                    for k, v in lo.items():
                        trip[k] = trip.get(k, 0) - v
                    trip = {k: v for k, v in trip.items() if v}
                    names = [k for k in trip if k and not k.startswith("len(")]
                    want_len = "len({})".format(cont)
                    if len(names) == 1 and trip.get(names[0]) == 1 and \
                            trip.get(want_len) == -1 and \
                            trip.get("", 0) == 1 and len(trip) == 3:
                        idx = names[0]
                        # the recursion that follows uses data[idx]
                        nxt = _next_sibling_calls(n)
                        if any(src(a) == "{}[{}]".format(cont, idx)
                               for c in nxt for a in c.args[:1]) and \
                                not any(isinstance(x, (ast.If, ast.Break,
                                                       ast.Continue))
                                        for x in walk_local(n)
                                        if x is not n):
                            ok = True
                            chk.ok("C09-D3b", fi, n, text,
                                   "trip count = {} - {} + 1; one "
                                   "unconditional append per step; "
                                   "recursion into {}[{}]".format(
                                       idx, want_len, cont, idx))
            if not ok:
                chk.fail("C09-D3b", fi, n, text,
                         "padding loop is not of the form range(len(data)-1"
                         ", newidx) with one append per step followed by "
                         "recursion into data[newidx]: the list may be "
                         "padded past (or short of) the requested index")
    if not found:
        raise AnalysisError("padding loop of _get_optional_nodes not found")
    padding_fresh(chk, "C09-D3d", fi)
    _appended_element_index(chk, fi)


def _appended_element_index(chk: Check, fi: FuncInfo) -> None:
    """An element created by a single append (the `[&anchor]` creation) is
    recursed into under the index it actually received: len(C) - 1 taken
    *after* the append."""
    from sa.coords import reaching_def
    from sa.model import enclosing_stmt, ancestors
    chk.rule("C09-D3e", "the element created by a single append is "
             "descended into with parent = the list and parentref = "
             "len(list) - 1 evaluated after the append", floor=1)
    for c in walk_local(fi.node):
        if not (isinstance(c, ast.Call) and
                src(c.func).endswith("append_list_element") and c.args):
            continue
        if any(isinstance(a, (ast.For, ast.While)) for a in ancestors(c)
               if any(x is a for x in walk_local(fi.node)) and
               a is not fi.node and _is_pad_loop(a)):
            continue
        st = enclosing_stmt(c)
        if not (isinstance(st, ast.Assign) and
                isinstance(st.targets[0], ast.Name)):
            continue
        ele, cont = st.targets[0].id, src(c.args[0])
        recs = [r for r in _next_sibling_calls(st)
                if r.args and src(r.args[0]) == ele]
        text = "{} = append_list_element({}, ...)".format(ele, cont)
        if not recs:
            chk.fail("C09-D3e", fi, st, text,
                     "the appended element is not what is descended into")
            continue
        r = recs[0]
        kws = {k.arg: k.value for k in r.keywords}
        ref = kws.get("parentref")
        d = reaching_def(ref.id, r) if isinstance(ref, ast.Name) else ref
        ok = kws.get("parent") is not None and \
            src(kws["parent"]) == cont and d is not None and \
            src(d).replace(" ", "") == "len({})-1".format(cont)
        if ok:
            chk.ok("C09-D3e", fi, r, text,
                   "parentref = len({}) - 1 taken after the append".format(
                       cont))
        else:
            chk.fail("C09-D3e", fi, r, text,
                     "the index handed on for the appended element is not "
                     "len({}) - 1 evaluated after the append (found `{}`): "
                     "the write goes to a pre-existing element".format(
                         cont, src(d) if d is not None else
                         "a value computed before the append"))


def _is_pad_loop(loop: ast.AST) -> bool:
    return isinstance(loop, ast.For) and isinstance(loop.iter, ast.Call) \
        and src(loop.iter.func) == "range"


def padding_fresh(chk: Check, rid: str, fi: FuncInfo) -> None:
    """Every element appended to a document list inside a loop is built
    inside that loop iteration: one object appended n times would make the
    padded slots aliases of each other (a later write through one of them
    changes all)."""
    chk.rule(rid, "each element appended to a document list inside a loop "
             "is built by a node-constructor call inside the same iteration "
             "(padded slots are distinct objects)", floor=1)
    from sa.model import ancestors
    for c in walk_local(fi.node):
        if not (isinstance(c, ast.Call) and
                src(c.func).endswith("append_list_element") and
                len(c.args) >= 2):
            continue
        loops = [a for a in ancestors(c) if isinstance(a, (ast.For, ast.While))
                 and a is not fi.node]
        loops = [a for a in loops if _inside(fi.node, a)]
        if not loops:
            continue
        loop = loops[0]
        val = c.args[1]
        text = "append {} in `for ... in {}`".format(
            src(val)[:30], src(getattr(loop, "iter", loop))[:40])
        if isinstance(val, ast.Call):
            chk.ok(rid, fi, c, text, "value is a call evaluated per step")
            continue
        if isinstance(val, ast.Constant):
            chk.ok(rid, fi, c, text, "immutable constant")
            continue
        defs = [n for n in walk_local(fi.node)
                if isinstance(n, ast.Assign) and len(n.targets) == 1 and
                src(n.targets[0]) == src(val)]
        inside = [d for d in defs if any(a is loop for a in ancestors(d))]
        fresh = [d for d in inside if isinstance(d.value, ast.Call) and
                 src(d.value.func).endswith(("build_next_node",
                                             "wrap_type", "make_new_node"))]
        body = loop.body
        first = body[0] if body else None
        dominates = bool(fresh) and any(
            d is first or d in body and body.index(d) <
            _index_of(body, c) for d in fresh)
        if isinstance(val, ast.Name) and dominates and \
                len(inside) == len(fresh):
            chk.ok(rid, fi, c, text, "built at line {} inside the loop "
                   "body before the append".format(fresh[0].lineno))
        else:
            chk.fail(rid, fi, c, text,
                     "the appended object is not built inside the loop "
                     "iteration: every padded slot would hold the same "
                     "object")


def _inside(fn: ast.AST, node: ast.AST) -> bool:
    return any(n is node for n in walk_local(fn))


def _index_of(body: List[ast.stmt], node: ast.AST) -> int:
    for i, s in enumerate(body):
        if any(n is node for n in ast.walk(s)):
            return i
    return -1


def _next_sibling_calls(stmt: ast.stmt) -> List[ast.Call]:
    from sa.model import parent
    par = parent(stmt)
    out: List[ast.Call] = []
    for field in ("body", "orelse"):
        blk = getattr(par, field, None)
        if isinstance(blk, list) and stmt in blk:
            for s in blk[blk.index(stmt) + 1:]:
                for n in walk_local(s):
                    if isinstance(n, ast.Call) and \
                            src(n.func).endswith("_get_optional_nodes"):
                        out.append(n)
    return out


def _descends(chk: Check, fi: FuncInfo, st: ast.stmt, cont: str,
              key: str) -> None:
    calls = _next_sibling_calls(st)
    text = "{}[{}] = build_next_node(...)".format(cont, key)
    want = "{}[{}]".format(cont, key)
    if any(c.args and src(c.args[0]) == want for c in calls):
        # key must be the segment's own (stripped) attribute
        seg = [n for n in walk_local(fi.node)
               if isinstance(n, (ast.Assign, ast.AnnAssign)) and
               src(n.targets[0] if isinstance(n, ast.Assign) else n.target)
               == key]
        from_seg = any(_is_segment_attr(fi, n.value) for n in seg
                       if n.value is not None)
        if from_seg:
            chk.ok("C09-D3c", fi, st, text,
                   "key is the current segment's attribute; recursion "
                   "descends into the stored entry")
            return
    chk.fail("C09-D3c", fi, st, text,
             "the key created is not the current segment's attribute or the "
             "recursion does not descend into the created entry")


def _is_segment_attr(fi: FuncInfo, value: ast.AST) -> bool:
    """``<yaml_path>.escaped[<depth param>][1]`` after alias expansion."""
    from sa.interproc import aliases, subst
    v = subst(value, aliases(fi))
    if isinstance(v, ast.Subscript) and src(v.slice) == "1" and \
            isinstance(v.value, ast.Subscript) and \
            isinstance(v.value.value, ast.Attribute) and \
            v.value.value.attr == "escaped" and \
            src(v.value.slice) in fi.params():
        return True
    return False


def d5_text_as_supplied(chk: Check) -> None:
    """A created leaf holds the supplied value.  wrap_type classifies the
    value by evaluating its text as a literal; for text that *is* a quoted
    literal ("'hello world'") the evaluated form differs from what was
    supplied, so the text branch must wrap the parameter itself."""
    prog = chk.prog
    chk.rule("C09-D5", "wrap_type wraps the supplied text itself in its "
             "text branch (not the literal-evaluated form)", floor=1)
    fi = prog.func("Nodes.wrap_type")
    chk.analysed(fi)
    value = fi.params()[0]
    found = False
    for n in walk_local(fi.node):
        if isinstance(n, ast.If) and src(n.test).replace(" ", "") in (
                "typisstr", "typ==str") or (
                isinstance(n, ast.If) and src(n.test).endswith("is str")):
            found = True
            wraps = [c for s_ in n.body for c in ast.walk(s_)
                     if isinstance(c, ast.Call) and
                     src(c.func).endswith("ScalarString") and c.args]
            for c in wraps:
                text = src(c)
                if src(c.args[0]) == value:
                    chk.ok("C09-D5", fi, c, text, "the parameter itself")
                else:
                    chk.fail("C09-D5", fi, c, text,
                             "the text node is built from `{}`: a supplied "
                             "value that is itself a quoted literal loses "
                             "its quotes, so the created path does not hold "
                             "the supplied value".format(src(c.args[0])))
            if not wraps:
                raise AnalysisError("text wrapper of wrap_type not found")
    if not found:
        raise AnalysisError("text branch of wrap_type not found")



def d6_set_members_by_value(chk: Check) -> None:
    """A member of a set may be a tagged scalar; a TaggedScalar does not
    compare equal to the plain text a path segment carries.  A key lookup
    that compares the raw member misses an existing member, so the optional
    driver *adds* what it believes to be missing (creation on an existing
    path) and a required lookup finds nothing."""
    from sa.coords import reaching_def
    prog = chk.prog
    chk.rule("C09-D6", "a set member is compared for equality with segment "
             "text only after its tag wrapper is removed (`.value` of a "
             "TaggedScalar)", floor=1)

    def unwrapped(e: ast.AST, member: str, at: ast.AST) -> bool:
        if isinstance(e, ast.Name) and e.id != member:
            d = reaching_def(e.id, at)
            return d is not None and unwrapped(d, member, at)
        if isinstance(e, ast.IfExp):
            t = e.test
            return isinstance(t, ast.Call) and src(t.func) == "isinstance" \
                and src(t.args[0]) == member and \
                "TaggedScalar" in src(t.args[1]) and \
                src(e.body) == member + ".value" and src(e.orelse) == member
        return False

    def derives(e: ast.AST, member: str, at: ast.AST) -> bool:
        if isinstance(e, ast.Name):
            if e.id == member:
                return True
            d = reaching_def(e.id, at)
            return d is not None and not isinstance(d, ast.Name) and \
                isinstance(d, ast.IfExp) and any(
                    isinstance(x, ast.Name) and x.id == member
                    for x in ast.walk(d))
        return False

    for fi in prog.funcs_in("yamlpath/processor.py"):
        for loop in walk_local(fi.node):
            if not (isinstance(loop, ast.For) and
                    isinstance(loop.target, ast.Name) and
                    isinstance(loop.iter, ast.Name)):
                continue
            in_set = any(
                f.kind == "cond" and f.pol and isinstance(f.expr, ast.Call)
                and src(f.expr.func) == "isinstance" and
                src(f.expr.args[0]) == loop.iter.id and
                "Set" in src(f.expr.args[1]) for f in facts_at(loop))
            if not in_set:
                continue
            member = loop.target.id
            seg_text: Set[str] = set()
            grew = True
            while grew:
                grew = False
                for a in walk_local(fi.node):
                    if not isinstance(a, (ast.Assign, ast.AnnAssign)) or \
                            a.value is None:
                        continue
                    v = a.value
                    if isinstance(v, ast.Call) and src(v.func) == "str" \
                            and v.args:
                        v = v.args[0]
                    if ".unescaped[" in src(v) or ".escaped[" in src(v) or \
                            (isinstance(v, ast.Name) and v.id in seg_text):
                        tg = a.targets if isinstance(a, ast.Assign) \
                            else [a.target]
                        new_names = {x.id for t in tg for x in ast.walk(t)
                                     if isinstance(x, ast.Name)} - seg_text
                        if new_names:
                            seg_text |= new_names
                            grew = True
            for c in walk_local(loop):
                if not (isinstance(c, ast.Compare) and len(c.ops) == 1 and
                        isinstance(c.ops[0], (ast.Eq, ast.NotEq))):
                    continue
                for side, other in ((c.left, c.comparators[0]),
                                    (c.comparators[0], c.left)):
                    if not derives(side, member, c):
                        continue
                    if src(other) not in seg_text:
                        continue
                    text = "{}: set member == segment text".format(fi.short)
                    if unwrapped(side, member, c):
                        chk.ok("C09-D6", fi, c, text,
                               "the member's .value is compared when it is "
                               "a TaggedScalar")
                    else:
                        chk.fail("C09-D6", fi, c, text,
                                 "`{}` compares the raw member: a tagged "
                                 "member never equals the segment text, so "
                                 "an existing member is not found (and the "
                                 "optional driver adds it again)".format(
                                     src(c)))


def d7_filter_iff_successor(chk: Check, rid: str = "C09-D7") -> None:
    """`*` hands its children on unfiltered only when it is the last
    segment; when a segment follows, the children are pre-filtered by it.
    The optional-match driver relies on that: an unfiltered child that lacks
    the next key is a place where the key is *created*.  The dispatcher is
    specialised for every path length 1..4 and every position of the `*`
    in it (partial evaluation; nothing is executed)."""
    from sa.peval import Const, PEval
    prog = chk.prog
    chk.rule(rid, "_get_nodes_by_match_all pre-filters the children by the "
             "next segment exactly when a next segment exists (all path "
             "lengths 1..4 x positions)", floor=10)
    fi = prog.func("Processor._get_nodes_by_match_all")
    params = fi.params()
    ypath, depth = params[2], params[3]
    segs = None
    for a in walk_local(fi.node):
        if isinstance(a, (ast.Assign, ast.AnnAssign)) and a.value is not None \
                and src(a.value) in (ypath + ".escaped", ypath + ".unescaped"):
            segs = src(a.targets[0] if isinstance(a, ast.Assign)
                       else a.target)
    if segs is None:
        raise AnalysisError("segment list of the * dispatcher not found")
    for n in range(1, 5):
        for i in range(0, n):
            pe = PEval()
            res = pe.specialise(
                fi.node.body,
                {depth: Const(i), "len({})".format(segs): Const(n)},
                pinned=[depth, segs])
            calls = sorted({src(c.func).split("_")[-1]
                            for s_ in res for c in ast.walk(s_)
                            if isinstance(c, ast.Call) and
                            "_get_nodes_by_match_all_" in src(c.func)})
            want = ["filtered"] if i + 1 < n else ["unfiltered"]
            text = "{} segment(s), `*` at position {}".format(n, i)
            if calls == want:
                chk.ok(rid, fi, None, text, want[0])
            else:
                chk.fail(rid, fi, None, text,
                         "the children are handed on {} although {}: {}"
                         .format("/".join(calls) or "undecided",
                                 "a segment follows" if i + 1 < n
                                 else "this is the last segment",
                                 "children lacking the next key reach the "
                                 "optional driver, which creates it in each"
                                 if i + 1 < n else
                                 "the last segment filters by nothing"))


def d8_null_is_a_value(chk: Check) -> None:
    """`None` is what an optional query without a default passes for the
    value to create -- and it is also the legitimate value *null*
    (`set_value(path, None)`, `default_value=None`).  The creation arms
    therefore never decide on the supplied value: a guard that leaves when
    it is None makes `set_value("a.b", None)` on a missing `b` a silent
    no-op."""
    prog = chk.prog
    chk.rule("C09-D8", "no return / continue / break in the optional-match "
             "driver stands under a test of the supplied value", floor=1)
    fi = prog.func("Processor._get_optional_nodes")
    value = fi.params()[3] if len(fi.params()) > 3 else "value"
    n = 0
    bad = []
    for j in walk_local(fi.node):
        if not isinstance(j, (ast.Return, ast.Continue, ast.Break)):
            continue
        n += 1
        for f in facts_at(j):
            if f.kind == "cond" and any(
                    isinstance(x, ast.Name) and x.id == value
                    for x in ast.walk(f.expr)):
                bad.append((j, f))
    if bad:
        j, f = bad[0]
        chk.fail("C09-D8", fi, j, "jump under `{}`".format(src(f.expr)[:40]),
                 "the driver gives up creating the missing tail for some "
                 "supplied values: null is a value like any other, so "
                 "`set_value(path, None)` and `default_value=None` must "
                 "create the path and store null")
    else:
        chk.ok("C09-D8", fi, fi.node, "{} jump statement(s)".format(n),
               "none depends on the supplied value")


def d9_container_kind_from_segment_type(chk: Check) -> None:
    """When a missing parent has to be created, its kind follows from the
    *type* of the next segment alone: an INDEX segment calls for an Array,
    a KEY segment for a Hash.  Looking at the text of a KEY segment ("a
    number, so probably an index") makes `releases.2024.notes` below a
    missing `releases` build a 2025-element Array, and gives the same tail
    another shape depending on whether its parent existed."""
    prog = chk.prog
    chk.rule("C09-D9", "Nodes.build_next_node reads only the type of the "
             "next segment (never its attributes)", floor=1)
    fi = prog.func("Nodes.build_next_node")
    reads = []
    for n in walk_local(fi.node):
        if isinstance(n, ast.Subscript) and isinstance(n.value, ast.Subscript) \
                and src(n.slice) == "1":
            reads.append(n)
        if isinstance(n, ast.Assign) and isinstance(n.targets[0], ast.Tuple) \
                and isinstance(n.value, ast.Subscript) and \
                len(n.targets[0].elts) == 2:
            second = n.targets[0].elts[1]
            if isinstance(second, ast.Name) and any(
                    isinstance(x, ast.Name) and x.id == second.id and
                    isinstance(x.ctx, ast.Load) for x in walk_local(fi.node)):
                reads.append(n)
    if reads:
        chk.fail("C09-D9", fi, reads[0], "build_next_node: `{}`".format(
            src(reads[0])[:50]),
            "the attributes of the next segment take part in choosing the "
            "container kind: a KEY segment whose text looks like a number "
            "creates an Array (padded up to that number) instead of a Hash "
            "with that key")
    else:
        chk.ok("C09-D9", fi, fi.node, "build_next_node", "decides on the "
               "segment type alone")


def run(chk: Check) -> None:
    prog = chk.prog
    cl = read_closure(prog)
    if len(cl) < 60:
        raise AnalysisError("read closure shrank to {}".format(len(cl)))
    opt = prog.func("Processor._get_optional_nodes")
    helpers = [prog.func("Nodes.append_list_element"),
               prog.func("Nodes.build_next_node")]
    ef = Effects(prog)
    ef.summarise(cl + [opt] + [h for h in helpers if h not in cl])
    d1_purity(chk, ef, cl)
    d2_guarded_creation(chk, ef)
    d3_tail_only(chk, ef)
    d5_text_as_supplied(chk)
    d6_set_members_by_value(chk)
    d7_filter_iff_successor(chk)
    d8_null_is_a_value(chk)
    d9_container_kind_from_segment_type(chk)
    from rules.c06 import falsy_rule
    falsy_rule(chk, "C09-D4", "yamlpath/processor.py", 30,
               doc_exprs={"self.data", "<.node>"})
    falsy_rule(chk, "C09-D4n", "yamlpath/common/nodes.py", 10)
    # set add: member is the segment attribute
    for site in mutation_sites(opt):
        if site.how == ".add()" and ef.classify(site)[0] == "doc":
            call = site.node
            arg = src(call.args[0]) if call.args else "?"  # type: ignore
            seg = [n for n in walk_local(opt.node)
                   if isinstance(n, (ast.Assign, ast.AnnAssign)) and
                   src(n.targets[0] if isinstance(n, ast.Assign)
                       else n.target) == arg]
            if any(n.value is not None and _is_segment_attr(opt, n.value)
                   for n in seg):
                chk.ok("C09-D3c", opt, call, "data.add({})".format(arg),
                       "member added is the current segment's attribute")
            else:
                chk.fail("C09-D3c", opt, call, "data.add({})".format(arg),
                         "set member added is not the segment's attribute")
    chk.notes.append("read closure: {} functions".format(len(cl)))
