"""C11 -- a merge aimed at a path changes only what lies under it.

Decided clauses (DESIGN.md section 4, C11):
  D1  the document root is replaced only for the root path;
  D2  target loop: targets come from an optional-match query seeded with
      the right-hand document, each is dispatched on the right-hand root
      kind (exhaustive), only the target node and the right document are
      handed to the insertion routines, and "nothing merged" ends in
      MergeException;
  D3  rule paths are re-based on the merge point for rules and keys;
  D4  no partial write-out (reference to C17-D3a).
"""
from __future__ import annotations

import ast
from typing import Dict, List, Optional, Set

from sa.cli import CliModel, ExitAnalysis, Z
from sa.guards import facts_at
from sa.model import (AnalysisError, FuncInfo, Program, ancestors, parent,
                      src, walk_local)
from sa.report import Check

META = {
    "explanation": (
        "Static decision over Merger.merge_with, the _insert_* routines and "
        "MergerConfig.prepare/_prepare_user_rules: every `self.data = ...` "
        "of an insertion routine is dominated by `insert_at.is_root`; the "
        "merge targets are the results of lhs_proc.get_nodes(insert_at, "
        "default_value=rhs); the dispatch on the right-hand root kind is an "
        "exhaustive if/elif/else over map, sequence, set and scalar whose "
        "branches pass (insert_at, target node, rhs); a MergeException "
        "follows the loop when nothing was merged; rule and key paths are "
        "passed through strip_path_prefix(rule path, merge point) before "
        "matching; yaml-merge writes only with a zero exit state.  Nothing "
        "is executed."),
    "declined": ["that the complement of the target subtrees is value-equal "
                 "before and after (run-time values; C05's declined part "
                 "inside the subtree)"],
    "assumptions": ["Processor.get_nodes creates only the missing tail "
                    "(C09)"],
    "trusted_base": ["C09-D2/D3 for target creation"],
}


def d1_root(chk: Check) -> None:
    prog = chk.prog
    chk.rule("C11-D1", "an insertion routine re-binds the document root "
             "only when the merge point is the root path", floor=3)
    n_sites = 0
    for name in ("Merger._insert_dict", "Merger._insert_list",
                 "Merger._insert_set", "Merger._insert_scalar"):
        fi = prog.func(name)
        chk.analysed(fi)
        ins = fi.params()[1]
        for n in walk_local(fi.node):
            if isinstance(n, ast.Assign) and src(n.targets[0]) == "self.data":
                n_sites += 1
                ok = any(f.kind == "cond" and f.pol and
                         src(f.expr) == ins + ".is_root"
                         for f in facts_at(n))
                if ok:
                    chk.ok("C11-D1", fi, n, src(n),
                           "under `{}.is_root`".format(ins))
                else:
                    chk.fail("C11-D1", fi, n, src(n),
                             "the whole document is replaced although the "
                             "merge is aimed at a sub-path: everything "
                             "outside the target would be lost")
    if n_sites < 3:
        raise AnalysisError("root replacement sites not found")


def d1b_result_lands_at_target(chk: Check) -> None:
    """"Each node the path matches becomes the policy-defined merge of its
    old content with the right-hand document."  The mergers change the left
    operand in place only in the accumulating modes; the replacing modes
    (RIGHT, and UNIQUE for arrays) *return another object*.  At the document
    root the insertion routine re-binds `self.data`; below the root it must
    put the returned object in the target's place -- otherwise a merge
    aimed at a sub-path with a replacing policy silently changes nothing.

    Decided per insertion routine: the statement after the mergers is
    `if <merge point>.is_root: self.data = M` followed, on the other arm, by
    a store of M at the target's coordinates under `M is not <lhs>`; and
    merge_with hands each routine the coordinates of the target it
    dispatches on."""
    prog = chk.prog
    chk.rule("C11-D1b", "below the document root a merge result that is "
             "not the left operand itself is stored at the target's "
             "(parent, parentref); merge_with supplies those coordinates",
             floor=6)
    mw = prog.func("Merger.merge_with")
    for name in ("Merger._insert_dict", "Merger._insert_list",
                 "Merger._insert_set"):
        fi = prog.func(name)
        ins, lhs = fi.params()[1], fi.params()[2]
        roots = [n for n in walk_local(fi.node) if isinstance(n, ast.If) and
                 src(n.test) == ins + ".is_root"]
        text = fi.short + ": result of the merger"
        if len(roots) != 1:
            chk.fail("C11-D1b", fi, fi.node, text,
                     "no `if <merge point>.is_root` decides where the "
                     "result of the merger is stored")
            continue
        r = roots[0]
        m = None
        for st in r.body:
            if isinstance(st, ast.Assign) and \
                    src(st.targets[0]) == "self.data":
                m = src(st.value)
        stored = None
        if m is not None and len(r.orelse) == 1 and \
                isinstance(r.orelse[0], ast.If):
            e = r.orelse[0]
            t = src(e.test).replace(" ", "")
            if t in ("{}isnot{}".format(m, lhs),
                     "{}isnot{}".format(lhs, m)) and not e.orelse:
                for c in [x for st in e.body for x in ast.walk(st)]:
                    if isinstance(c, ast.Call) and len(c.args) == 2 and \
                            src(c.args[1]) == m and \
                            src(c.args[0]) in fi.params():
                        stored = (c, src(c.args[0]))
                    if isinstance(c, ast.Subscript) and \
                            isinstance(c.ctx, ast.Store) and \
                            ".parent" in src(c.value) and \
                            ".parentref" in src(c.slice):
                        stored = (c, src(c.value).split(".")[0])
        if stored is None:
            chk.fail("C11-D1b", fi, r, text,
                     "below the root the object returned by the merger is "
                     "dropped: with a replacing policy (RIGHT, UNIQUE) the "
                     "target keeps its old content and no error is raised")
            continue
        call, tparam = stored
        ok = True
        if isinstance(call, ast.Call):
            # the helper must write <target>.parent[<target>.parentref]
            from sa.model import resolve_call
            cands = resolve_call(prog, fi, call)
            ok = bool(cands) and all(any(
                isinstance(x, ast.Subscript) and
                isinstance(x.ctx, ast.Store) and
                src(x.value) == c_.params()[0] + ".parent" and
                src(x.slice) == c_.params()[0] + ".parentref" and
                isinstance(parent(x), ast.Assign) and
                src(parent(x).value) == c_.params()[1]
                for x in walk_local(c_.node)) for c_ in cands)
        if ok:
            chk.ok("C11-D1b", fi, call, text,
                   "stored at `{0}.parent[{0}.parentref]` when it is not "
                   "the left operand".format(tparam))
        else:
            chk.fail("C11-D1b", fi, call, text,
                     "the helper given the result does not store it at the "
                     "target's (parent, parentref)")
        # merge_with supplies the coordinates it iterates
        idx = fi.params().index(tparam) - 1
        for c in walk_local(mw.node):
            if isinstance(c, ast.Call) and \
                    src(c.func) == "self." + fi.node.name:
                loop = [a for a in ancestors(c) if isinstance(a, ast.For)]
                coord = src(loop[0].target) if loop else None
                arg = c.args[idx] if idx < len(c.args) else next(
                    (k.value for k in c.keywords if k.arg == tparam), None)
                t2 = "merge_with -> {}".format(fi.node.name)
                if arg is not None and src(arg) == coord:
                    chk.ok("C11-D1b", mw, c, t2,
                           "given the coordinates `{}`".format(coord))
                else:
                    chk.fail("C11-D1b", mw, c, t2,
                             "the routine is not given the coordinates of "
                             "the target it merges into ({}): the result "
                             "cannot be stored".format(
                                 src(arg) if arg is not None else "omitted"))


def d2_targets(chk: Check) -> None:
    prog = chk.prog
    chk.rule("C11-D2a", "merge targets are the nodes of "
             "get_nodes(insert_at, default_value=rhs) on the left document",
             floor=2)
    chk.rule("C11-D2b", "each target is dispatched exhaustively on the "
             "right-hand root kind and the insertion routine receives "
             "(merge point, that target, right document)", floor=4)
    chk.rule("C11-D2c", "a merge that reached no target raises "
             "MergeException after the loop", floor=1)
    tg = prog.func("Merger._get_merge_target_nodes")
    chk.analysed(tg)
    ins, proc, rhs = tg.params()[1:4]
    q = [c for c in walk_local(tg.node) if isinstance(c, ast.Call)
         and src(c.func) == proc + ".get_nodes"]
    ok = len(q) == 1 and q[0].args and src(q[0].args[0]) == ins and \
        {k.arg: src(k.value) for k in q[0].keywords} == {
            "default_value": rhs}
    loop = parent(q[0]) if q else None
    relay = isinstance(loop, ast.For) and len(loop.body) == 1 and \
        ".append({})".format(src(loop.target)) in src(loop.body[0])
    if isinstance(loop, ast.comprehension):
        # [nc for nc in get_nodes(...)]: the same relay as an expression
        comp = parent(loop)
        relay = isinstance(comp, ast.ListComp) and not loop.ifs and \
            len(comp.generators) == 1 and src(comp.elt) == src(loop.target)
    elif isinstance(loop, ast.Call) and src(loop.func) == "list" and \
            len(loop.args) == 1:
        relay = True        # list(get_nodes(...))
    if ok and relay:
        chk.ok("C11-D2a", tg, q[0], src(q[0]),
               "optional-match query seeded with the right-hand document; "
               "every result kept")
    else:
        chk.fail("C11-D2a", tg, tg.node, "target query",
                 "merge targets are not exactly the results of "
                 "get_nodes(insert_at, default_value=rhs)")
    mw = prog.func("Merger.merge_with")
    chk.analysed(mw)
    r = mw.params()[1]
    from sa.coords import reaching_def as _rd
    loops = []
    for n in walk_local(mw.node):
        if not isinstance(n, ast.For):
            continue
        it = n.iter
        tgt = n.target
        if isinstance(it, ast.Call) and src(it.func) == "enumerate" and \
                it.args and isinstance(tgt, ast.Tuple) and \
                len(tgt.elts) == 2:
            it, tgt = it.args[0], tgt.elts[1]
        if isinstance(it, ast.Name):
            it = _rd(it.id, n) or it
        if "_get_merge_target_nodes" in src(it):
            loops.append((n, it, tgt))
    if len(loops) != 1:
        raise AnalysisError("merge_with target loop not found")
    loop, call, loop_target = loops[0]
    ipoint = src(call.args[0]) if isinstance(call, ast.Call) and call.args \
        else "?"
    proc_v = src(call.args[1]) if isinstance(call, ast.Call) and \
        len(call.args) > 1 else "?"
    # the processor wraps the current left document
    pdef = [n for n in walk_local(mw.node) if isinstance(n, ast.Assign)
            and src(n.targets[0]) == proc_v]
    if pdef and "self.data" in src(pdef[0].value) and \
            src(call.args[2]) == r:  # type: ignore[union-attr]
        chk.ok("C11-D2a", mw, call, src(call)[:70],
               "query runs on the left document at the configured point")
    else:
        chk.fail("C11-D2a", mw, call, src(call)[:70],
                 "targets are not searched in the left document")
    tnode = None
    for n in loop.body:
        if isinstance(n, ast.Assign) and \
                src(n.value) == src(loop_target) + ".node":
            tnode = src(n.targets[0])
    if tnode is None:
        raise AnalysisError("target node variable not found")
    # the kind ladder
    ladder = [n for n in loop.body if isinstance(n, ast.If)]
    kinds: Dict[str, str] = {}
    has_else = False
    cur: Optional[ast.If] = ladder[-1] if ladder else None
    while cur is not None:
        t = src(cur.test)
        calls = [c for s in cur.body for c in walk_local(s)
                 if isinstance(c, ast.Call) and
                 src(c.func).startswith("self._insert_")]
        for k in ("CommentedMap", "CommentedSeq", "CommentedSet"):
            if "isinstance({}, {})".format(r, k) in t and calls:
                kinds[k] = src(calls[0])
        if len(cur.orelse) == 1 and isinstance(cur.orelse[0], ast.If):
            cur = cur.orelse[0]
        else:
            ecalls = [c for s in cur.orelse for c in walk_local(s)
                      if isinstance(c, ast.Call) and
                      src(c.func).startswith("self._insert_")]
            if ecalls:
                has_else = True
                kinds["scalar"] = src(ecalls[0])
            cur = None
    want = {"CommentedMap": "_insert_dict", "CommentedSeq": "_insert_list",
            "CommentedSet": "_insert_set", "scalar": "_insert_scalar"}
    for k, routine in want.items():
        got = kinds.get(k)
        text = "right-hand root is {}".format(k)
        if got is None:
            chk.fail("C11-D2b", mw, loop, text,
                     "no dispatch branch for a right-hand document whose "
                     "root is a {}: it would be silently ignored".format(k))
            continue
        args = got[got.index("(") + 1:].rstrip(")").split(", ")
        # the right document is the last argument, or the last before the
        # coordinates of the target (C11-D1b judges those)
        coord = src(loop_target)
        ok = routine in got and args[0] == ipoint and args[1] == tnode and \
            (args[-1] == r or (args[-1] == coord and args[-2] == r))
        if ok:
            chk.ok("C11-D2b", mw, loop, text, got[:80])
        else:
            chk.fail("C11-D2b", mw, loop, text,
                     "branch calls `{}`; expected {}({}, {}, ..., {})"
                     .format(got[:80], routine, ipoint, tnode, r))
    if not has_else:
        chk.fail("C11-D2b", mw, loop, "scalar fall-through",
                 "the kind ladder has no final else for scalar documents")
    # every dispatch result is recorded in the merged flag
    flag = None
    after = mw.node.body[mw.node.body.index(loop) + 1:]
    for n in after:
        if isinstance(n, ast.If) and isinstance(n.test, ast.UnaryOp) and \
                isinstance(n.test.op, ast.Not) and any(
                    isinstance(x, ast.Raise) and "MergeException" in src(x)
                    for x in n.body):
            flag = src(n.test.operand)
    if flag is None:
        chk.fail("C11-D2c", mw, mw.node, "nothing merged",
                 "a merge point that matches nothing no longer raises "
                 "MergeException")
    else:
        sets = [n for n in walk_local(loop) if isinstance(n, ast.Assign)
                and src(n.targets[0]) == flag]
        init = [n for n in mw.node.body if isinstance(n, ast.Assign)
                and src(n.targets[0]) == flag and src(n.value) == "False"]
        if sets and init:
            chk.ok("C11-D2c", mw, after[-1], "if not {}: raise".format(flag),
                   "flag starts False, is set by {} dispatch branches"
                   .format(len(sets)))
        else:
            chk.fail("C11-D2c", mw, mw.node, "merged flag",
                     "the merged flag is not initialised False / never set")


def d3_rebase(chk: Check) -> None:
    prog = chk.prog
    chk.rule("C11-D3", "per-path rules and identity keys are matched after "
             "strip_path_prefix(rule path, merge point)", floor=3)
    pr = prog.func("MergerConfig._prepare_user_rules")
    chk.analysed(pr)
    mp = pr.params()[2]
    strips = [c for c in walk_local(pr.node) if isinstance(c, ast.Call)
              and src(c.func).endswith("strip_path_prefix")]
    queries = [c for c in walk_local(pr.node) if isinstance(c, ast.Call)
               and src(c.func).endswith(".get_nodes")]
    ok = False
    if len(strips) == 1 and len(queries) == 1 and \
            len(strips[0].args) == 2 and src(strips[0].args[1]) == mp:
        p = parent(strips[0])
        if isinstance(p, ast.Assign) and \
                src(queries[0].args[0]) == src(p.targets[0]):
            ok = True
    if ok:
        chk.ok("C11-D3", pr, strips[0], src(strips[0]),
               "the re-based path is what is matched")
    else:
        chk.fail("C11-D3", pr, pr.node, "rule path re-basing",
                 "rule paths are matched without removing the merge-point "
                 "prefix: rules written for the merged document would miss "
                 "the right-hand document's nodes")
    pp = prog.func("MergerConfig.prepare")
    calls = [c for c in walk_local(pp.node) if isinstance(c, ast.Call)
             and src(c.func).endswith("._prepare_user_rules")]
    secs = sorted(src(c.args[2]) for c in calls if len(c.args) >= 4)
    mps = {src(c.args[1]) for c in calls if len(c.args) >= 4}
    mp_def = [n for n in walk_local(pp.node) if isinstance(n, ast.Assign)
              and src(n.targets[0]) in mps and
              "get_insertion_point" in src(n.value)]
    if secs == ["'keys'", "'rules'"] and len(mps) == 1 and mp_def:
        chk.ok("C11-D3", pp, calls[0], "rules and keys",
               "both sections prepared with the configured merge point")
        chk.ok("C11-D3", pp, mp_def[0], src(mp_def[0]),
               "merge point from the configuration", False)
    else:
        chk.fail("C11-D3", pp, pp.node, "rules and keys",
                 "not both `rules` and `keys` are re-based on the merge "
                 "point (sections {}, merge points {})".format(secs, mps))


REBASE_TABLE = [
    # (rule path, merge point) -> re-based text, or None for "unchanged"
    ("/abc/def", "/abc", "/def"),
    ("/abc", "/abc", ""),            # the merge point itself: the RHS root
    ("/abc[0]", "/abc", "[0]"),
    ("/abc/def/g", "/abc/def", "/g"),
    ("/x/y", "/abc", None),
    ("/ab", "/abc", None),
    ("/abcdef", "/abc", None),       # not a segment boundary: another key
    ("/abcdef/ghi", "/abc", None),
    ("/abc(x)", "/abc", "(x)"),
    ("/abc/def", "/", None),
]


def d3b_strip(chk: Check) -> None:
    """strip_path_prefix folded over a table of (path, prefix) texts: the
    string operations are total builtins on constants, nothing of the
    repository is executed."""
    from sa.peval import Const, Kind, PEval
    prog = chk.prog
    chk.rule("C11-D3b", "strip_path_prefix re-bases a path at or below the "
             "merge point to the remainder (the merge point itself to the "
             "empty path) and leaves other paths alone", floor=10)
    fi = prog.func("YAMLPath.strip_path_prefix")
    chk.analysed(fi)
    path, prefix = fi.params()[0], fi.params()[1]
    pe = PEval()
    for q, p, want in REBASE_TABLE:
        env = {"str({})".format(prefix): Const(p),
               "str({})".format(path): Const(q),
               prefix: Kind("obj"), path: Kind("obj")}
        pe.specialise(fi.node.body, env, pinned=[prefix, path])
        text = "strip_path_prefix({!r}, {!r})".format(q, p)
        rets = pe.returned
        if len(rets) != 1:
            raise AnalysisError(
                "{} not decided by constant folding ({} reachable returns)"
                .format(text, len(rets)))
        stmt, _, argv = rets[0]
        if isinstance(stmt.value, ast.Name) and stmt.value.id == path:
            got = None
        elif len(argv) == 1 and isinstance(argv[0], Const):
            got = argv[0].value
        else:
            got = "<undecided: {}>".format(src(stmt.value))
        if got == want:
            chk.ok("C11-D3b", fi, stmt, text,
                   "-> {!r}".format("unchanged" if got is None else got))
        else:
            chk.fail("C11-D3b", fi, stmt, text,
                     "re-bases to {!r}, expected {!r}: the rule would not "
                     "reach the right-hand node it names".format(
                         "unchanged" if got is None else got,
                         "unchanged" if want is None else want))


def d5_empty_is_not_absent(chk: Check) -> None:
    """An empty left document is a document: the shortcut for a missing one
    tests `is None`, never truthiness.  And the merge point handed around
    is a fresh object per request (strip_path_prefix re-renders its
    arguments in slash notation, i.e. mutates them)."""
    from rules.c06 import falsy_rule
    falsy_rule(chk, "C11-D5", "yamlpath/merger/merger.py", 15,
               doc_exprs={"self.data"})
    prog = chk.prog
    chk.rule("C11-D6", "get_insertion_point returns a freshly parsed path "
             "on every call (its callers mutate the separator of what they "
             "receive)", floor=2)
    fi = prog.func("MergerConfig.get_insertion_point")
    chk.analysed(fi)
    for r in walk_local(fi.node):
        if isinstance(r, ast.Return) and r.value is not None:
            if isinstance(r.value, ast.Call) and \
                    src(r.value.func) == "YAMLPath":
                chk.ok("C11-D6", fi, r, src(r)[:60], "constructed here")
            else:
                chk.fail("C11-D6", fi, r, src(r)[:60],
                         "a stored path object is handed out: "
                         "strip_path_prefix forces slash notation on it, "
                         "after which a dot-notation merge point is parsed "
                         "as one key")


def d2d_policy_aware_insertion(chk: Check) -> None:
    """A hash or list arriving at the merge point is merged by the
    policy-aware mergers (_merge_dicts / _merge_lists / _merge_sets), which
    consult the Array, Array-of-Hashes, Hash and Set policies.  The
    insertion routines themselves must not add to the target directly: an
    appended record bypasses `aoh=deep|unique|left`."""
    prog = chk.prog
    chk.rule("C11-D2d", "_insert_dict / _insert_list change the target only "
             "through the policy-aware mergers", floor=4)
    growers = ("append", "insert", "extend", "add", "update", "setdefault",
               "append_list_element")
    for name in ("Merger._insert_dict", "Merger._insert_list"):
        fi = prog.func(name)
        chk.analysed(fi)
        lhs = fi.params()[2]
        direct = []
        for c in walk_local(fi.node):
            if isinstance(c, ast.Call) and isinstance(c.func, ast.Attribute) \
                    and c.func.attr in growers:
                if src(c.func.value) == lhs or (
                        c.args and src(c.args[0]) == lhs):
                    direct.append(c)
            if isinstance(c, ast.Subscript) and \
                    isinstance(c.ctx, (ast.Store, ast.Del)) and \
                    src(c.value) == lhs:
                direct.append(c)
        for d in direct:
            chk.fail("C11-D2d", fi, d, "{}: {}".format(fi.node.name,
                                                       src(d)[:50]),
                     "the target is changed directly instead of through a "
                     "policy-aware merger: the configured Array / "
                     "Array-of-Hashes policy is not applied at the merge "
                     "point")
        mergers = [c for c in walk_local(fi.node) if isinstance(c, ast.Call)
                   and src(c.func) in ("self._merge_dicts",
                                       "self._merge_lists",
                                       "self._merge_sets") and
                   c.args and src(c.args[0]) == lhs]
        for m in mergers:
            chk.ok("C11-D2d", fi, m, "{}: {}".format(fi.node.name,
                                                     src(m.func)),
                   "target handed to the merger")
        if not mergers:
            chk.fail("C11-D2d", fi, fi.node, fi.node.name,
                     "no policy-aware merger is given the target")


def _calls_with_argument(prog, fi: FuncInfo, pname: str):
    """Calls of ``fi`` inside merger.py -> (caller, call, argument for
    ``pname`` is a container built on the spot)."""
    idx = fi.params().index(pname)
    if fi.params()[0] == "self":
        idx -= 1
    fresh_ctor = ("CommentedSet", "CommentedSeq", "CommentedMap", "list",
                  "dict", "set")
    out = []
    for caller in prog.funcs_in("yamlpath/merger/merger.py"):
        for c in walk_local(caller.node):
            if not (isinstance(c, ast.Call) and
                    isinstance(c.func, ast.Attribute) and
                    c.func.attr == fi.node.name):
                continue
            arg = c.args[idx] if idx < len(c.args) else next(
                (k.value for k in c.keywords if k.arg == pname), None)
            if arg is None:
                continue
            fresh = src(arg.func) if isinstance(arg, ast.Call) and \
                src(arg.func) in fresh_ctor else ""
            if isinstance(arg, ast.Name):
                for a in walk_local(caller.node):
                    if isinstance(a, (ast.Assign, ast.AnnAssign)) and \
                            a.value is not None and \
                            src(a.targets[0] if isinstance(a, ast.Assign)
                                else a.target) == arg.id and \
                            isinstance(a.value, ast.Call) and \
                            src(a.value.func) in fresh_ctor:
                        fresh = src(a.value.func)
            out.append((caller, c, fresh))
    return out


def d3c_prefix_compared_in_one_notation(chk: Check) -> None:
    """`strip_path_prefix` decides by comparing path *texts*.  A rule path
    and the merge point may be written in different notations
    (`mergeat=settings`, rule `/settings/hosts`), so both are put into one
    notation first.  Without that the texts share no prefix, the rule is
    left un-stripped, matches nothing in the right-hand document and is
    dropped with a warning: the merge uses the default policy."""
    prog = chk.prog
    chk.rule("C11-D3c", "strip_path_prefix sets the separator of both the "
             "prefix and the path to one notation before comparing their "
             "text", floor=2)
    fi = prog.func("YAMLPath.strip_path_prefix")
    params = [p_ for p_ in fi.params() if p_ not in ("self", "cls")]
    for p_ in params[:2]:
        sets = [a for a in walk_local(fi.node) if isinstance(a, ast.Assign)
                and src(a.targets[0]) == p_ + ".separator"]
        text = "strip_path_prefix: {}.separator".format(p_)
        if sets:
            chk.ok("C11-D3c", fi, sets[0], text, "set to " +
                   src(sets[0].value))
        else:
            chk.fail("C11-D3c", fi, fi.node, text,
                     "`{}` is compared in whatever notation it was written "
                     "in: a dot-notation merge point is no textual prefix "
                     "of a slash-notation rule path, so the rule is not "
                     "re-based and never applies".format(p_))


def d12_slot_presence_is_kind_aware(chk: Check) -> None:
    """`ref in parent` asks a Hash whether it has that *key*, but asks an
    Array whether it holds that *value*.  Used as "is the slot still
    there?" on the coordinates of a merge target it is false for every
    Array slot (an index is not among the elements), so a replacing merge
    result (`aoh=right`, `arrays=unique` with duplicates ...) for a target
    inside an Array is silently dropped while the merge reports success."""
    prog = chk.prog
    chk.rule("C11-D12", "no `<x>.parentref in <x>.parent` test in the "
             "merger unless the parent is known to be a Hash", floor=8)
    n = 0
    for fi in prog.funcs_in("yamlpath/merger/merger.py"):
        n += 1
        bad = []
        for c in walk_local(fi.node):
            if isinstance(c, ast.Compare) and len(c.ops) == 1 and \
                    isinstance(c.ops[0], (ast.In, ast.NotIn)) and \
                    src(c.left).endswith("parentref") and \
                    src(c.comparators[0]).endswith("parent"):
                par = src(c.comparators[0])
                hashy = any(f.kind == "cond" and f.pol and
                            isinstance(f.expr, ast.Call) and
                            src(f.expr.func) == "isinstance" and
                            src(f.expr.args[0]) == par and
                            ("dict" in src(f.expr.args[1]) or
                             "CommentedMap" in src(f.expr.args[1]))
                            for f in facts_at(c))
                if not hashy:
                    bad.append(c)
        if bad:
            chk.fail("C11-D12", fi, bad[0], "{}: `{}`".format(
                fi.short, src(bad[0])),
                "for an Array parent this tests whether the *index* is one "
                "of the elements: the slot is reported missing and the "
                "merge result for a target inside an Array is not stored")
        else:
            chk.ok("C11-D12", fi, fi.node, fi.short, "no such test", False)
    if n < 8:
        raise AnalysisError("functions examined: {}".format(n))


def d7_policy_for_incoming_node(chk: Check) -> None:
    """The per-path rules of a merge are written against, and prepared for,
    the *incoming* (right-hand) document: MergerConfig looks a node up by
    identity in the table built from that document.  A NodeCoords wrapped
    around a node of the receiving document is never in the table, so the
    lookup silently falls back to the global default and the rule the user
    wrote for that path is ignored."""
    from sa.coords import loop_binding
    from sa.guards import root_name
    prog = chk.prog
    chk.rule("C11-D7", "every NodeCoords built in merger.py for a policy "
             "lookup wraps a node of the incoming (right-hand) document",
             floor=6)
    lookups: Dict[Tuple[str, str], FuncInfo] = {}
    for fi in prog.funcs_in("yamlpath/merger/merger.py"):
        params = fi.params()
        for c in walk_local(fi.node):
            if not (isinstance(c, ast.Call) and src(c.func) == "NodeCoords"
                    and c.args):
                continue
            rhs_names = {p for p in params if p.startswith("rhs")}
            if not rhs_names:
                continue
            node = c.args[0]
            root = root_name(node)
            seen = set()
            while root is not None and root not in rhs_names and \
                    root not in seen:
                seen.add(root)
                lb = loop_binding(root, c)
                if lb is None:
                    break
                root = root_name(lb[1])
            text = "{}: NodeCoords({}, ...)".format(fi.short, src(node))
            if root in rhs_names:
                lookups.setdefault((fi.qual, root), fi)
                chk.ok("C11-D7", fi, c, text, "a node of `{}`".format(root))
            else:
                chk.fail("C11-D7", fi, c, text,
                         "the coordinates handed to the policy lookup wrap "
                         "`{}`, which is not part of the incoming document: "
                         "the per-path rule for this node is never found and "
                         "the global default decides".format(src(node)))


    # ... and the parameter those coordinates are built from is a node of
    # the incoming document at every call site: a caller that hands in a
    # container it has just built (a Hash wrapped in a list, the members of
    # a set copied into a list or a Hash) has nothing a rule could have been
    # recorded for
    chk.rule("C11-D7b", "no routine that builds lookup coordinates from its "
             "right-hand parameter is called with a container built on the "
             "spot", floor=8)
    for (_, pname), callee in sorted(lookups.items()):
        for caller, call, fresh in _calls_with_argument(prog, callee, pname):
            text = "{}: {}(<{}>)".format(
                caller.short, callee.node.name,
                "new " + fresh if fresh else "document node")
            kw = {k.arg: k.value for k in call.keywords if k.arg}
            rhs_params = {p_ for p_ in caller.params() if p_.startswith("rhs")}
            foreign = None
            if "parent" in kw and not (
                    src(kw["parent"]) in rhs_params or
                    (isinstance(kw["parent"], ast.Constant) and
                     kw["parent"].value is None)):
                foreign = kw["parent"]
            if foreign is not None:
                chk.fail("C11-D7b", caller, call, text,
                         "`parent={}` does not come from the incoming "
                         "document: the coordinates (node, parent, "
                         "parentref) the callee looks a rule up with "
                         "describe where the operand sits in the "
                         "*right-hand* document; with the target's "
                         "coordinates the rule recorded for the merge point "
                         "is never found".format(src(foreign)[:40]))
            elif fresh:
                chk.fail("C11-D7b", caller, call, text,
                         "the right-hand operand handed to {} is a "
                         "temporary: the coordinates built from it are in "
                         "no rule table, so a per-path rule (or identity "
                         "key) configured for the merge point is silently "
                         "replaced by the default policy".format(
                             callee.node.name))
            else:
                chk.ok("C11-D7b", caller, call, text, "a node of the "
                       "incoming document")


def d9_every_match_is_a_target(chk: Check) -> None:
    """Every node the merge-point query yields is merged into.  The
    gathering loop must not drop a match because an *equal* node was
    gathered before (`node in [..]` compares by value: two `[prod]` lists
    under different hosts are different targets)."""
    prog = chk.prog
    chk.rule("C11-D9", "_get_merge_target_nodes keeps every node the "
             "merge-point query yields (no value comparison decides "
             "whether a match is kept)", floor=1)
    fi = prog.func("Merger._get_merge_target_nodes")
    apps = [c for c in walk_local(fi.node) if isinstance(c, ast.Call) and
            isinstance(c.func, ast.Attribute) and c.func.attr == "append"
            and any(isinstance(a, ast.For) and
                    src(a.iter.func).endswith(".get_nodes")  # type: ignore
                    for a in ancestors(c)
                    if isinstance(a, ast.For) and
                    isinstance(a.iter, ast.Call))]
    # the same gathering written as a comprehension / list(<query>)
    comps = [c for c in walk_local(fi.node)
             if isinstance(c, ast.ListComp) and len(c.generators) == 1 and
             isinstance(c.generators[0].iter, ast.Call) and
             src(c.generators[0].iter.func).endswith(".get_nodes")]
    whole = [c for c in walk_local(fi.node) if isinstance(c, ast.Call) and
             src(c.func) == "list" and len(c.args) == 1 and
             isinstance(c.args[0], ast.Call) and
             src(c.args[0].func).endswith(".get_nodes")]
    for c in comps:
        gen = c.generators[0]
        byvalue = [x for t in gen.ifs for x in ast.walk(t)
                   if isinstance(x, ast.Compare) and any(
                       isinstance(o, (ast.In, ast.NotIn, ast.Eq, ast.NotEq))
                       for o in x.ops)]
        text = "[{} for ... in get_nodes(...)]".format(src(c.elt))
        if byvalue or gen.ifs:
            chk.fail("C11-D9", fi, c, text,
                     "a match is kept only when {}: a second target is "
                     "silently not merged into".format(
                         src(gen.ifs[0])[:60]))
        else:
            chk.ok("C11-D9", fi, c, text, "every match is kept")
    for c in whole:
        chk.ok("C11-D9", fi, c, "list(get_nodes(...))", "every match is kept")
    if not apps and not comps and not whole:
        raise AnalysisError("gathering append of _get_merge_target_nodes "
                            "not found")
    for c in apps:
        conds = [f for f in facts_at(c) if f.kind == "cond"]
        byvalue = [f for f in conds if any(
            isinstance(x, ast.Compare) and any(
                isinstance(o, (ast.In, ast.NotIn, ast.Eq, ast.NotEq))
                for o in x.ops) for x in ast.walk(f.expr))]
        text = "nodes.append({})".format(src(c.args[0]) if c.args else "")
        if byvalue:
            chk.fail("C11-D9", fi, c, text,
                     "a match is kept only when {}: a comparison by value, "
                     "so a second target with equal content is silently "
                     "not merged into".format(repr(byvalue[0])[:80]))
        else:
            chk.ok("C11-D9", fi, c, text, "every match is kept")


def d4_no_partial(chk: Check) -> None:
    prog = chk.prog
    chk.rule("C11-D4", "yaml-merge writes its output only with a zero exit "
             "state (no partial write-out after a MergeException)", floor=1)
    from rules.c17 import fn, MERGE
    model = CliModel(prog)
    main = fn(prog, MERGE, "main")
    ana = ExitAnalysis(model, main, set())
    ana.run()
    for node, vars_ in ana.writes:
        st = {v: a for v, a in vars_.items() if v in ana.sticky}
        if st and all(a == Z for a in st.values()):
            chk.ok("C11-D4", main, node, src(node)[:60], repr(st))
        else:
            chk.fail("C11-D4", main, node, src(node)[:60],
                     "output written with a possibly non-zero exit state")
    # merge failures reach the exit state: handlers in the drivers
    if not ana.writes:
        raise AnalysisError("yaml-merge write site not found")


def run(chk: Check) -> None:
    d1_root(chk)
    d1b_result_lands_at_target(chk)
    d2_targets(chk)
    d3_rebase(chk)
    d3c_prefix_compared_in_one_notation(chk)
    try:
        d3b_strip(chk)
    except AnalysisError:
        # the folding cannot follow a routine that D3c has just reported;
        # the verdict stands, an undecided fold alone would be an error
        if not any(f.rule == "C11-D3c" for f in chk.findings):
            raise
    d5_empty_is_not_absent(chk)
    d2d_policy_aware_insertion(chk)
    d7_policy_for_incoming_node(chk)
    d9_every_match_is_a_target(chk)
    d12_slot_presence_is_kind_aware(chk)
    from rules.shared import effects_not_shortcircuited_rule
    effects_not_shortcircuited_rule(
        chk, "C11-D10", ("yamlpath/merger/merger.py",),
        ("_insert_", "_merge_", "merge_with"), 15)
    from rules.shared import no_copies_of_document_nodes_rule
    no_copies_of_document_nodes_rule(chk, "C11-D11",
                                     ("yamlpath/merger/merger.py",), 20)
    from rules.c05 import d2c_per_rule_handler
    d2c_per_rule_handler(chk, "C11-D8",
                         ("MergerConfig._prepare_user_rules",))
    d4_no_partial(chk)
