"""C07 -- yaml-paths search is sound, complete, and its paths resolve.

Decided clauses (DESIGN.md section 4, C07 and appendix A.5):
  D1  escaping taint: key / anchor / member text enters a reported path
      only through escape_path_section(., the function's own pathsep);
  D2  inversion is XOR at the value / key match sites;
  D3  alias classification: Searches.search_anchor's decision table and the
      consumer's outcome class per AnchorMatches member (skip / emit / fall
      through) for the sequence, map-value, map-key and set branches;
  D4  at most once: results enter the printed list only through the
      duplicate check;
  D5  exit state (decided by C16-D1a/D1c on the same functions; referenced).
"""
from __future__ import annotations

import ast
from typing import Any, Dict, List, Optional, Set, Tuple

from rules import inversion
from sa.guards import facts_at
from sa.model import (AnalysisError, FuncInfo, Program, ancestors, parent,
                      src, walk_local)
from sa.peval import Const, Enum, PEval, show
from sa.report import Check

META = {
    "explanation": (
        "Static decision over yaml_paths.search_for_paths / yield_children "
        "/ process_yaml_file and Searches.search_anchor: every string that "
        "is concatenated into a reported path is a separator, a literal "
        "bracket, an integer index or the result of "
        "escape_path_section(text, pathsep) with the function's own "
        "separator; each value / key match test is (matched XOR inverted); "
        "search_anchor is specialised over (anchored?, seen before?, "
        "search_anchors, include_aliases, matched, inverted) and must "
        "return the documented AnchorMatches member in all 36 cells; the "
        "search loop bodies are specialised per AnchorMatches member and "
        "must skip / emit / fall through to recursion or value search as "
        "documented; printed results pass through the duplicate check.  "
        "The baseline executes none of this code.  Nothing is executed."),
    "declined": [
        "soundness and completeness over documents; re-resolution of every "
        "printed path (needs C01's extensional part)",
    ],
    "assumptions": ["Searches.search_matches implements the operators (C12)"],
    "trusted_base": ["YAMLPath.escape_path_section (C02-D5)"],
}

PATHS = "yamlpath/commands/yaml_paths.py"


def fn(prog: Program, name: str) -> FuncInfo:
    hits = [f for f in prog.funcs_in(PATHS) if f.node.name == name]
    if len(hits) != 1:
        raise AnalysisError("yaml_paths.{} not found".format(name))
    return hits[0]


# ---------------------------------------------------------------- D1 ------
def _flatten(e: ast.AST) -> List[ast.AST]:
    if isinstance(e, ast.BinOp) and isinstance(e.op, ast.Add):
        return _flatten(e.left) + _flatten(e.right)
    if isinstance(e, ast.Call) and isinstance(e.func, ast.Attribute) and \
            e.func.attr == "format" and \
            isinstance(e.func.value, ast.Constant):
        out: List[ast.AST] = [e.func.value]
        for a in e.args:
            out.extend(_flatten(a))
        return out
    if isinstance(e, ast.JoinedStr):
        out = []
        for v in e.values:
            if isinstance(v, ast.FormattedValue):
                out.extend(_flatten(v.value))
            else:
                out.append(v)
        return out
    return [e]


def d1_escaping(chk: Check) -> None:
    prog = chk.prog
    chk.rule("C07-D1", "text that enters a reported path is a separator, a "
             "literal, an integer index or escape_path_section(text, own "
             "pathsep)", floor=12)
    for name in ("search_for_paths", "yield_children"):
        fi = fn(prog, name)
        chk.analysed(fi)
        sep_param = [p for p in fi.params() if p == "pathsep"]
        if not sep_param:
            raise AnalysisError(name + " has no pathsep parameter")
        sep = sep_param[0]
        sep_texts = {"str({})".format(sep)}
        for n in walk_local(fi.node):
            if isinstance(n, ast.Assign) and \
                    src(n.value) == "str({})".format(sep):
                sep_texts.add(src(n.targets[0]))
        path_vars: Set[str] = {"build_path"}
        for n in walk_local(fi.node):
            if isinstance(n, ast.Call) and src(n.func) == "YAMLPath" and \
                    n.args and isinstance(n.args[0], ast.Name):
                path_vars.add(n.args[0].id)
        idx_vars: Set[str] = set()
        for n in walk_local(fi.node):
            if isinstance(n, ast.For) and isinstance(n.iter, ast.Call) and \
                    src(n.iter.func) == "enumerate" and \
                    isinstance(n.target, ast.Tuple):
                idx_vars.add(src(n.target.elts[0]))
        for n in walk_local(fi.node):
            tgt = val = None
            if isinstance(n, ast.Assign) and \
                    isinstance(n.targets[0], ast.Name) and \
                    n.targets[0].id in path_vars:
                tgt, val = n.targets[0].id, n.value
            elif isinstance(n, ast.AugAssign) and \
                    isinstance(n.target, ast.Name) and \
                    n.target.id in path_vars:
                tgt, val = n.target.id, n.value
            if tgt is None or val is None:
                continue
            bad = []
            for a in _flatten(val):
                s = src(a)
                if isinstance(a, ast.Constant):
                    continue
                if s in path_vars or s in sep_texts:
                    continue
                if isinstance(a, ast.Call) and src(a.func) == "str" and \
                        a.args and src(a.args[0]) in idx_vars:
                    continue
                if isinstance(a, ast.Call) and \
                        src(a.func).endswith("escape_path_section") and \
                        len(a.args) == 2:
                    if src(a.args[1]) == sep:
                        continue
                    bad.append("`{}` escapes for `{}` instead of `{}`"
                               .format(s[:50], src(a.args[1]), sep))
                    continue
                bad.append("`{}` enters the path unescaped".format(s[:50]))
            text = "{} <- {}".format(tgt, src(val)[:70])
            if bad:
                chk.fail("C07-D1", fi, n, text, "; ".join(bad))
            else:
                chk.ok("C07-D1", fi, n, text,
                       "only separators, literals, indexes and escaped "
                       "sections")



# ---------------------------------------------------------------- D1b -----
def d1b_separator_always(chk: Check) -> None:
    """Between a non-empty parent path and the child's key exactly one
    separator is written, whatever the parent path's last character is.
    The last character of the parent may be an *escaped* separator that
    belongs to the parent's key (`a\\.` in dot notation): suppressing the
    separator after it glues the child key onto the parent key."""
    prog = chk.prog
    chk.rule("C07-D1b", "the separator between a parent path and a child "
             "key is appended under no condition other than 'the parent "
             "path is not empty'", floor=3)
    for name in ("search_for_paths", "yield_children"):
        fi = fn(prog, name)
        data = fi.params()[2 if name == "search_for_paths" else 1]
        sep_texts = {"str(pathsep)"}
        for n in walk_local(fi.node):
            if isinstance(n, ast.Assign) and src(n.value) == "str(pathsep)":
                sep_texts.add(src(n.targets[0]))
        for n in walk_local(fi.node):
            if not (isinstance(n, ast.AugAssign) and
                    isinstance(n.op, ast.Add) and
                    src(n.value) in sep_texts):
                continue
            extra = []
            for f in facts_at(n):
                if f.kind != "cond":
                    continue
                e = f.expr
                if isinstance(e, ast.Call) and src(e.func) == "isinstance" \
                        and src(e.args[0]) == data:
                    continue
                if src(e) == src(n.target) and f.pol:
                    continue
                extra.append(repr(f))
            text = "{}: {} += separator".format(name, src(n.target))
            if extra:
                chk.fail("C07-D1b", fi, n, text,
                         "the separator is only written when {}: a parent "
                         "key that ends in an (escaped) separator character "
                         "swallows its child's key".format(
                             " and ".join(extra)[:120]))
            else:
                chk.ok("C07-D1b", fi, n, text,
                       "guarded by the non-empty parent path only")


# ---------------------------------------------------------------- D8 ------
def _pool_table(fi: FuncInfo, loop: ast.For, opts: List[str]
                ) -> Optional[Tuple[str, ...]]:
    """Which accessor the mapping loop iterates per assignment of the alias
    options: a tuple of 'items' / 'non_merged_items' over the 2^n cells."""
    import itertools
    block = parent(loop)
    body = None
    for fld in ("body", "orelse"):
        b = getattr(block, fld, None)
        if isinstance(b, list) and loop in b:
            body = b
    if body is None:
        return None
    before = body[:body.index(loop)]
    var = src(loop.iter)

    def accessor(e: ast.AST, pe: PEval, env: Dict[str, Any]
                 ) -> Optional[str]:
        if isinstance(e, ast.IfExp):
            t = pe.truth(e.test, env)
            if t is None:
                return None
            return accessor(e.body if t else e.orelse, pe, env)
        if isinstance(e, ast.Call) and isinstance(e.func, ast.Attribute) \
                and e.func.attr in ("items", "non_merged_items"):
            return e.func.attr
        return None

    def run_block(stmts: List[ast.stmt], pe: PEval, env: Dict[str, Any],
                  cur: List[Optional[str]]) -> bool:
        for s_ in stmts:
            if isinstance(s_, ast.Assign) and src(s_.targets[0]) == var:
                cur[0] = accessor(s_.value, pe, env)
                if cur[0] is None:
                    return False
            elif isinstance(s_, ast.If) and any(
                    isinstance(x, ast.Assign) and src(x.targets[0]) == var
                    for x in ast.walk(s_)):
                t = pe.truth(s_.test, env)
                if t is None:
                    return False
                if not run_block(s_.body if t else s_.orelse, pe, env, cur):
                    return False
        return True

    cells = []
    for vals in itertools.product((False, True), repeat=len(opts)):
        pe = PEval()
        env: Dict[str, Any] = {o: Const(v) for o, v in zip(opts, vals)}
        if isinstance(loop.iter, ast.Name):
            cur: List[Optional[str]] = [None]
            if not run_block(before, pe, env, cur) or cur[0] is None:
                return None
            cells.append(cur[0])
        else:
            a = accessor(loop.iter, pe, env)
            if a is None:
                return None
            cells.append(a)
    return tuple(cells)


def d8_same_children(chk: Check) -> None:
    """The search and the expansion helper must agree on what the children
    of a mapping are.  Entries contributed by a YAML merge key are reached
    through an alias, so both walk `items()` exactly when either alias
    option is on and `non_merged_items()` otherwise; a walker that consults
    fewer options expands a matched parent to fewer leaves than the search
    itself reports below it."""
    prog = chk.prog
    chk.rule("C07-D8", "search_for_paths and yield_children iterate the same "
             "entries of a mapping for every setting of the alias options "
             "(merged-in entries iff some alias option is on)", floor=2)
    opts = ["include_key_aliases", "include_value_aliases"]
    want = ("non_merged_items", "items", "items", "items")
    seen = 0
    for name in ("search_for_paths", "yield_children"):
        fi = fn(prog, name)
        data = fi.params()[2 if name == "search_for_paths" else 1]
        for n in walk_local(fi.node):
            if not (isinstance(n, ast.For) and isinstance(n.target, ast.Tuple)
                    and len(n.target.elts) == 2):
                continue
            it = n.iter
            def _acc(e: ast.AST) -> bool:
                return any(isinstance(c, ast.Attribute) and
                           c.attr in ("items", "non_merged_items") and
                           src(c.value) == data
                           for c in ast.walk(e))
            is_pool = (isinstance(it, ast.Name) and any(
                isinstance(a, ast.Assign) and src(a.targets[0]) == it.id
                and _acc(a.value) for a in walk_local(fi.node))) or (
                    isinstance(it, (ast.Call, ast.IfExp)) and _acc(it))
            if isinstance(it, ast.Call) and src(it.func) == "enumerate":
                continue
            if not is_pool:
                continue
            local_opts = []
            for o in opts:
                nm = o if o in fi.params() else None
                for a in walk_local(fi.node):
                    if isinstance(a, (ast.Assign, ast.AnnAssign)) and \
                            isinstance(a.value, ast.Call) and \
                            src(a.value.func).endswith(".pop") and \
                            a.value.args and \
                            isinstance(a.value.args[0], ast.Constant) and \
                            a.value.args[0].value == o:
                        nm = src(a.targets[0] if isinstance(a, ast.Assign)
                                 else a.target)
                if nm is None:
                    raise AnalysisError("{} does not take the option {}"
                                        .format(name, o))
                local_opts.append(nm)
            table = _pool_table(fi, n, local_opts)
            text = "{}: for {} in {}".format(name, src(n.target),
                                             src(it)[:30])
            if table is None:
                raise AnalysisError("cannot decide what {} iterates"
                                    .format(text))
            seen += 1
            if table == want:
                chk.ok("C07-D8", fi, n, text,
                       "non_merged_items() with both alias options off, "
                       "items() otherwise")
            else:
                cells = ["{}={}/{}".format("ka,va", int(i // 2), int(i % 2))
                         for i in range(4) if table[i] != want[i]]
                chk.fail("C07-D8", fi, n, text,
                         "with ({}) this walker iterates {} where its "
                         "sibling iterates {}: merged-in entries are "
                         "searched by one and not expanded by the other"
                         .format("; ".join(cells),
                                 [table[i] for i in range(4)
                                  if table[i] != want[i]][0],
                                 [want[i] for i in range(4)
                                  if table[i] != want[i]][0]))
    if seen < 2:
        raise AnalysisError("mapping loops of the two walkers not found")

# ---------------------------------------------------------------- D2 ------
def d2_inversion(chk: Check) -> None:
    prog = chk.prog
    chk.rule("C07-D2", "every value / key-name match test is (matched XOR "
             "inverted)", floor=5)
    fi = fn(prog, "search_for_paths")
    for node, test, m, i in inversion.match_sites(fi):
        ok = inversion.check_xor(test, m, i)
        if ok:
            chk.ok("C07-D2", fi, node, "if " + src(test),
                   "XOR over ({}, {})".format(m, i))
        else:
            chk.fail("C07-D2", fi, node, "if " + src(test),
                     "match test is not (matched XOR inverted)")
    # each comparison result is consumed by such a test
    calls = [n for n in walk_local(fi.node) if isinstance(n, ast.Assign)
             and isinstance(n.value, ast.Call) and
             src(n.value.func).endswith("search_matches")]
    sites = inversion.match_sites(fi)
    if len(calls) != len(sites):
        chk.fail("C07-D2", fi, fi.node, "comparison / test pairing",
                 "{} comparisons but {} match tests".format(
                     len(calls), len(sites)))


# ---------------------------------------------------------------- D3 ------
def anchor_oracle(anchored: bool, seen: bool, search: bool, include: bool,
                  matched: bool, inverted: bool) -> str:
    if not anchored:
        return "NO_ANCHOR"
    if not search:
        return "UNSEARCHABLE_ALIAS" if seen else "UNSEARCHABLE_ANCHOR"
    if seen and not include:
        return "ALIAS_EXCLUDED"
    if matched != inverted:
        return "ALIAS_INCLUDED" if seen else "MATCH"
    return "NO_MATCH"


def d3_search_anchor(chk: Check) -> None:
    prog = chk.prog
    chk.rule("C07-D3a", "Searches.search_anchor returns the documented "
             "AnchorMatches member for every combination of (anchored, seen "
             "before, search_anchors, include_aliases, matched, inverted)",
             floor=30)
    fi = prog.func("Searches.search_anchor")
    chk.analysed(fi)
    node_p, terms_p, seen_p = fi.params()[0:3]
    # roles
    name_v = None
    flags: Dict[str, str] = {}
    match_v = None
    for n in walk_local(fi.node):
        if isinstance(n, (ast.Assign, ast.AnnAssign)):
            t = n.targets[0] if isinstance(n, ast.Assign) else n.target
            v = n.value
            if v is None:
                continue
            if "get_node_anchor" in src(v):
                name_v = src(t)
            elif isinstance(v, ast.Call) and src(v.func).endswith(".pop") \
                    and v.args and isinstance(v.args[0], ast.Constant):
                flags[str(v.args[0].value)] = src(t)
            elif isinstance(v, ast.Call) and \
                    src(v.func).endswith("search_matches"):
                match_v = src(t)
    if not name_v or not match_v or \
            not {"search_anchors", "include_aliases"} <= set(flags):
        raise AnalysisError("search_anchor roles not found")
    # the seen-list bookkeeping: first sighting appends the name
    appended = any(isinstance(n, ast.Call) and
                   src(n) == "{}.append({})".format(seen_p, name_v)
                   for n in walk_local(fi.node))
    pe = PEval(enum_classes={"AnchorMatches"})
    cells = 0
    for anchored in (False, True):
        for seen in (False, True):
            for search in (False, True):
                for include in (False, True):
                    for matched in (False, True):
                        for inverted in (False, True):
                            if not anchored and (seen or search or include
                                                 or matched or inverted):
                                continue
                            env: Dict[str, Any] = {
                                flags["search_anchors"]: Const(search),
                                flags["include_aliases"]: Const(include),
                                match_v: Const(matched),
                                terms_p + ".inverted": Const(inverted),
                                "{} not in {}".format(name_v, seen_p):
                                    Const(not seen),
                                "{} in {}".format(name_v, seen_p):
                                    Const(seen),
                            }
                            if not anchored:
                                env[name_v] = Const(None)
                            else:
                                env[name_v + " is None"] = Const(False)
                            res = pe.specialise(
                                fi.node.body, env,
                                pinned=[flags["search_anchors"],
                                        flags["include_aliases"], match_v,
                                        name_v])
                            got = _returned_member(res)
                            want = anchor_oracle(anchored, seen, search,
                                                 include, matched, inverted)
                            cells += 1
                            cell = ("anchored={} seen={} search={} include="
                                    "{} matched={} inverted={}").format(
                                anchored, seen, search, include, matched,
                                inverted)
                            if got == want:
                                chk.ok("C07-D3a", fi, None, cell,
                                       "returns " + got)
                            else:
                                chk.fail("C07-D3a", fi, None, cell,
                                         "returns {} but the table says {}"
                                         .format(got, want),
                                         {"residual": show(res)[-400:]})
    if appended:
        chk.ok("C07-D3a", fi, None, "first sighting recorded",
               "`{}.append({})` under the not-seen test".format(
                   seen_p, name_v))
    else:
        chk.fail("C07-D3a", fi, None, "first sighting recorded",
                 "a first sighting is not appended to the seen list: every "
                 "alias would look like an original anchor")


def _returned_member(res: List[ast.stmt]) -> str:
    env: Dict[str, str] = {}
    for s in res:
        if isinstance(s, ast.If):
            return "<undecided: {}>".format(src(s.test)[:50])
        if isinstance(s, ast.Assign) and isinstance(s.value, ast.Attribute) \
                and src(s.value.value) == "AnchorMatches":
            env[src(s.targets[0])] = s.value.attr
        if isinstance(s, ast.Return):
            v = s.value
            if isinstance(v, ast.Attribute) and \
                    src(v.value) == "AnchorMatches":
                return v.attr
            if isinstance(v, ast.Name) and v.id in env:
                return env[v.id]
            return "<{}>".format(src(v))
    return "<no return>"


CONSUMER = {
    # member -> outcome class in (sequence, map value) branches
    "ALIAS_EXCLUDED": "skip",
    "MATCH": "emit", "ALIAS_INCLUDED": "emit",
    "NO_ANCHOR": "search", "NO_MATCH": "search",
    "UNSEARCHABLE_ANCHOR": "search", "UNSEARCHABLE_ALIAS": "search",
}


def _outcome(res: List[ast.stmt]) -> str:
    """First decisive action of a specialised loop body."""
    for s in res:
        if isinstance(s, ast.Continue):
            return "skip"
        ys = [y for y in ast.walk(s) if isinstance(y, ast.Yield)]
        calls = [src(c.func) for c in ast.walk(s)
                 if isinstance(c, ast.Call)]
        if isinstance(s, ast.If):
            # undecided structure: what does it contain?
            if any(c.endswith("search_for_paths") for c in calls) or \
                    any(c.endswith("search_matches") for c in calls):
                return "search"
            if ys:
                # emit (expand or plain) followed by continue
                return "emit"
            continue
        if ys:
            return "emit"
        if any(c.endswith(("search_for_paths", "search_matches"))
               for c in calls):
            return "search"
    return "none"


def d3_consumer(chk: Check) -> None:
    prog = chk.prog
    chk.rule("C07-D3b", "per AnchorMatches member the search loop skips, "
             "emits the path (or its expansion) or falls through to "
             "recursion / value search as documented (sequence, map-value, "
             "map-key and set branches)", floor=20)
    fi = fn(prog, "search_for_paths")
    members = prog.enum_members("AnchorMatches")
    if set(members) != set(CONSUMER):
        raise AnalysisError("AnchorMatches members changed")
    pe = PEval(enum_classes={"AnchorMatches"})
    loops = [n for n in walk_local(fi.node) if isinstance(n, ast.For)
             and any(isinstance(c, ast.Call) and
                     src(c.func).endswith("search_anchor")
                     for c in walk_local(n))]
    if len(loops) != 3:
        raise AnalysisError("expected 3 search loops, found {}".format(
            len(loops)))
    skeys = None
    for n in walk_local(fi.node):
        if isinstance(n, (ast.Assign, ast.AnnAssign)) and \
                isinstance(n.value, ast.Call) and \
                src(n.value.func).endswith(".pop") and n.value.args and \
                isinstance(n.value.args[0], ast.Constant) and \
                n.value.args[0].value == "search_keys":
            skeys = src(n.targets[0] if isinstance(n, ast.Assign)
                        else n.target)
    if skeys is None:
        raise AnalysisError("search_keys option variable not found")
    for loop in loops:
        vars_: Dict[str, str] = {}
        for n in loop.body:
            if isinstance(n, ast.Assign) and isinstance(n.value, ast.Call) \
                    and src(n.value.func).endswith("search_anchor"):
                vars_[src(n.value.args[0])] = src(n.targets[0])
        for n in walk_local(loop):
            if isinstance(n, ast.Assign) and isinstance(n.value, ast.Call) \
                    and src(n.value.func).endswith("search_anchor"):
                vars_.setdefault(src(n.value.args[0]), src(n.targets[0]))
        it = src(loop.iter)
        kind = "sequence" if it.startswith("enumerate") else \
            "set" if it == fi.params()[2] else "map"
        if kind == "sequence":
            var = list(vars_.values())[0]
            for m in members:
                res = pe.specialise(loop.body,
                                    {var: Enum("AnchorMatches", m)},
                                    pinned=[var])
                got = _outcome(_after_assign(res, var))
                _judge(chk, fi, loop, "sequence element / " + m, got,
                       CONSUMER[m], res)
        elif kind == "map":
            tgt = loop.target
            kname, vname = [src(e) for e in tgt.elts]  # type: ignore
            vvar, kvar = vars_.get(vname), vars_.get(kname)
            if not vvar or not kvar:
                raise AnalysisError("map branch anchor variables not found")
            for m in members:
                # value branch: keys are not searched
                res = pe.specialise(
                    loop.body, {vvar: Enum("AnchorMatches", m),
                                skeys: Const(False)},
                    pinned=[vvar, skeys])
                got = _outcome(_after_assign(res, vvar))
                _judge(chk, fi, loop, "map value / " + m, got, CONSUMER[m],
                       res)
            for m in members:
                # key branch: key anchor decides first when keys are searched
                res = pe.specialise(
                    loop.body, {kvar: Enum("AnchorMatches", m),
                                skeys: Const(True),
                                vvar: Enum("AnchorMatches", "NO_ANCHOR")},
                    pinned=[kvar, vvar, skeys])
                got = _outcome(_after_assign(res, kvar))
                want = "emit" if m in ("MATCH", "ALIAS_INCLUDED") else \
                    "search"
                _judge(chk, fi, loop, "map key / " + m, got, want, res)
        else:
            var = list(vars_.values())[0]
            for m in members:
                res = pe.specialise(loop.body,
                                    {var: Enum("AnchorMatches", m)},
                                    pinned=[var])
                got = _outcome(_after_assign(res, var))
                want = "emit" if m in ("MATCH", "ALIAS_INCLUDED") else \
                    "search"
                _judge(chk, fi, loop, "set member / " + m, got, want, res)
    # scalar value search: UNSEARCHABLE_ALIAS skipped unless aliases wanted
    skips = [n for n in walk_local(fi.node) if isinstance(n, ast.If)
             and "UNSEARCHABLE_ALIAS" in src(n.test)
             and "not include_value_aliases" in src(n.test)
             and len(n.body) == 1 and isinstance(n.body[0], ast.Continue)]
    if len(skips) == 2:
        chk.ok("C07-D3b", fi, skips[0], "unsearchable alias values",
               "skipped unless value aliases are included (both branches)")
    else:
        chk.fail("C07-D3b", fi, fi.node, "unsearchable alias values",
                 "aliased scalar values are searched although value aliases "
                 "are excluded (found {} of 2 skips)".format(len(skips)))


def _after_assign(res: List[ast.stmt], var: str) -> List[ast.stmt]:
    for i, s in enumerate(res):
        if isinstance(s, ast.Assign) and src(s.targets[0]) == var:
            return res[i + 1:]
    return res


def _judge(chk: Check, fi: FuncInfo, loop: ast.AST, cell: str, got: str,
           want: str, res: List[ast.stmt]) -> None:
    if got == want:
        chk.ok("C07-D3b", fi, loop, cell, "outcome: " + got)
    else:
        chk.fail("C07-D3b", fi, loop, cell,
                 "outcome is `{}` but the classification requires `{}`"
                 .format(got, want), {"residual": show(res)[:500]})


def d3_bookkeeping(chk: Check) -> None:
    """Alias recognition depends on seen_anchors: every visited node's
    anchor must be put on record (by its classification call) on every path
    through its loop iteration, including the paths that emit a key match
    and move on; and the expansion helper excludes aliases only when the
    corresponding option does not ask for them."""
    from sa.boolean import NotBoolean, truth_table
    from sa.flow import Flow
    prog = chk.prog
    chk.rule("C07-D3c", "every node visited by a search / expansion loop is "
             "classified (its anchor recorded in seen_anchors) on every "
             "path through the iteration", floor=5)
    chk.rule("C07-D3d", "an alias classification skips a node only under "
             "`not include_<role>_aliases` of the flag handed to that "
             "classification call", floor=2)
    for name in ("search_for_paths", "yield_children"):
        fi = fn(prog, name)
        chk.analysed(fi)
        loops = [n for n in walk_local(fi.node) if isinstance(n, ast.For)
                 and any(isinstance(c, ast.Call) and
                         src(c.func).endswith("search_anchor")
                         for c in walk_local(n))]
        for loop in loops:
            tgt = loop.target
            if isinstance(tgt, ast.Tuple):
                subject = src(tgt.elts[-1])
            else:
                subject = src(tgt)

            def transfer(stmt: ast.stmt, st, flow, subject=subject):
                if isinstance(stmt, (ast.Assign, ast.Expr)):
                    for c in ast.walk(stmt):
                        if isinstance(c, ast.Call) and \
                                src(c.func).endswith("search_anchor") and \
                                c.args and src(c.args[0]) == subject:
                            return [True]
                return [st]

            def branch(test: ast.AST, st, flow):
                return [st], [st]
            out = Flow(transfer, branch).run(loop.body, [False])
            ends = list(out.fall) + list(out.continues) + list(out.breaks) \
                + list(out.returns)
            text = "{}: for {} in {}".format(name, src(tgt),
                                             src(loop.iter)[:30])
            if ends and all(ends):
                chk.ok("C07-D3c", fi, loop, text,
                       "`{}` classified on all {} end state(s)".format(
                           subject, len(ends)))
            else:
                chk.fail("C07-D3c", fi, loop, text,
                         "some path through the iteration leaves it without "
                         "classifying `{}`: its anchor is not recorded, so "
                         "a later alias of it is taken for the anchor "
                         "itself".format(subject))
    # D3d: exclusion tests of the expansion helper
    fi = fn(prog, "yield_children")
    flag_of: Dict[str, str] = {}
    for n in walk_local(fi.node):
        if isinstance(n, ast.Assign) and isinstance(n.value, ast.Call) and \
                src(n.value.func).endswith("search_anchor"):
            kws = {k.arg: src(k.value) for k in n.value.keywords}
            if "include_aliases" in kws:
                flag_of[src(n.targets[0])] = kws["include_aliases"]
    for n in walk_local(fi.node):
        if not isinstance(n, ast.If):
            continue
        members = [c for c in ast.walk(n.test)
                   if isinstance(c, ast.Compare) and len(c.ops) == 1 and
                   isinstance(c.ops[0], ast.In) and src(c.left) in flag_of]
        if not members:
            continue
        atoms = sorted({src(c) for c in members} |
                       {flag_of[src(c.left)] for c in members})
        text = "if " + src(n.test)[:80]
        try:
            tt = truth_table(n.test, atoms)
        except NotBoolean as ex:
            chk.fail("C07-D3d", fi, n, text,
                     "exclusion test is not a boolean form of its "
                     "classification results and flags ({})".format(ex))
            continue
        problems = []
        for c in members:
            a, f = src(c), flag_of[src(c.left)]
            others = [src(o) for o in members if src(o) != a]
            for combo, val in tt.items():
                env = dict(zip(atoms, combo))
                if any(env[o] for o in others):
                    continue
                if env[a] and not env[f] and not val:
                    problems.append("{} with {}=False is not skipped"
                                    .format(a, f))
                if env[f] and val:
                    problems.append("skipped although {}=True".format(f))
        if problems:
            chk.fail("C07-D3d", fi, n, text, "; ".join(sorted(set(
                problems))[:3]))
        else:
            chk.ok("C07-D3d", fi, n, text,
                   "truth table over {} atoms".format(len(atoms)))


def d5_options(chk: Check) -> None:
    """Options travel with the recursion: every call from the search /
    expansion functions to one of them passes each keyword option the
    callee reads, bound to the caller's own value of that option (the
    callee's fallback defaults differ from the tool's defaults)."""
    prog = chk.prog
    chk.rule("C07-D5", "every recursive / expansion call forwards each "
             "keyword option the callee reads, unchanged", floor=8)
    chk.rule("C07-D6", "the search term of the tool is taken from the "
             "escaped parse of the expression", floor=1)
    fns = {name: fn(prog, name) for name in ("search_for_paths",
                                             "yield_children")}
    reads: Dict[str, Dict[str, str]] = {}
    for name, fi in fns.items():
        kw = fi.node.args.kwarg.arg if fi.node.args.kwarg else None
        m: Dict[str, str] = {}
        for n in walk_local(fi.node):
            if isinstance(n, (ast.Assign, ast.AnnAssign)) and \
                    isinstance(n.value, ast.Call) and \
                    isinstance(n.value.func, ast.Attribute) and \
                    n.value.func.attr == "pop" and kw and \
                    src(n.value.func.value) == kw and n.value.args and \
                    isinstance(n.value.args[0], ast.Constant):
                tgt = n.targets[0] if isinstance(n, ast.Assign) else n.target
                m[str(n.value.args[0].value)] = src(tgt)
        reads[name] = m
    for cname, cfi in fns.items():
        for c in walk_local(cfi.node):
            if not (isinstance(c, ast.Call) and isinstance(c.func, ast.Name)
                    and c.func.id in fns):
                continue
            callee = c.func.id
            passed = {k.arg: src(k.value) for k in c.keywords if k.arg}
            problems = []
            for opt in sorted(reads[callee]):
                mine = reads[cname].get(opt)
                if opt not in passed:
                    problems.append("`{}` not passed (callee falls back to "
                                    "its own default)".format(opt))
                elif mine is not None and passed[opt] != mine:
                    problems.append("`{}` bound to `{}` instead of the "
                                    "caller's `{}`".format(opt, passed[opt],
                                                           mine))
            # the record of anchors seen so far is one shared list: it is
            # handed on as the object itself, so that what the callee
            # records is known to the caller's later iterations
            seen_par = [p for p in cfi.params() if "seen" in p]
            callee_pos = [i for i, p in enumerate(fns[callee].params())
                          if "seen" in p]
            if seen_par and callee_pos:
                i = callee_pos[0]
                arg = c.args[i] if i < len(c.args) else next(
                    (k.value for k in c.keywords
                     if k.arg == fns[callee].params()[i]), None)
                if arg is None or src(arg) != seen_par[0]:
                    problems.append(
                        "the seen-anchors record is passed as `{}` instead "
                        "of the caller's own list `{}`: anchors met by the "
                        "callee are unknown afterwards and their aliases "
                        "are reported as originals".format(
                            src(arg) if arg is not None else "<omitted>",
                            seen_par[0]))
            text = "{} -> {} @{}".format(cname, callee, "call")
            if problems:
                chk.fail("C07-D5", cfi, c, text, "; ".join(problems))
            else:
                chk.ok("C07-D5", cfi, c, text,
                       "{} option(s) forwarded".format(len(reads[callee])))
    # D6: the tool's search term
    gst = fn(prog, "get_search_term")
    chk.analysed(gst)
    views = [n for n in walk_local(gst.node) if isinstance(n, ast.Attribute)
             and n.attr in ("escaped", "unescaped")]
    if not views:
        raise AnalysisError("get_search_term no longer parses a YAMLPath")
    for v in views:
        if v.attr == "escaped":
            chk.ok("C07-D6", gst, v, src(v)[:60], "escaped parse")
        else:
            chk.fail("C07-D6", gst, v, src(v)[:60],
                     "the search term keeps the escape marks of the "
                     "expression: `=a\\ b` no longer matches the value "
                     "`a b`")


def d3e_shared_record(chk: Check) -> None:
    """seen_anchors is one list shared by the whole search: callees record
    into it (search_anchor appends).  Re-binding the parameter to a new
    list is right only when none was given (`is None`); under any other
    test (an empty list is falsy) the subtree records into a throw-away
    list and its anchors are forgotten on return."""
    prog = chk.prog
    chk.rule("C07-D3e", "the shared seen-anchors list is re-bound only "
             "when it is None", floor=1)
    sa_fn = prog.func("Searches.search_anchor")
    # role: the parameter of search_anchor that is appended to
    acc_pos = None
    for i, pname in enumerate(sa_fn.params()):
        if any(isinstance(c, ast.Call) and
               isinstance(c.func, ast.Attribute) and
               c.func.attr == "append" and src(c.func.value) == pname
               for c in walk_local(sa_fn.node)):
            acc_pos = i
    if acc_pos is None:
        chk.fail("C07-D3e", sa_fn, sa_fn.node, "search_anchor",
                 "search_anchor no longer records the anchors it meets: "
                 "nothing can be recognised as an alias later")
        return
    n_sites = 0
    for name in ("search_for_paths", "yield_children"):
        fi = fn(prog, name)
        accs = {src(c.args[acc_pos]) for c in walk_local(fi.node)
                if isinstance(c, ast.Call) and
                src(c.func).endswith("search_anchor") and
                len(c.args) > acc_pos}
        accs &= set(fi.params())
        for acc in sorted(accs):
            assigns = [n for n in walk_local(fi.node)
                       if isinstance(n, (ast.Assign, ast.AnnAssign)) and
                       src(n.targets[0] if isinstance(n, ast.Assign)
                           else n.target) == acc]
            n_sites += 1
            bad = []
            for a in assigns:
                ok = any(f.kind == "cond" and f.pol and
                         isinstance(f.expr, ast.Compare) and
                         src(f.expr) == "{} is None".format(acc)
                         for f in facts_at(a))
                if not ok:
                    bad.append(a)
            text = "{}: parameter `{}`".format(name, acc)
            if bad:
                chk.fail("C07-D3e", fi, bad[0], text,
                         "`{}` re-binds the shared list on a path where it "
                         "is not known to be None: anchors met below are "
                         "recorded in a private list and forgotten".format(
                             src(bad[0])[:50]))
            else:
                chk.ok("C07-D3e", fi, fi.node, text,
                       "{} re-binding(s), all under `is None`".format(
                           len(assigns)))
    if n_sites == 0:
        raise AnalysisError("no shared seen-anchors parameter found")


def d7_descent_kinds(chk: Check) -> None:
    """search_for_paths has a branch for every container kind it can be
    given; each test that decides whether to recurse into a child must
    accept all of those kinds, or children of the missing kind are never
    searched (and are compared as if they were scalars)."""
    prog = chk.prog
    chk.rule("C07-D7", "every descent test of search_for_paths accepts "
             "each container kind the function has a branch for", floor=2)
    fi = fn(prog, "search_for_paths")
    data = fi.params()[2]
    kinds: Set[str] = set()
    for n in fi.node.body:
        cur = n
        while isinstance(cur, ast.If):
            t = cur.test
            if isinstance(t, ast.Call) and src(t.func) == "isinstance" and \
                    src(t.args[0]) == data:
                elts = t.args[1].elts if isinstance(t.args[1], ast.Tuple) \
                    else [t.args[1]]
                kinds |= {src(e) for e in elts}
            cur = cur.orelse[0] if len(cur.orelse) == 1 and \
                isinstance(cur.orelse[0], ast.If) else None
    if len(kinds) < 3:
        raise AnalysisError("container branches of search_for_paths: {}"
                            .format(sorted(kinds)))
    n = 0
    for t in walk_local(fi.node):
        if not (isinstance(t, ast.If) and isinstance(t.test, ast.Call) and
                src(t.test.func) == "isinstance" and
                src(t.test.args[0]) != data):
            continue
        recs = [c for s_ in t.body for c in ast.walk(s_)
                if isinstance(c, ast.Call) and
                src(c.func) == "search_for_paths" and c.args and
                len(c.args) > 2 and src(c.args[2]) == src(t.test.args[0])]
        if not recs:
            continue
        n += 1
        spec = t.test.args[1]
        from sa.coords import reaching_def
        if isinstance(spec, ast.Name):
            # a module-level constant naming the kinds
            mod_defs = [a for a in fi.module.tree.body
                        if isinstance(a, ast.Assign) and
                        src(a.targets[0]) == spec.id]
            if mod_defs:
                spec = mod_defs[-1].value
        elts = spec.elts if isinstance(spec, ast.Tuple) else [spec]
        have = {src(e) for e in elts}
        text = "if " + src(t.test)[:60]
        missing = sorted(kinds - have)
        if missing:
            chk.fail("C07-D7", fi, t, text,
                     "children of kind {} are not descended into although "
                     "the function handles that kind: their members are "
                     "never reported".format("/".join(missing)))
        else:
            chk.ok("C07-D7", fi, t, text, "accepts {}".format(
                "/".join(sorted(kinds))))
    if n < 2:
        raise AnalysisError("descent tests of search_for_paths not found")


def d7b_expansion_kinds(chk: Check) -> None:
    """With expansion on, a matched parent is replaced by exactly its leaf
    descendants.  The expansion helper must therefore know every container
    kind the search itself knows: a kind it has no branch for is yielded as
    if it were a leaf (the parent's own path instead of its members), and a
    descent test that omits a kind stops the expansion one level early."""
    prog = chk.prog
    chk.rule("C07-D7b", "yield_children has a branch, and each of its "
             "descent tests accepts, every container kind search_for_paths "
             "has a branch for", floor=3)
    sf = fn(prog, "search_for_paths")
    yc = fn(prog, "yield_children")

    def branch_kinds(fi: FuncInfo, data: str) -> Set[str]:
        kinds: Set[str] = set()
        for n in fi.node.body:
            cur = n
            while isinstance(cur, ast.If):
                t = cur.test
                if isinstance(t, ast.Call) and src(t.func) == "isinstance" \
                        and src(t.args[0]) == data:
                    elts = t.args[1].elts \
                        if isinstance(t.args[1], ast.Tuple) else [t.args[1]]
                    kinds |= {src(e) for e in elts}
                cur = cur.orelse[0] if len(cur.orelse) == 1 and \
                    isinstance(cur.orelse[0], ast.If) else None
        return kinds
    want = branch_kinds(sf, sf.params()[2])
    have = branch_kinds(yc, yc.params()[1])
    if len(want) < 3:
        raise AnalysisError("container branches of search_for_paths: {}"
                            .format(sorted(want)))
    for k in sorted(want):
        text = "yield_children: branch for {}".format(k)
        if k in have:
            chk.ok("C07-D7b", yc, yc.node, text, "present")
        else:
            chk.fail("C07-D7b", yc, yc.node, text,
                     "the expansion helper has no branch for {}: a matched "
                     "parent of that kind is reported as its own path "
                     "instead of being replaced by its members".format(k))
    data = yc.params()[1]
    for t in walk_local(yc.node):
        if not (isinstance(t, ast.If) and isinstance(t.test, ast.Call) and
                src(t.test.func) == "isinstance" and
                src(t.test.args[0]) != data):
            continue
        if not any(isinstance(c, ast.Call) and src(c.func) == "yield_children"
                   for st in t.body for c in ast.walk(st)):
            continue
        spec = t.test.args[1]
        elts = spec.elts if isinstance(spec, ast.Tuple) else [spec]
        got = {src(e) for e in elts}
        missing = sorted(want - got)
        text = "yield_children: descent test on `{}`".format(
            src(t.test.args[0]))
        if missing:
            chk.fail("C07-D7b", yc, t, text,
                     "children of kind {} are not expanded: the member is "
                     "reported as a leaf".format("/".join(missing)))
        else:
            chk.ok("C07-D7b", yc, t, text, "accepts every kind")


def d3f_merge_references(chk: Check) -> None:
    """A `<<: *anchor` entry is an alias in *value* position.  The block of
    search_for_paths that reports such references (`parent[&anchor]`) runs
    under the value-alias option alone; with the key-alias option it would
    report, in the default mode, paths that no option asked for and that
    resolve to the merged hash rather than to a matching value."""
    prog = chk.prog
    chk.rule("C07-D3f", "merge-key references are reported only under the "
             "value-alias option (that flag alone)", floor=1)
    fi = fn(prog, "search_for_paths")
    data = fi.params()[2]
    opts = {}
    for a in walk_local(fi.node):
        if isinstance(a, (ast.Assign, ast.AnnAssign)) and \
                isinstance(a.value, ast.Call) and \
                src(a.value.func).endswith(".pop") and a.value.args and \
                isinstance(a.value.args[0], ast.Constant):
            opts[str(a.value.args[0].value)] = src(
                a.targets[0] if isinstance(a, ast.Assign) else a.target)
    want = opts.get("include_value_aliases", "include_value_aliases")
    n = 0
    for loop in walk_local(fi.node):
        if not isinstance(loop, ast.For):
            continue
        it = loop.iter
        if isinstance(it, ast.Name):
            from sa.coords import reaching_def
            d = reaching_def(it.id, loop)
            it_src = src(d) if d is not None else it.id
        else:
            it_src = src(it)
        if "{}.merge".format(data) not in it_src:
            continue
        n += 1
        conds = [f for f in facts_at(loop) if f.kind == "cond" and
                 not (isinstance(f.expr, ast.Call) and
                      src(f.expr.func) in ("isinstance", "hasattr"))]
        text = "search_for_paths: for {} in {}".format(
            src(loop.target), src(loop.iter))
        if len(conds) == 1 and conds[0].pol and src(conds[0].expr) == want:
            chk.ok("C07-D3f", fi, loop, text, "under `{}` alone".format(want))
        else:
            chk.fail("C07-D3f", fi, loop, text,
                     "merge references are reported under {} instead of "
                     "`{}` alone: in a mode that did not ask for value "
                     "aliases the search prints `parent[&anchor]` paths"
                     .format([repr(c) for c in conds] or "no condition",
                             want))
    if n == 0:
        raise AnalysisError("merge-reference loop of search_for_paths not "
                            "found")


# ---------------------------------------------------------------- D4 ------
def d4_once(chk: Check) -> None:
    prog = chk.prog
    chk.rule("C07-D4", "a search result is recorded only after the "
             "duplicate check against the results so far", floor=1)
    fi = fn(prog, "process_yaml_file")
    chk.analysed(fi)
    # role: the loop variable over search_for_paths(...) results
    rvars = {src(l.target) for l in walk_local(fi.node)
             if isinstance(l, ast.For) and isinstance(l.iter, ast.Call)
             and src(l.iter.func).endswith("search_for_paths")}
    from sa.coords import reaching_def

    def mentions_result(call: ast.Call) -> bool:
        for x in ast.walk(call):
            if isinstance(x, ast.Name) and x.id in rvars:
                return True
        for a in call.args:
            if isinstance(a, ast.Name):
                d = reaching_def(a.id, call)
                if d is not None and any(
                        isinstance(x, ast.Name) and x.id in rvars
                        for x in ast.walk(d)):
                    return True
        return False
    apps = [n for n in walk_local(fi.node) if isinstance(n, ast.Call)
            and isinstance(n.func, ast.Attribute) and n.func.attr == "append"
            and mentions_result(n)]
    if not apps:
        raise AnalysisError("result recording not found")
    for a in apps:
        lst = src(a.func.value)  # type: ignore[attr-defined]
        flags = [f for f in facts_at(a) if f.kind == "cond" and f.pol and
                 isinstance(f.expr, ast.Name)]
        ok = False
        for f in flags:
            flag = f.expr.id
            clears = [n for n in walk_local(fi.node)
                      if isinstance(n, ast.Assign) and
                      src(n.targets[0]) == flag and src(n.value) == "False"]
            for c in clears:
                cond = [x for x in facts_at(c) if x.kind == "cond" and x.pol
                        and isinstance(x.expr, ast.Compare) and
                        any("str({})".format(r) in src(x.expr)
                            for r in rvars)]
                loops = [l for l in ancestors(c) if isinstance(l, ast.For)
                         and src(l.iter) == lst]
                if cond and loops:
                    ok = True
        # or: a direct membership test of the path text among the
        # recorded path texts
        for f in facts_at(a):
            e = f.expr
            if f.kind == "cond" and f.pol and isinstance(e, ast.Compare) \
                    and len(e.ops) == 1 and isinstance(e.ops[0], ast.NotIn) \
                    and any(src(e.left) == "str({})".format(r)
                            for r in rvars) and \
                    isinstance(e.comparators[0], (ast.ListComp, ast.SetComp,
                                                  ast.GeneratorExp)) and \
                    src(e.comparators[0].generators[0].iter) == lst:
                ok = True
        if ok:
            chk.ok("C07-D4", fi, a, src(a)[:60],
                   "guarded by the duplicate flag cleared when an equal "
                   "path is already recorded")
        else:
            chk.fail("C07-D4", fi, a, src(a)[:60],
                     "results are recorded without a duplicate check on "
                     "the path alone: a node matched by two expressions is "
                     "printed twice (and survives --except once)")


def d3g_classification_is_not_optional(chk: Check) -> None:
    """`Searches.search_anchor` does two things: it judges the anchor name
    against the expression (only when anchor names are searched) and it
    *records* the anchor in the shared seen-anchors list, which is what
    later tells an alias from its original.  The `search_anchors` option is
    therefore an argument of the call, never a condition around it: a key
    whose anchor was not recorded makes every later `*alias` of it look
    like an original, and excluded aliases are reported."""
    prog = chk.prog
    chk.rule("C07-D3g", "no call of Searches.search_anchor in the search "
             "walkers stands under a test of the search_anchors option",
             floor=3)
    n = 0
    for q in ("yaml_paths.search_for_paths", "yaml_paths.yield_children"):
        fi = prog.func(q)
        for c in walk_local(fi.node):
            if not (isinstance(c, ast.Call) and
                    src(c.func).endswith("search_anchor")):
                continue
            n += 1
            guard = [f for f in facts_at(c) if f.kind == "cond" and any(
                isinstance(x, ast.Name) and x.id == "search_anchors"
                for x in ast.walk(f.expr))]
            text = "{}: search_anchor({}, ...)".format(
                fi.short, src(c.args[0]) if c.args else "")
            if guard:
                chk.fail("C07-D3g", fi, c, text,
                         "the classification runs only when anchor names "
                         "are searched: without it the anchor is never "
                         "recorded as seen, and a later alias of the same "
                         "node is reported although aliases are excluded")
            else:
                chk.ok("C07-D3g", fi, c, text, "unconditional")
    if n < 3:
        raise AnalysisError("search_anchor calls: {}".format(n))


def d3h_reference_paths_name_real_anchors(chk: Check) -> None:
    """A merge reference is reported as `<hash>[&name]`.  The name is the
    key under which the anchors table holds *that very node* -- found by
    scanning the table for it.  Reading `ref_node.anchor.value` instead
    looks equivalent, but an in-line merge source (`<<: {colour: blue}`)
    has an anchor object whose value is None: the path `h[&None]` is
    reported whenever the text "None" satisfies the expression, and it
    resolves to nothing."""
    prog = chk.prog
    chk.rule("C07-D3h", "every `[&{}]` path piece of yaml-paths is filled "
             "with a name iterated from the anchors table", floor=1)
    fi = prog.func("yaml_paths.search_for_paths")
    n = 0
    for c in walk_local(fi.node):
        if not (isinstance(c, ast.Call) and isinstance(c.func, ast.Attribute)
                and c.func.attr == "format" and
                isinstance(c.func.value, ast.Constant) and
                isinstance(c.func.value.value, str) and
                "[&{}]" in c.func.value.value):
            continue
        n += 1
        names = {x.id for a in c.args for x in ast.walk(a)
                 if isinstance(x, ast.Name)}
        from_table = False
        for a in ancestors(c):
            if isinstance(a, ast.For) and ".items()" in src(a.iter) and \
                    "anchors" in src(a.iter) and \
                    isinstance(a.target, ast.Tuple) and \
                    src(a.target.elts[0]) in names:
                from_table = True
        text = "search_for_paths: {}".format(src(c)[:60])
        if from_table:
            chk.ok("C07-D3h", fi, c, text, "a key of the anchors table")
        else:
            chk.fail("C07-D3h", fi, c, text,
                     "the anchor name does not come from the anchors table: "
                     "a merged node without an anchor of its own yields the "
                     "path `[&None]`, which no query resolves")
    if n < 1:
        raise AnalysisError("[&{}] path pieces: {}".format(n))


def run(chk: Check) -> None:
    d1_escaping(chk)
    d1b_separator_always(chk)
    d8_same_children(chk)
    from rules.shared import shared_state_rule
    shared_state_rule(chk, "C07-D9", (PATHS, "yamlpath/common/searches.py"),
                      8)
    d2_inversion(chk)
    d3_search_anchor(chk)
    d3_consumer(chk)
    d3_bookkeeping(chk)
    d3e_shared_record(chk)
    d5_options(chk)
    d7_descent_kinds(chk)
    d7b_expansion_kinds(chk)
    d3f_merge_references(chk)
    d3g_classification_is_not_optional(chk)
    d3h_reference_paths_name_real_anchors(chk)
    from rules.shared import shared_dest_defaults_rule
    shared_dest_defaults_rule(chk, "C07-D10", (PATHS,), 1)
    from rules.shared import merge_identity_rule
    merge_identity_rule(chk, "C07-D11", (PATHS,), 1)
    from rules.shared import single_consumption_rule
    single_consumption_rule(chk, "C07-D12", (PATHS,), 8)
    from rules.c10 import d5_no_live_mutation
    d5_no_live_mutation(chk, "C07-D13", (PATHS,))
    from rules.shared import generator_calls_consumed_rule
    generator_calls_consumed_rule(chk, "C07-D14", (PATHS,), 8)
    d4_once(chk)
