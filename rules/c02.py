"""C02 -- every result locates its node.

Decided clauses (DESIGN.md section 4, C02):
  D1  construction-site consistency of every NodeCoords(...) in the
      evaluator (node / parent / parentref / path / ancestry derive from
      one container-key pair; key text enters the path only escaped);
  D2  coordinate threading through evaluator-to-evaluator calls;
  D3  coordinates are never mutated after hand-out;
  D5  the escape alphabet covers every character that is special for the
      parser in its base state.
(D4, escaping taint, is decided as part of D1/D2: the only accepted path
segment forms are '[int]' and escape_path_section(key, own separator).)
"""
from __future__ import annotations

import ast
from typing import Any, Dict, List, Optional, Set, Tuple

from sa import coords
from sa.coords import (Derivation, check_tuple, derive, incoming_roles,
                       reaching_def, reads_keywords)
from sa.effects import Effects, mutation_sites
from sa.guards import facts_at, root_name
from sa.interproc import arg_map
from sa.model import (AnalysisError, FuncInfo, Program, ancestors,
                      enclosing_stmt, parent, resolve_call, src, types_of,
                      walk_local)
from sa.peval import Const, PEval
from sa.report import Check

META = {
    "explanation": (
        "Static decision of C02 on the evaluator (processor.py, "
        "keywordsearches.py): each of the NodeCoords(...) construction "
        "sites and each evaluator-to-evaluator call is classified by how "
        "its node/data argument is derived (child of container C under "
        "key k via subscript or loop header; pass-through of the current "
        "node; virtual result) and the remaining coordinates must be "
        "derived from the same (C, k): parent C, parentref k, path = "
        "incoming path + '[k]' or + escape_path_section(k, own separator), "
        "ancestry = incoming ancestry + [(C, k)].  Mutation sites whose "
        "receiver is an incoming path / ancestry object are violations, "
        "and the escaping routine's alphabet must include every character "
        "the parser treats specially in its base state (computed by "
        "specialising the parser loop body per character).  Nothing is "
        "executed."),
    "declined": [
        "that re-evaluating the reported path returns that node and no "
        "other (ambiguity between 1 and '1', duplicate anchors: run-time "
        "values)",
        "virtual results (slices, collectors, name()) -- excluded by the "
        "property itself",
    ],
    "assumptions": ["loop headers enumerate()/items()/iteration give the "
                    "key of each element; `+` on YAMLPath copies (checked "
                    "in D3)"],
    "trusted_base": ["Python semantics of enumerate/items/subscript"],
}

EVAL_FILES = ["yamlpath/processor.py", "yamlpath/common/keywordsearches.py"]
COLLECTOR_FUNCS = ("Processor._collector_addition",
                   "Processor._collector_subtraction",
                   "Processor._collector_intersection",
                   "Processor._get_nodes_by_collector")


def evaluator_functions(prog: Program) -> List[FuncInfo]:
    out: List[FuncInfo] = []
    for rel in EVAL_FILES:
        for fi in prog.funcs_in(rel):
            s = fi.short
            if s.startswith("Processor._get_") or \
                    s.startswith("Processor._collector_") or \
                    (s.startswith("KeywordSearches.") and s.count(".") == 1):
                out.append(fi)
    if len(out) < 25:
        raise AnalysisError("evaluator function set shrank to {}".format(
            len(out)))
    return out


def data_param(fi: FuncInfo) -> Optional[str]:
    a = fi.node.args
    for arg in a.posonlyargs + a.args:
        if arg.arg == "self":
            continue
        if arg.annotation is not None and src(arg.annotation) == "Any":
            return arg.arg
        if arg.annotation is None and arg.arg in ("data",):
            return arg.arg
    return None


def _arg(call: ast.Call, i: int, name: str) -> Optional[ast.AST]:
    if len(call.args) > i:
        return call.args[i]
    for kw in call.keywords:
        if kw.arg == name:
            return kw.value
    return None


# ---------------------------------------------------------------- D1 ------
def d1_sites(chk: Check, funcs: List[FuncInfo]) -> None:
    chk.rule("C02-D1",
             "every NodeCoords(...) of the evaluator has parent, parentref, "
             "path and ancestry derived from the same (container, key) as "
             "its node; key text enters the path only through "
             "escape_path_section with the path's own separator", floor=60)
    chk.rule("C02-D1x", "sites exempt from D1 (virtual results, collector "
             "helpers, merge-key reference) are recognised structurally",
             floor=5)
    for fi in funcs:
        chk.analysed(fi)
        roles = incoming_roles(fi)
        dp = data_param(fi)
        for call in walk_local(fi.node):
            if not (isinstance(call, ast.Call) and
                    src(call.func) == "NodeCoords"):
                continue
            node_e = _arg(call, 0, "node")
            parent_e = _arg(call, 1, "parent")
            ref_e = _arg(call, 2, "parentref")
            path_e = _arg(call, 3, "path")
            anc_e = _arg(call, 4, "ancestry")
            text = "NodeCoords({})".format(
                ", ".join(src(a) for a in call.args[:5]))
            if node_e is None:
                continue
            if fi.short in COLLECTOR_FUNCS:
                chk.ok("C02-D1x", fi, call, text,
                       "collector helper: results are virtual (excluded by "
                       "the property)", False)
                continue
            der = derive(node_e, call, dp)
            why = _exempt_other(fi, call, node_e)
            if why:
                chk.ok("C02-D1x", fi, call, text, why, False)
                continue
            if der.kind == "other" and ref_e is not None and \
                    src(node_e) == src(ref_e):
                chk.ok("C02-D1x", fi, call, text,
                       "virtual: the node *is* the parentref (name())",
                       False)
                continue
            if der.kind == "virtual":
                chk.ok("C02-D1x", fi, call, text,
                       "virtual: node is a list built here (slice)", False)
                continue
            if der.kind == "other":
                chk.fail("C02-D1", fi, call, text,
                         "cannot derive node `{}` from a container "
                         "subscript, a loop header or the current data"
                         .format(src(node_e)))
                continue
            if fi.short == "KeywordSearches.parent" and der.kind == "pass" \
                    and _after_climb(call):
                _check_climb(chk, fi, call, text, roles)
                continue
            res = check_tuple(der, call, roles, parent_e, ref_e, path_e,
                              anc_e)
            if res.ok:
                chk.ok("C02-D1", fi, call, text,
                       "{}; {}".format(der, "; ".join(res.facts) or
                                       "all four coordinates consistent"))
            else:
                chk.fail("C02-D1", fi, call,
                         "{} [{}]".format(text, der),
                         "; ".join(res.problems),
                         {"derivation": repr(der)})


def _exempt_other(fi: FuncInfo, call: ast.Call, node_e: ast.AST
                  ) -> Optional[str]:
    # merge-key reference: node comes from the anchors map under a
    # `data.merge` guard
    if isinstance(node_e, ast.Name):
        d = reaching_def(node_e.id, call)
        guarded = any(".merge" in src(f.expr) for f in facts_at(call)
                      if f.kind == "cond")
        if d is not None and "all_anchors" in src(d) and guarded:
            return ("merge-key reference: the node is the anchored hash "
                    "merged by `<<:` (outside the property's node space)")
    return None


def _after_climb(call: ast.Call) -> bool:
    """Is the site in the branch of parent() that follows the pop loop?"""
    st = enclosing_stmt(call)
    par = parent(st)
    for field in ("body", "orelse"):
        blk = getattr(par, field, None)
        if isinstance(blk, list) and st in blk:
            return any(isinstance(s, ast.For) for s in blk[:blk.index(st)])
    return False


def _check_climb(chk: Check, fi: FuncInfo, call: ast.Call, text: str,
                 roles: Dict[str, str]) -> None:
    """parent(): as many path pops as ancestry pops in one loop; parent and
    parentref come from the new top entry."""
    st = enclosing_stmt(call)
    par = parent(st)
    blk = par.orelse if st in getattr(par, "orelse", []) else par.body  # type: ignore
    loops = [s for s in blk[:blk.index(st)] if isinstance(s, ast.For)]
    problems: List[str] = []
    if len(loops) != 1:
        problems.append("expected one climb loop")
    else:
        loop = loops[0]
        pops: Dict[str, int] = {}
        for n in walk_local(loop):
            if isinstance(n, ast.Call) and isinstance(n.func, ast.Attribute) \
                    and n.func.attr == "pop" and not n.args:
                pops[src(n.func.value)] = pops.get(src(n.func.value), 0) + 1
        path_v = src(_arg(call, 3, "path"))
        anc_v = src(_arg(call, 4, "ancestry"))
        if pops.get(path_v) != 1 or pops.get(anc_v) != 1:
            problems.append(
                "the climb loop must pop the path and the ancestry exactly "
                "once per level (found {})".format(pops))
        # the pops accumulate over the levels: neither object may be
        # re-created inside the loop (a fresh copy per level loses all but
        # the last pop)
        for n in walk_local(loop):
            if isinstance(n, (ast.Assign, ast.AnnAssign)):
                tg = n.targets if isinstance(n, ast.Assign) else [n.target]
                for t in tg:
                    if src(t) in (path_v, anc_v):
                        problems.append(
                            "`{}` is re-assigned inside the climb loop: "
                            "each level starts from a fresh copy, so only "
                            "one segment is removed whatever the number of "
                            "levels".format(src(t)))
        # node is what the last ancestry pop returned
        node_v = src(_arg(call, 0, "node"))
        got = False
        for n in walk_local(loop):
            if isinstance(n, ast.Assign) and isinstance(n.value, ast.Call) \
                    and src(n.value.func) == anc_v + ".pop":
                t = n.targets[0]
                if isinstance(t, ast.Tuple) and t.elts and \
                        src(t.elts[0]) == node_v:
                    got = True
        if not got:
            problems.append("node is not the container popped from the "
                            "ancestry")
        after = blk[blk.index(loop) + 1:blk.index(st)]
        texts = " ; ".join(src(s) for s in after)
        want_ref = "{} = {}[-1][1]".format(src(_arg(call, 2, "parentref")),
                                           anc_v)
        want_par = "{} = {}[-1][0]".format(src(_arg(call, 1, "parent")),
                                           anc_v)
        if want_ref not in texts or want_par not in texts:
            problems.append("parent/parentref are not taken from the new "
                            "top ancestry entry")
    if problems:
        chk.fail("C02-D1", fi, call, text + " [climb]", "; ".join(problems))
    else:
        chk.ok("C02-D1", fi, call, text + " [climb]",
               "one path pop and one ancestry pop per level; parent and "
               "parentref from the new top entry")


# ---------------------------------------------------------------- D2 ------
def d2_calls(chk: Check, funcs: List[FuncInfo]) -> None:
    prog = chk.prog
    chk.rule("C02-D2",
             "evaluator-to-evaluator calls hand on coordinates consistent "
             "with the data they pass (child: parent/parentref/path/"
             "ancestry of that child; pass-through: the incoming ones; "
             "result descent: the result's own)", floor=35)
    evalq = {f.qual for f in funcs}
    callers = list(funcs) + [prog.func(n) for n in (
        "Processor.exists", "Processor.get_nodes", "Processor.set_value",
        "Processor.delete_nodes")]
    for fi in callers:
        roles = incoming_roles(fi)
        dp = data_param(fi)
        types = types_of(prog, fi)
        for call in walk_local(fi.node):
            if not isinstance(call, ast.Call):
                continue
            targets = [c for c in resolve_call(prog, fi, call, types)
                       if c.qual in evalq]
            if not targets:
                continue
            callee = targets[0]
            cdp = data_param(callee)
            am = arg_map(callee, call)
            text = "{}({})".format(
                callee.short.split(".")[-1],
                ", ".join([src(a)[:30] for a in call.args[:1]] +
                          ["{}={}".format(k.arg, src(k.value)[:40])
                           for k in call.keywords if k.arg in (
                               "parent", "parentref", "translated_path",
                               "ancestry")]))
            forwards = any(k.arg is None for k in call.keywords)
            reads = reads_keywords(callee) & {"parent", "parentref",
                                              "translated_path", "ancestry"}
            if callee.node.args.kwarg is not None and \
                    _forwards_kwargs(callee):
                # the callee relays **kwargs: everything may be read below
                reads = {"parent", "parentref", "translated_path",
                         "ancestry"}
            kws = {k.arg: k.value for k in call.keywords if k.arg}
            data_e = am.get(cdp) if (am and cdp) else None
            if forwards:
                if _kwargs_untouched(fi, call):
                    chk.ok("C02-D2", fi, call, text,
                           "**kwargs forwarded untouched: coordinates pass "
                           "through")
                else:
                    chk.fail("C02-D2", fi, call, text,
                             "**kwargs is modified before being forwarded")
                continue
            if data_e is None:
                chk.ok("C02-D2", fi, call, text,
                       "callee takes no data argument", False)
                continue
            if src(data_e) == "self.data" and not (
                    set(kws) & {"parent", "parentref", "translated_path",
                                "ancestry"}):
                chk.ok("C02-D2", fi, call, text,
                       "root call: the document with empty coordinates",
                       False)
                continue
            # result descent: <x>.node with <x>'s own coordinates
            if isinstance(data_e, ast.Attribute) and data_e.attr == "node":
                base = src(data_e.value)
                want = {"parent": base + ".parent",
                        "parentref": base + ".parentref",
                        "translated_path": base + ".path",
                        "ancestry": base + ".ancestry"}
                bad = [r for r in sorted(reads)
                       if r not in kws or src(kws[r]) != want[r]]
                if bad:
                    chk.fail("C02-D2", fi, call, text,
                             "descent into result `{}` must pass its own {}"
                             .format(base, ", ".join(bad)))
                else:
                    chk.ok("C02-D2", fi, call, text,
                           "result descent with the result's own "
                           "coordinates")
                continue
            der = derive(data_e, call, dp)
            if der.kind == "other":
                # a collector's list result descends with the incoming
                # coordinates; a fresh sub-document (expression path)
                # likewise
                der = Derivation("pass")
            if der.kind == "virtual":
                der = Derivation("pass")
            if der.kind == "child" and _results_not_relayed(call):
                chk.ok("C02-D2", fi, call, text,
                       "results are only inspected (.node), never relayed: "
                       "coordinates immaterial", False)
                continue
            missing_ok = {"parent", "parentref", "translated_path",
                          "ancestry"} - reads
            res = check_tuple(der, call, roles, kws.get("parent"),
                              kws.get("parentref"),
                              kws.get("translated_path"),
                              kws.get("ancestry"), allow_missing=missing_ok)
            if res.ok:
                chk.ok("C02-D2", fi, call, text, repr(der))
            else:
                chk.fail("C02-D2", fi, call,
                         "{} [{}]".format(text, der),
                         "; ".join(res.problems))


def _forwards_kwargs(fi: FuncInfo) -> bool:
    kw = fi.node.args.kwarg.arg if fi.node.args.kwarg else None
    for n in walk_local(fi.node):
        if isinstance(n, ast.Call) and any(
                k.arg is None and src(k.value) == kw for k in n.keywords):
            return True
    return False


def _kwargs_untouched(fi: FuncInfo, call: ast.Call) -> bool:
    kw = fi.node.args.kwarg.arg if fi.node.args.kwarg else None
    if kw is None:
        return False
    for n in walk_local(fi.node):
        if isinstance(n, ast.Call) and isinstance(n.func, ast.Attribute) and \
                src(n.func.value) == kw and n.func.attr in (
                    "pop", "update", "clear", "setdefault", "popitem"):
            if n.lineno <= call.lineno:
                return False
        if isinstance(n, ast.Subscript) and src(n.value) == kw and \
                isinstance(n.ctx, (ast.Store, ast.Del)):
            return False
    return True


def _results_not_relayed(call: ast.Call) -> bool:
    """The call is the iterable of a for loop whose variable is only read
    through ``.node``."""
    p = parent(call)
    if not (isinstance(p, ast.For) and p.iter is call and
            isinstance(p.target, ast.Name)):
        return False
    var = p.target.id
    for n in walk_local(p):
        if isinstance(n, ast.Name) and n.id == var and n is not p.target:
            pp = parent(n)
            if not (isinstance(pp, ast.Attribute) and pp.attr == "node"):
                return False
    return True


# ---------------------------------------------------------------- D3 ------
def d3_immutable(chk: Check, funcs: List[FuncInfo]) -> None:
    prog = chk.prog
    chk.rule("C02-D3",
             "no mutation of an incoming translated path or ancestry (only "
             "`+`, which copies); YAMLPath.__add__ mutates a fresh copy",
             floor=40)
    ef = Effects(prog)
    add = prog.func("YAMLPath.__add__")
    subjects = list(funcs) + [add]
    # `+` must not change its left operand: no call of a self-mutating
    # method on `self` inside __add__
    ypath = [f for f in prog.functions.values()
             if f.cls is not None and f.cls.name == "YAMLPath"]
    ef.summarise(ypath)
    types = types_of(prog, add)
    for n in walk_local(add.node):
        if isinstance(n, ast.Call) and isinstance(n.func, ast.Attribute) and \
                isinstance(n.func.value, ast.Name) and \
                n.func.value.id == "self":
            for callee in resolve_call(prog, add, n, types):
                if "self" in ef.mutated_params.get(callee.qual, set()):
                    chk.fail("C02-D3", add, n, "self." + n.func.attr + "()",
                             "`+` calls `{}` on its own left operand, which "
                             "mutates it: every path sharing that object "
                             "changes".format(callee.short))
                else:
                    chk.ok("C02-D3", add, n, "self." + n.func.attr + "()",
                           "callee does not mutate self")
        if isinstance(n, ast.Attribute) and isinstance(n.ctx, ast.Store) \
                and src(n.value) == "self":
            chk.fail("C02-D3", add, n, "self." + n.attr + " = ...",
                     "`+` stores into its own left operand")
    for fi in subjects:
        for site in mutation_sites(fi):
            cls, detail = ef.classify(site)
            text = "{} on {}".format(site.how, src(site.receiver))
            recv = site.receiver
            coordish = cls in ("kwarg:translated_path", "kwarg:ancestry") or \
                any(isinstance(n, ast.Attribute) and
                    n.attr in ("path", "ancestry") for n in ast.walk(recv))
            if cls.startswith("param:") and \
                    fi.short == "YAMLPath.__add__":
                coordish = True
            if coordish and isinstance(recv, ast.Name):
                d = reaching_def(recv.id, site.node)
                if d is not None and ef.fresh_expr(fi, d, {recv.id}):
                    chk.ok("C02-D3", fi, site.node, text,
                           "receiver was re-bound to a fresh copy (`{}`) "
                           "before the mutation".format(src(d)[:60]))
                    continue
            if coordish:
                chk.fail("C02-D3", fi, site.node, text,
                         "`{}` mutates a coordinate object that was handed "
                         "in (and may already be referenced by earlier "
                         "results): use the copying `+` / a copy".format(
                             site.text[:80]))
            else:
                chk.ok("C02-D3", fi, site.node, text,
                       "receiver is {}".format(cls),
                       nontrivial=cls not in ("kwargs",))


# ---------------------------------------------------------------- D5 ------
DOCUMENTED = ["(", ")", "[", "]", "^", "$", "%", " ", "'", '"', "\\"]


def escape_alphabet(prog: Program) -> Tuple[Set[str], bool]:
    """(literal symbols escaped, separator escaped too?) -- from the
    symbol list of escape_path_section: the arguments of its
    ensure_escaped call, or the tuple/list of symbols it tests membership
    against."""
    fi = prog.func("YAMLPath.escape_path_section")
    sep_param = fi.params()[1]
    calls = [n for n in walk_local(fi.node) if isinstance(n, ast.Call)
             and src(n.func).endswith("ensure_escaped")]
    elems: List[ast.AST] = []
    if len(calls) == 1:
        elems = list(calls[0].args[1:])
    else:
        tuples = [n for n in walk_local(fi.node)
                  if isinstance(n, (ast.Tuple, ast.List, ast.Set)) and
                  len(n.elts) >= 6 and any(
                      isinstance(e, ast.Constant) and
                      isinstance(e.value, str) for e in n.elts)]
        if len(tuples) != 1:
            raise AnalysisError("symbol list of escape_path_section not "
                                "found")
        elems = list(tuples[0].elts)
    syms: Set[str] = set()
    has_sep = False
    for a in elems:
        if isinstance(a, ast.Constant) and isinstance(a.value, str):
            syms.add(a.value)
        elif sep_param in src(a):
            has_sep = True
    return syms, has_sep


def parser_roles(prog: Program) -> Dict[str, Any]:
    """Role discovery in the parser: loop, character variable, separator
    text variable, stack, flags and counters (no local names assumed)."""
    from sa.stackstate import find_stacks
    fi = prog.func("YAMLPath._parse_path")
    loops = [n for n in fi.node.body if isinstance(n, ast.For)
             and isinstance(n.iter, ast.Call)
             and src(n.iter.func) == "enumerate"]
    if len(loops) != 1:
        raise AnalysisError("parser loop not found")
    loop = loops[0]
    if not (isinstance(loop.target, ast.Tuple) and len(loop.target.elts) == 2):
        raise AnalysisError("parser loop target changed")
    char = src(loop.target.elts[1])
    sep = None
    none_init: List[str] = []
    zero_init: List[str] = []
    boolish: Set[str] = set()
    seen: Set[str] = set()
    for n in walk_local(fi.node):
        if isinstance(n, (ast.Assign, ast.AnnAssign)):
            tgt = n.targets[0] if isinstance(n, ast.Assign) else n.target
            if not isinstance(tgt, ast.Name) or n.value is None:
                continue
            v = n.value
            if isinstance(v, ast.Call) and src(v.func) == "str" and v.args \
                    and src(v.args[0]).endswith(".separator"):
                sep = tgt.id
            if isinstance(v, ast.Constant):
                if isinstance(v.value, bool):
                    boolish.add(tgt.id)
                elif tgt.id not in seen and v.value is None:
                    none_init.append(tgt.id)
                elif tgt.id not in seen and v.value == 0 and \
                        isinstance(v.value, int):
                    zero_init.append(tgt.id)
            seen.add(tgt.id)
    stacks = find_stacks(fi)
    if sep is None or not stacks:
        raise AnalysisError("parser separator/stack roles not found")
    return {"fi": fi, "loop": loop, "char": char, "sep": sep,
            "none_init": none_init, "zero_init": zero_init,
            "boolish": sorted(boolish), "stack": stacks[0][0],
            "mirror": stacks[0][1]}


def parser_base_specials(prog: Program) -> Dict[str, str]:
    """Characters that the parser does not record as plain text when it is
    in its base state (no open demarcation, no pending flags)."""
    r = parser_roles(prog)
    loop = r["loop"]
    body = loop.body
    pe = PEval(enum_classes={"PathSegmentTypes", "PathSearchMethods",
                             "PathSearchKeywords", "CollectorOperators"})
    chars = set()
    for n in walk_local(loop):
        if isinstance(n, ast.Constant) and isinstance(n.value, str) and \
                len(n.value) == 1:
            chars.add(n.value)
    chars.add("a")
    out: Dict[str, str] = {}
    for sep in ("/", "."):
        for c in sorted(chars | {sep}):
            env: Dict[str, Any] = {
                r["char"]: Const(c), r["sep"]: Const(sep),
                "len({})".format(r["stack"]): Const(0),
                "strip_escapes": Const(True),
            }
            for b in r["boolish"]:
                env[b] = Const(False)
            for nm in r["none_init"]:
                env[nm] = Const(None)
            for nm in r["zero_init"]:
                env[nm] = Const(0)
            res = pe.specialise(body, env)
            plain = _is_plain_append(res, r["char"], r["stack"])
            if not plain:
                out[c if c != sep else "<sep>"] = "special"
    return out


def _is_plain_append(res: List[ast.stmt], char: str, stack: str) -> bool:
    """Residual records the character: reaches ``<text> += char`` with no
    raise / continue / undecided branch / stack operation before it."""
    for s in res:
        if isinstance(s, ast.AugAssign) and isinstance(s.op, ast.Add) and \
                src(s.value) == char:
            return True
        if isinstance(s, (ast.Raise, ast.Continue, ast.If)):
            return False
        if isinstance(s, ast.Expr) and isinstance(s.value, ast.Call) and \
                src(s.value.func).startswith(stack + "."):
            return False
    return False


def d5_alphabet(chk: Check) -> None:
    prog = chk.prog
    chk.rule("C02-D5", "escape_path_section escapes every character that is "
             "special for the parser in its base state, the separator, and "
             "every character the syntax documents an escape for", floor=10)
    syms, has_sep = escape_alphabet(prog)
    fi = prog.func("YAMLPath.escape_path_section")
    specials = parser_base_specials(prog)
    if len(specials) < 6:
        raise AnalysisError("parser base-state specials shrank: {}".format(
            sorted(specials)))
    for c in sorted(set(specials) | set(DOCUMENTED)):
        label = repr(c)
        if c == "<sep>":
            if has_sep:
                chk.ok("C02-D5", fi, None, "separator",
                       "str(pathsep) is in the escaped symbol list")
            else:
                chk.fail("C02-D5", fi, None, "separator",
                         "the path separator is not escaped")
            continue
        if c in syms:
            chk.ok("C02-D5", fi, None, "char " + label,
                   "escaped ({} for the parser's base state)".format(
                       "special" if c in specials else "documented"))
        else:
            chk.fail("C02-D5", fi, None, "char " + label,
                     "character {} is {} but escape_path_section does not "
                     "escape it: a key containing it is reported as a path "
                     "that re-parses differently".format(
                         label, "special for the parser in its base state"
                         if c in specials else "documented as escapable"))


def d5b_post_lexing_specials(chk: Check) -> None:
    """Characters that are special *after* lexing: the segment text is
    handed to _expand_splats, which re-interprets every `*` whether or not
    it was escaped.  Escaping can therefore not protect such a character;
    the only spelling of a literal one is a quoted key, which the escaping
    routine never produces."""
    prog = chk.prog
    chk.rule("C02-D5b", "a character that the post-lexing rewriting of a "
             "key segment treats as an operator can be written literally by "
             "the escaping routine", floor=1)
    fi = prog.func("YAMLPath._expand_splats")
    seg = fi.params()[1]
    ops = set()
    for n in walk_local(fi.node):
        if isinstance(n, ast.Compare) and len(n.ops) == 1 and \
                isinstance(n.ops[0], ast.In) and \
                isinstance(n.left, ast.Constant) and \
                isinstance(n.left.value, str) and \
                src(n.comparators[0]) == seg:
            ops.add(n.left.value)
    if not ops:
        raise AnalysisError("_expand_splats no longer tests for an operator "
                            "character")
    esc = prog.func("YAMLPath.escape_path_section")
    syms, _ = escape_alphabet(prog)
    pfi = prog.func("YAMLPath._parse_path")
    # does the parser tell the rewriting which characters were escaped?
    calls = [c for c in walk_local(pfi.node) if isinstance(c, ast.Call) and
             src(c.func).endswith("._expand_splats")]
    informed = all(len(c.args) + len(c.keywords) > len(fi.params())
                   for c in calls) if calls else False
    for c in sorted(ops):
        text = "operator character {!r} of _expand_splats".format(c)
        if c in syms and informed:
            chk.ok("C02-D5b", esc, None, text, "escaped, and the rewriting "
                   "is told which characters were escaped")
        else:
            chk.fail("C02-D5b", esc, None, text,
                     "a key containing {!r} is reported as a path segment "
                     "that re-parses as a wildcard search: escape_path_"
                     "section {} it and _expand_splats rewrites the segment "
                     "text without knowing what was escaped".format(
                         c, "escapes" if c in syms else "does not escape"))


RAW_SAMPLES = [
    # (raw key text, separator) -> escaped text
    ("a.b", ".", "a\\.b"), ("a b", ".", "a\\ b"), ("p/q", "/", "p\\/q"),
    ("p/q", ".", "p/q"), ("a\\", ".", "a\\\\"),
    ("r\\.s", ".", "r\\\\\\.s"), ("x\\[", ".", "x\\\\\\["),
    ("plain", ".", "plain"),
    # text that a well-meant clean-up would change: the reported path must
    # name the key as it is in the document
    ("cafe\u0301", ".", "cafe\u0301"), ("MiXed", ".", "MiXed"),
    (" lead", ".", "\\ lead"), ("tab\there", ".", "tab\there"),
    ("\u00e9", ".", "\u00e9"), ("line\nbreak", ".", "line\nbreak"),
]


def d5c_raw_text(chk: Check) -> None:
    """escape_path_section receives *raw* document text.  A backslash in it
    is data: it must be escaped itself, and it must not make the routine
    believe that the special character after it is already escaped
    (`r\\.s` is a key of four characters, not an escaped dot)."""
    from sa.peval import Const, PEval
    prog = chk.prog
    chk.rule("C02-D5c", "escape_path_section escapes every special "
             "character of raw text unconditionally (folded over sample "
             "keys incl. backslash-before-special)", floor=1)
    fi = prog.func("YAMLPath.escape_path_section")
    chk.analysed(fi)
    sec, sep = fi.params()[0], fi.params()[1]
    delegates = [c for c in walk_local(fi.node) if isinstance(c, ast.Call)
                 and src(c.func).endswith("ensure_escaped")]
    if delegates:
        ens = prog.func("YAMLPath.ensure_escaped")
        skips = any(isinstance(c, ast.Call) and
                    isinstance(c.func, ast.Attribute) and
                    c.func.attr == "split" for c in walk_local(ens.node))
        if skips:
            chk.fail("C02-D5c", fi, delegates[0],
                     "delegates to ensure_escaped",
                     "ensure_escaped leaves a special character alone when "
                     "a backslash precedes it (it splits on the escaped "
                     "form): in raw text that backslash is data, so the key "
                     "`r\\.s` is written as `r\\\\.s`, which parses as the "
                     "two keys `r\\` and `s`")
            return
    # the separator that is escaped is the one the caller named: the text
    # of the parameter itself.  The evaluator passes the separator of the
    # path it is extending (still AUTO -- whose text is `.` -- directly
    # under the root); "resolving" it differently here escapes one
    # character and the `+` that follows infers the other notation.
    chk.rule("C02-D5d", "the separator escape_path_section escapes is "
             "str() of its own separator parameter (not a value chosen by "
             "a test of it)", floor=1)
    strs = [c for c in walk_local(fi.node) if isinstance(c, ast.Call) and
            src(c.func) == "str" and len(c.args) == 1 and
            src(c.args[0]) != sec and
            any(isinstance(a, (ast.List, ast.Tuple, ast.Set))
                for a in ancestors(c))]
    # (no separator entry at all is C02-D5's finding; the floor of this
    # rule applies only when nothing else reports)
    bad = [c for c in strs if src(c.args[0]) != sep]
    if bad:
        chk.fail("C02-D5d", fi, bad[0], "alphabet entry `{}`".format(
            src(bad[0])),
            "the escaped separator is `{}`, not the text of the `{}` the "
            "caller passed: for a path whose separator is still undecided "
            "(keys directly under the root) the other separator is escaped, "
            "a root key like `www.example.com` is reported as three "
            "segments and every path below it inherits the error".format(
                src(bad[0].args[0]), sep))
        return
    if strs:
        chk.ok("C02-D5d", fi, strs[0], "alphabet entry `{}`".format(
            src(strs[0])), "the caller's separator as given")
    pe = PEval()
    for raw, sp, want in RAW_SAMPLES:
        env = {sec: Const(raw), "str({})".format(sec): Const(raw),
               "str({})".format(sep): Const(sp)}
        pe.specialise(fi.node.body, env, pinned=[sec, sep])
        rets = [r for r in pe.returned]
        text = "escape_path_section({!r}, {!r})".format(raw, sp)
        if len(rets) != 1 or not isinstance(rets[0][1], Const):
            raise AnalysisError(text + " not decided by constant folding")
        got = rets[0][1].value
        if got == want:
            chk.ok("C02-D5c", fi, fi.node, text, "-> {!r}".format(got))
        else:
            chk.fail("C02-D5c", fi, fi.node, text,
                     "gives {!r}, expected {!r}".format(got, want))


def d1r_data_not_rebound(chk: Check, funcs: List[FuncInfo]) -> None:
    """The container named as `parent` in a result must be the document's
    own object.  The evaluator functions name their data parameter there,
    so that parameter may be re-bound only to something that is still in
    the document: the node of the NodeCoords it held, or a container popped
    off the ancestry.  A copy (an unwrapped or filtered list) has equal
    content and passes every value-level check, but deleting or setting
    through it does not touch the document."""
    chk.rule("C02-D1r", "the data parameter of an evaluator function is "
             "re-bound only to an object of the document (`<data>.node`, an "
             "ancestry entry)", floor=2)
    n = 0
    for fi in funcs:
        ps = fi.params()
        if not ps:
            continue
        data = ps[1] if ps[0] == "self" and len(ps) > 1 else ps[0]
        if data not in ("data",) and "data" not in data:
            continue
        for a in walk_local(fi.node):
            if not isinstance(a, (ast.Assign, ast.AnnAssign)):
                continue
            tg = a.targets if isinstance(a, ast.Assign) else [a.target]
            hit = any(isinstance(x, ast.Name) and x.id == data and
                      isinstance(x.ctx, ast.Store)
                      for t in tg for x in ast.walk(t))
            if not hit or a.value is None:
                continue
            n += 1
            v = src(a.value)
            text = "{}: {}".format(fi.short, src(a)[:60])
            if v == data + ".node" or (
                    isinstance(a.value, ast.Call) and
                    isinstance(a.value.func, ast.Attribute) and
                    a.value.func.attr == "pop" and
                    "ancestry" in src(a.value.func.value)):
                chk.ok("C02-D1r", fi, a, text, "still an object of the "
                       "document")
            else:
                chk.fail("C02-D1r", fi, a, text,
                         "`{}` is re-bound to `{}`; results built afterwards "
                         "name that object as their parent, and it is not "
                         "(known to be) the container the document holds"
                         .format(data, v[:50]))
    if n < 2:
        raise AnalysisError("re-bindings of data parameters not found")


def d1s_set_members(chk: Check, funcs: List[FuncInfo]) -> None:
    """The coordinates of a set member are (the set, the member itself):
    that is what `_delete_nodes` discards and what `_update_node` looks for.
    Text that merely *compares equal* to the member after unwrapping (a
    tagged member against the segment's text) is not in the set."""
    prog = chk.prog
    chk.rule("C02-D1s", "every NodeCoords yielded for a member of a set "
             "carries the member itself (the loop variable) as node and as "
             "parentref", floor=5)
    for fi in funcs:
        for loop in walk_local(fi.node):
            if not (isinstance(loop, ast.For) and
                    isinstance(loop.target, ast.Name) and
                    isinstance(loop.iter, ast.Name)):
                continue
            in_set = any(
                f.kind == "cond" and f.pol and isinstance(f.expr, ast.Call)
                and src(f.expr.func) == "isinstance" and
                src(f.expr.args[0]) == loop.iter.id and
                "Set" in src(f.expr.args[1]) for f in facts_at(loop))
            if not in_set:
                continue
            member, cont = loop.target.id, loop.iter.id
            for c in walk_local(loop):
                if not (isinstance(c, ast.Call) and
                        src(c.func) == "NodeCoords" and len(c.args) >= 3
                        and src(c.args[1]) == cont):
                    continue
                text = "{}: NodeCoords({}, {}, {}, ...)".format(
                    fi.short, src(c.args[0])[:20], cont,
                    src(c.args[2])[:20])
                if src(c.args[0]) == member and src(c.args[2]) == member:
                    chk.ok("C02-D1s", fi, c, text, "member as node and "
                           "parentref")
                else:
                    chk.fail("C02-D1s", fi, c, text,
                             "the coordinates of a set member name `{}` as "
                             "node and `{}` as parentref instead of the "
                             "member `{}`: for a tagged member the text is "
                             "not in the set (delete raises KeyError, set "
                             "changes nothing)".format(
                                 src(c.args[0]), src(c.args[2]), member))


def d1i_index_text_is_the_parsed_index(chk: Check,
                                       funcs: List[FuncInfo]) -> None:
    """A reported path names a list element as `[N]` with N the integer
    position that is also the parentref.  Writing the *segment text* there
    (`[01]`, `[+1]`) still parses, but it is not the canonical spelling:
    `YAMLPath.pop()` -- which `[parent()]` climbs with -- cuts the canonical
    rendering off the end of the text, finds nothing to cut, and the result
    keeps a descendant's path for the ancestor's node."""
    from sa.kinds import Kinds, INT
    chk.rule("C02-D1i", "every `\"[{}]\".format(x)` / `\"[{}:{}]\"` path "
             "piece of the evaluator is filled with integers (parsed "
             "indexes, enumeration counters), never with segment text",
             floor=15)
    n = 0
    for fi in funcs:
        kinds = None
        for c in walk_local(fi.node):
            if not (isinstance(c, ast.Call) and
                    isinstance(c.func, ast.Attribute) and
                    c.func.attr == "format" and
                    isinstance(c.func.value, ast.Constant) and
                    isinstance(c.func.value.value, str) and
                    c.func.value.value.startswith("[{}")):
                continue
            kinds = kinds or Kinds(chk.prog, fi)
            n += 1
            text = "{}: {}".format(fi.short, src(c)[:50])
            bad = [a for a in c.args if kinds.kind(a) != INT]
            if bad:
                chk.fail("C02-D1i", fi, c, text,
                         "`{}` is not known to be an integer (it is {}): "
                         "the path text of the result differs from the "
                         "canonical `[N]`, so pop() / parent() cannot cut "
                         "the segment off again and the climbed result "
                         "carries the child's path".format(
                             src(bad[0]), kinds.kind(bad[0])))
            else:
                chk.ok("C02-D1i", fi, c, text, "integer position(s)", False)
    if n < 15:
        raise AnalysisError("index path pieces found: {}".format(n))


def run(chk: Check) -> None:
    funcs = evaluator_functions(chk.prog)
    d1_sites(chk, funcs)
    d1s_set_members(chk, funcs)
    d1i_index_text_is_the_parsed_index(chk, funcs)
    d1r_data_not_rebound(chk, funcs)
    d2_calls(chk, funcs)
    d3_immutable(chk, funcs)
    d5_alphabet(chk)
    d5b_post_lexing_specials(chk)
    d5c_raw_text(chk)
