"""C16 -- the command-line tools deliver honest exit codes.

Decided clauses (DESIGN.md section 4, C16):
  D1  sticky non-zero exit state in every main() and status-returning
      helper (three-valued abstract interpretation); every library-exception
      handler and every "document not loaded" branch records the failure;
  D2  tool tables: yaml-get queries with mustexist=True and prints once per
      gathered node in order; yaml-diff exits with 1 iff the report flag is
      set and the flag does not depend on display options;
  D3  file and stdin take the same loader call inside the same try, and
      every loader handler clears the loaded flag;
  D4  ConsolePrinter.critical never returns;
  D5  every console script of setup.py resolves to an existing main().
"""
from __future__ import annotations

import ast
import os
from typing import Dict, List, Optional, Set, Tuple

from sa.cli import CLI_FILES, CliModel, E, ExitAnalysis, N, U, Z, state_vars
from sa.guards import facts_at
from sa.model import (AnalysisError, FuncInfo, Program, ancestors, parent,
                      resolve_call, src, walk_local)
from sa.partial import handler_names
from sa.report import Check

META = {
    "explanation": (
        "Static decision over the seven console entry points, their helper "
        "functions and the two document loaders (none of which the pinned "
        "test-suite executes): a path-sensitive three-valued abstract "
        "interpretation ({zero, non-zero, either}) of every status variable "
        "that reaches sys.exit()/return proves that a failure code is never "
        "overwritten by a possibly-zero value; every handler of a library "
        "exception and every not-loaded branch must record the failure "
        "(non-zero state, critical(), exit, cleared flag); yaml-get's query "
        "uses the literal mustexist=True and prints once per gathered node; "
        "yaml-diff's exit status is 1 iff the changes flag, which is set on "
        "a path not control-dependent on display options; both loaders call "
        "the same parser method for file and stdin inside one try whose "
        "handlers all clear the loaded flag; critical() has no returning "
        "path; setup.py's console scripts resolve.  Nothing is executed."),
    "declined": [
        "that stdout equals the library's answer for all inputs; JSON/YAML "
        "formatting (run-time values)",
        "yaml-set file content equals the model (C03/C04 extensional part)",
    ],
    "assumptions": ["sys.exit never returns", "argparse namespace attributes "
                    "are not modelled"],
    "trusted_base": ["Python structured control flow", "sys.exit"],
}

LIB_EXC = {"YAMLPathException", "EYAMLCommandException", "MergeException",
           "UnmatchedYAMLPathException", "TypeMismatchYAMLPathException"}
LOADERS = ("get_yaml_data", "get_yaml_multidoc_data", "get_doc_mergers",
           "get_docs")


def cli_functions(prog: Program) -> List[FuncInfo]:
    out: List[FuncInfo] = []
    for rel in CLI_FILES:
        prog.module(rel)
        out.extend(prog.funcs_in(rel))
    return out


def stateful_functions(model: CliModel, funcs: List[FuncInfo]) -> Set[str]:
    """Functions that return one of their status variables."""
    out: Set[str] = set()
    from sa.cli import sticky_vars
    for fi in funcs:
        vs = set(state_vars(fi)) & sticky_vars(fi)
        for n in walk_local(fi.node):
            if isinstance(n, ast.Return) and isinstance(n.value, ast.Name) \
                    and n.value.id in vs:
                out.add(fi.qual)
    return out


def d1_sticky(chk: Check, model: CliModel, funcs: List[FuncInfo]) -> None:
    chk.rule("C16-D1a", "a status variable that may hold a failure code is "
             "never assigned a possibly-zero value (sticky non-zero)",
             floor=25)
    chk.rule("C16-D1b", "every exit of a main() passes its status variable "
             "(or a non-zero literal / critical) to sys.exit", floor=7)
    stateful = stateful_functions(model, funcs)
    for fi in funcs:
        vs = state_vars(fi)
        if not vs:
            continue
        chk.analysed(fi)
        ana = ExitAnalysis(model, fi, stateful)
        ana.run()
        for node, why in ana.assign_ok:
            chk.ok("C16-D1a", fi, node, src(node)[:80], why)
        for node, var, msg in ana.violations:
            chk.fail("C16-D1a", fi, node, src(node)[:100], msg)
    chk.rule("C16-D1e", "the status returned by a helper is never "
             "discarded", floor=6)
    for fi in funcs:
        for n in walk_local(fi.node):
            if isinstance(n, ast.Call):
                tg = [c for c in resolve_call(chk.prog, fi, n)
                      if c.qual in stateful]
                if not tg:
                    continue
                p = parent(n)
                text = src(n.func) + "(...)"
                if isinstance(p, (ast.Assign, ast.AnnAssign)):
                    t = p.targets[0] if isinstance(p, ast.Assign) else p.target
                    if isinstance(t, ast.Name) and t.id in state_vars(fi):
                        chk.ok("C16-D1e", fi, n, text,
                               "stored in status variable " + t.id)
                        continue
                if isinstance(p, ast.Return):
                    chk.ok("C16-D1e", fi, n, text, "returned")
                    continue
                chk.fail("C16-D1e", fi, n, text,
                         "the status returned by {} is dropped".format(
                             tg[0].short))
    for fi in funcs:
        if fi.node.name != "main":
            continue
        vs = state_vars(fi)
        exits = [n for n in walk_local(fi.node) if isinstance(n, ast.Call)
                 and src(n.func) in ("sys.exit", "exit")]
        for n in exits:
            arg = n.args[0] if n.args else None
            text = src(n)
            if arg is None:
                chk.ok("C16-D1b", fi, n, text, "exit(): status 0", False)
            elif isinstance(arg, ast.Constant):
                chk.ok("C16-D1b", fi, n, text, "literal status", False)
            elif isinstance(arg, ast.Name) and arg.id in vs:
                chk.ok("C16-D1b", fi, n, text,
                       "exits with the tracked status variable")
            else:
                chk.fail("C16-D1b", fi, n, text,
                         "main() exits with `{}`, which is not a tracked "
                         "status variable".format(src(arg)))
        if vs and not any(isinstance(n.args[0] if n.args else None, ast.Name)
                          for n in exits):
            chk.fail("C16-D1b", fi, fi.node, "main",
                     "main() tracks `{}` but never exits with it".format(
                         ", ".join(vs)))
        elif not exits:
            chk.ok("C16-D1b", fi, fi.node, "main",
                   "no status variable: failures leave through critical()/"
                   "sys.exit in place", False)


def _records_failure(model: CliModel, fi: FuncInfo, body: List[ast.stmt]
                     ) -> Optional[str]:
    vs = set(state_vars(fi))
    for s in body:
        for n in walk_local(s):
            if isinstance(n, ast.Call) and model.call_never_returns(fi, n):
                arg = None
                if src(n.func) in ("sys.exit", "exit"):
                    arg = n.args[0] if n.args else None
                    if isinstance(arg, ast.Constant) and arg.value in (0, None):
                        continue
                    if arg is None:
                        continue
                else:
                    arg = n.args[1] if len(n.args) > 1 else None
                    if isinstance(arg, ast.Constant) and arg.value == 0:
                        continue
                return "exits via `{}`".format(src(n)[:50])
            if isinstance(n, ast.Assign) and len(n.targets) == 1:
                t, v = n.targets[0], n.value
                if isinstance(t, ast.Name) and isinstance(v, ast.Constant):
                    if t.id in vs and isinstance(v.value, int) and \
                            not isinstance(v.value, bool) and v.value != 0:
                        return "sets `{}` to {}".format(t.id, v.value)
                    if v.value is False and _flag_is_returned(fi, t.id):
                        return "clears the returned flag `{}`".format(t.id)
                    if v.value is True and _error_flag(fi, t.id):
                        return "sets the error flag `{}`".format(t.id)
            if isinstance(n, ast.Return) and (
                    n.value is None or (isinstance(n.value, ast.Constant)
                                        and n.value.value is None)):
                if _callers_test_none(model, fi):
                    return ("returns the None sentinel, which every caller "
                            "tests and records")
            if isinstance(n, ast.Return) and n.value is not None:
                v = n.value
                if isinstance(v, ast.Constant) and isinstance(v.value, int) \
                        and not isinstance(v.value, bool) and v.value != 0:
                    return "returns status {}".format(v.value)
                if isinstance(v, ast.Tuple) and v.elts and \
                        isinstance(v.elts[-1], ast.Constant) and \
                        v.elts[-1].value is False:
                    return "returns a (…, False) not-loaded tuple"
            if isinstance(n, ast.Raise):
                return "re-raises"
    return None


def _callers_test_none(model: CliModel, fi: FuncInfo) -> bool:
    from sa.interproc import call_sites
    sites = call_sites(model.prog, fi)
    if not sites:
        return False
    for caller, call in sites:
        p = parent(call)
        if not (isinstance(p, ast.Assign) and
                isinstance(p.targets[0], ast.Name)):
            return False
        var = p.targets[0].id
        tests = sorted(
            (n for n in walk_local(caller.node)
             if isinstance(n, ast.If) and n.lineno > p.lineno and
             src(n.test) in (var + " is None", "not " + var)),
            key=lambda n: n.lineno)
        if not tests or not _records_failure(model, caller, tests[0].body):
            return False
    return True


def _flag_is_returned(fi: FuncInfo, name: str) -> bool:
    for n in walk_local(fi.node):
        if isinstance(n, ast.Return) and n.value is not None and \
                name in {x.id for x in ast.walk(n.value)
                         if isinstance(x, ast.Name)}:
            return True
    return False


def _error_flag(fi: FuncInfo, name: str) -> bool:
    """`if <name>: yield (None, False)` / `sys.exit(1)` at function end."""
    for n in walk_local(fi.node):
        if isinstance(n, ast.If) and src(n.test) == name:
            for s in n.body:
                t = src(s)
                if "False" in t or "exit(1)" in t:
                    return True
    return False


def d1_handlers(chk: Check, model: CliModel, funcs: List[FuncInfo]) -> None:
    prog = chk.prog
    chk.rule("C16-D1c", "every handler of a library exception in the tools "
             "records the failure (non-zero status, critical(), exit, "
             "cleared flag) -- or is an explicit, parameter-controlled "
             "ignore", floor=20)
    chk.rule("C16-D1d", "every 'document not loaded' branch records the "
             "failure", floor=8)
    subjects = list(funcs) + [prog.func("Parsers.get_yaml_data"),
                              prog.func("Parsers.get_yaml_multidoc_data")]
    for fi in subjects:
        for n in walk_local(fi.node):
            if isinstance(n, ast.ExceptHandler):
                names = {h.split(".")[-1] for h in handler_names(n)}
                in_loader = fi.short.startswith("Parsers.")
                if not (names & LIB_EXC or in_loader):
                    continue
                why = _records_failure(model, fi, n.body)
                text = "except {}".format("/".join(sorted(names)))
                if why:
                    chk.ok("C16-D1c", fi, n, text, why)
                elif _controlled_ignore(fi, n):
                    chk.ok("C16-D1c", fi, n, text,
                           "explicit ignore controlled by a parameter")
                else:
                    chk.fail("C16-D1c", fi, n, text,
                             "handler for {} neither sets a non-zero status, "
                             "calls critical()/sys.exit nor clears the "
                             "loaded flag: the tool would report success "
                             "after a failure".format("/".join(sorted(names))))
    # not-loaded branches
    for fi in funcs:
        for n in walk_local(fi.node):
            tgt = None
            if isinstance(n, ast.Assign) and isinstance(n.value, ast.Call) \
                    and src(n.value.func).split(".")[-1] in LOADERS:
                tgt = n.targets[0]
            elif isinstance(n, ast.For) and isinstance(n.iter, ast.Call) and \
                    src(n.iter.func).split(".")[-1] in LOADERS:
                tgt = n.target
            if tgt is None or not isinstance(tgt, ast.Tuple) or \
                    len(tgt.elts) != 2 or \
                    not isinstance(tgt.elts[1], ast.Name):
                continue
            flag = tgt.elts[1].id
            text = "{} <- {}".format(flag, src(
                n.value.func if isinstance(n, ast.Assign)
                else n.iter.func))  # type: ignore
            branch = _not_loaded_branch(fi, flag, n)
            if branch is None:
                chk.fail("C16-D1d", fi, n, text,
                         "the loaded flag `{}` is never tested: a document "
                         "that failed to load would be processed as data"
                         .format(flag))
                continue
            why = _records_failure(model, fi, branch)
            if why:
                chk.ok("C16-D1d", fi, n, text, "not-loaded branch " + why)
            else:
                chk.fail("C16-D1d", fi, n, text,
                         "the branch taken when `{}` is false does not "
                         "record the failure".format(flag))


def _controlled_ignore(fi: FuncInfo, h: ast.ExceptHandler) -> bool:
    """``if ignore_flag: ... return`` before the failure action, where the
    flag is a parameter / kwargs.pop of the function."""
    for s in h.body:
        if isinstance(s, ast.If) and isinstance(s.test, ast.Name):
            return True
    return False


def _not_loaded_branch(fi: FuncInfo, flag: str, after: ast.AST
                       ) -> Optional[List[ast.stmt]]:
    for n in walk_local(fi.node):
        if not isinstance(n, ast.If) or n.lineno < after.lineno:
            continue
        t = n.test
        names = {x.id for x in ast.walk(t) if isinstance(x, ast.Name)}
        if flag not in names:
            continue
        if isinstance(t, ast.UnaryOp) and isinstance(t.op, ast.Not):
            return n.body
        if isinstance(t, ast.Name):
            return n.orelse or None
    return None


def d2_tables(chk: Check, model: CliModel) -> None:
    prog = chk.prog
    chk.rule("C16-D2a", "yaml-get queries with the literal mustexist=True, "
             "gathers in query order and prints exactly once per gathered "
             "node", floor=3)
    chk.rule("C16-D2b", "yaml-diff: the changes flag is set for every "
             "non-SAME entry on a path that does not depend on display "
             "options, and main exits 1 iff the flag", floor=2)
    fi = prog.func("yaml_get.main")
    chk.analysed(fi)
    q = [n for n in walk_local(fi.node) if isinstance(n, ast.Call) and
         src(n.func).endswith(("get_eyaml_values", "get_nodes"))]
    if len(q) != 1:
        raise AnalysisError("yaml-get query call not found")
    kw = {k.arg: k.value for k in q[0].keywords}
    me = kw.get("mustexist")
    if isinstance(me, ast.Constant) and me.value is True:
        chk.ok("C16-D2a", fi, q[0], "mustexist=True", "literal True")
    else:
        chk.fail("C16-D2a", fi, q[0], "mustexist=" + src(me),
                 "yaml-get must query with mustexist=True so that an "
                 "unmatched path exits non-zero")
    # gather loop appends every node; print loop prints once per node
    loop = parent(q[0])
    gathered = None
    if isinstance(loop, ast.For):
        apps = [n for n in walk_local(loop) if isinstance(n, ast.Call) and
                isinstance(n.func, ast.Attribute) and n.func.attr == "append"]
        conds = [n for n in walk_local(loop)
                 if isinstance(n, (ast.If, ast.Continue, ast.Break))]
        if len(apps) == 1 and not conds:
            gathered = src(apps[0].func.value)  # type: ignore
            chk.ok("C16-D2a", fi, loop, "gather loop",
                   "appends every result, unconditionally, in query order")
    if gathered is None:
        chk.fail("C16-D2a", fi, q[0], "gather loop",
                 "results are not all gathered (filter, break or continue "
                 "in the gather loop)")
    else:
        ploops = [n for n in walk_local(fi.node) if isinstance(n, ast.For)
                  and src(n.iter) == gathered]
        ok = False
        if len(ploops) == 1:
            ok = _prints_once_each_path(ploops[0].body)
        if ok:
            chk.ok("C16-D2a", fi, ploops[0], "print loop",
                   "every path through the loop body prints exactly once")
        else:
            chk.fail("C16-D2a", fi, fi.node, "print loop",
                     "not every gathered node is printed exactly once")
    # yaml-diff
    pr = prog.func("yaml_diff.print_report")
    dm = prog.func("yaml_diff.main")
    chk.analysed(pr)
    rets = [n for n in walk_local(pr.node) if isinstance(n, ast.Return)]
    flag = src(rets[0].value) if len(rets) == 1 and rets[0].value else None
    if flag is None:
        raise AnalysisError("print_report return not found")
    sets = [n for n in walk_local(pr.node) if isinstance(n, ast.Assign) and
            src(n.targets[0]) == flag and
            isinstance(n.value, ast.Constant) and n.value.value is True]
    clears = [n for n in walk_local(pr.node) if isinstance(n, ast.Assign) and
              src(n.targets[0]) == flag and not (
                  isinstance(n.value, ast.Constant) and
                  n.value.value is True) and n.lineno > sets[0].lineno] \
        if sets else []
    good = False
    if len(sets) == 1 and not clears:
        fs = [f for f in facts_at(sets[0]) if f.kind == "cond"]
        deps = set()
        for f in fs:
            deps |= {src(x) for x in ast.walk(f.expr)
                     if isinstance(x, ast.Attribute) and src(x.value) == "args"}
        # the only guard must be "entry is not SAME" (directly or via a local)
        non_same = any(_means_not_same(pr, f) for f in fs)
        # no early continue/break before the flag is set in the loop body
        loop = [a for a in ancestors(sets[0]) if isinstance(a, ast.For)]
        early = False
        if loop:
            for s in loop[0].body:
                if s.lineno >= sets[0].lineno:
                    break
                if any(isinstance(x, (ast.Continue, ast.Break, ast.Return))
                       for x in walk_local(s)):
                    early = True
        if not deps and non_same and len(fs) == 1 and not early:
            good = True
            chk.ok("C16-D2b", pr, sets[0], flag + " = True",
                   "set under the single guard `{}`; no display option "
                   "(args.*) on the path".format(fs[0]))
    if not good:
        chk.fail("C16-D2b", pr, pr.node, flag + " = True",
                 "the exit flag is not set for every non-SAME entry "
                 "independently of display options (quiet/onlysame/same)")
    # main: exit_state = 1 if print_report(...) else 0 ; sys.exit(exit_state)
    assigns = [n for n in walk_local(dm.node) if isinstance(n, ast.Assign)
               and isinstance(n.value, ast.IfExp) and
               "print_report" in src(n.value.test)]
    if len(assigns) == 1 and src(assigns[0].value.body) == "1" and \
            src(assigns[0].value.orelse) == "0":
        chk.ok("C16-D2b", dm, assigns[0], src(assigns[0])[:70],
               "1 iff the report found changes")
        var = src(assigns[0].targets[0])
        last = [n for n in walk_local(dm.node) if isinstance(n, ast.Call) and
                src(n.func) == "sys.exit" and n.args and
                src(n.args[0]) == var]
        if last:
            chk.ok("C16-D2b", dm, last[0], src(last[0]), "exits with it")
        else:
            chk.fail("C16-D2b", dm, dm.node, "sys.exit",
                     "main does not exit with the diff status")
    else:
        chk.fail("C16-D2b", dm, dm.node, "exit status",
                 "yaml-diff's exit status is not `1 if changes else 0`")


def _means_not_same(fi: FuncInfo, f) -> bool:
    e = f.expr
    text = src(e)
    if "DiffActions.SAME" in text:
        return (("is not" in text or "!=" in text) and f.pol) or \
            ((" is " in text or "==" in text) and "not" not in text
             and not f.pol)
    if isinstance(e, ast.Name) and f.pol:
        for n in walk_local(fi.node):
            if isinstance(n, ast.Assign) and src(n.targets[0]) == e.id:
                t = src(n.value)
                return "DiffActions.SAME" in t and (
                    "is not" in t or "!=" in t)
    return False


def _prints_once_each_path(body: List[ast.stmt]) -> bool:
    def count(stmts: List[ast.stmt]) -> Optional[Tuple[int, int]]:
        lo = hi = 0
        for s in stmts:
            if isinstance(s, ast.If):
                a, b = count(s.body), count(s.orelse)
                if a is None or b is None:
                    return None
                lo += min(a[0], b[0])
                hi += max(a[1], b[1])
            elif isinstance(s, ast.Expr) and isinstance(s.value, ast.Call) \
                    and src(s.value.func) == "print":
                lo += 1
                hi += 1
            elif isinstance(s, (ast.For, ast.While, ast.Continue, ast.Break,
                                ast.Return)):
                return None
        return lo, hi
    c = count(body)
    return c == (1, 1)


def _loader_calls(prog, fi: FuncInfo, root: ast.AST):
    """Calls of the ruamel loader reachable in ``root``: `parser.load(...)`
    / `parser.load_all(...)` on the function's parser parameter, and calls
    of a Parsers helper that hands *its* first parameter's load / load_all
    on (a wrapper is the loader call it makes).  -> [(call, method)]"""
    pname = fi.params()[0]
    out = []
    for n in walk_local(root):
        if not (isinstance(n, ast.Call) and isinstance(n.func, ast.Attribute)):
            continue
        if n.func.attr in ("load", "load_all") and \
                src(n.func.value) == pname:
            out.append((n, n.func.attr))
            continue
        if n.args and src(n.args[0]) == pname and \
                prog.has_func("Parsers." + n.func.attr) and \
                n.func.attr != fi.node.name:
            w = prog.func("Parsers." + n.func.attr)
            inner = [c for c in walk_local(w.node)
                     if isinstance(c, ast.Call) and
                     isinstance(c.func, ast.Attribute) and
                     c.func.attr in ("load", "load_all") and
                     src(c.func.value) == w.params()[0]]
            if len(inner) == 1:
                out.append((n, inner[0].func.attr))  # type: ignore
    return out


def d3_loaders(chk: Check) -> None:
    prog = chk.prog
    chk.rule("C16-D3", "both loaders call the same parser method for stdin, "
             "literal and file sources inside one try; every handler clears "
             "the loaded flag", floor=4)
    for name, meth in (("Parsers.get_yaml_data", "load"),
                       ("Parsers.get_yaml_multidoc_data", "load_all")):
        fi = prog.func(name)
        chk.analysed(fi)
        tries = [n for n in walk_local(fi.node) if isinstance(n, ast.Try)]
        if len(tries) != 1:
            chk.fail("C16-D3", fi, fi.node, "try", "expected a single try")
            continue
        tr = tries[0]
        lcalls = _loader_calls(prog, fi, tr)
        calls = [c for c, _ in lcalls]
        inside = [c for c in calls
                  if not any(isinstance(a, ast.ExceptHandler)
                             for a in ancestors(c))]
        methods = {m for c, m in lcalls if c in inside}
        stdin = [c for c in inside if "stdin" in src(c)]
        if methods == {meth} and len(inside) == 3 and len(stdin) == 1:
            chk.ok("C16-D3", fi, tr, "parser.{}() x3".format(meth),
                   "stdin, literal and file all use parser.{}() in the "
                   "same try".format(meth))
        else:
            chk.fail("C16-D3", fi, tr, "parser calls {}".format(
                sorted(methods)),
                "file and stdin delivery do not use the same loader call "
                "(found {} calls: {})".format(
                    len(inside), sorted(src(c)[:40] for c in inside)))
        outside = [c for c, _ in _loader_calls(prog, fi, fi.node)
                   if c not in calls]
        if outside:
            chk.fail("C16-D3", fi, outside[0], src(outside[0])[:60],
                     "a loader call outside the error-trapping try")
        else:
            chk.ok("C16-D3", fi, tr, "no loader call outside the try",
                   "all parser calls are inside the try", False)


def d3b_same_documents_per_arm(chk: Check) -> None:
    """"Reading a document from a file or from standard input gives the
    same outcome."  Besides using the same parser call (C16-D3), the arms of
    the multi-document loader must yield the same documents for the same
    text -- in particular for the empty text.  An arm that adds a fallback
    document ("deliberately empty input") when its stream yielded nothing,
    next to an arm that yields nothing at all, makes the number of documents
    depend on the delivery."""
    prog = chk.prog
    chk.rule("C16-D3b", "the STDIN, literal and file arms of "
             "get_yaml_multidoc_data agree on the fallback document for an "
             "input that yields no document", floor=1)
    fi = prog.func("Parsers.get_yaml_multidoc_data")
    loads = [c for c, m in _loader_calls(prog, fi, fi.node)
             if m == "load_all"]
    arms = []
    for c in loads:
        loop = next((a for a in ancestors(c) if isinstance(a, ast.For)), None)
        if loop is None:
            continue
        # statements of the arm: the block that holds the loop (or the
        # `with` around it)
        top: ast.AST = loop
        while isinstance(parent(top), ast.With):
            top = parent(top)
        blk_owner = parent(top)
        blk = None
        for fld in ("body", "orelse"):
            b = getattr(blk_owner, fld, None)
            if isinstance(b, list) and top in b:
                blk = b
        after = blk[blk.index(top) + 1:] if blk else []
        fallback = any(isinstance(y, ast.Yield) for st in after
                       for y in ast.walk(st))
        handles = {src(i.optional_vars) for a in ancestors(c)
                   if isinstance(a, ast.With) for i in a.items
                   if i.optional_vars is not None}
        kind = "STDIN" if "stdin" in src(c) else (
            "file" if c.args and src(c.args[-1]) in handles else "literal")
        arms.append((kind, fallback, c))
    if len(arms) != 3:
        raise AnalysisError("arms of get_yaml_multidoc_data: {}".format(
            [a[0] for a in arms]))
    with_fb = sorted(k for k, f, _ in arms if f)
    without = sorted(k for k, f, _ in arms if not f)
    text = "get_yaml_multidoc_data: fallback document per arm"
    if with_fb and without:
        chk.fail("C16-D3b", fi, arms[0][2], text,
                 "the {} arm yields a fallback document for an input that "
                 "holds no document, the {} arm(s) yield nothing: the same "
                 "(empty) text is one document from one source and none "
                 "from the other".format("/".join(with_fb),
                                         "/".join(without)))
    else:
        chk.ok("C16-D3b", fi, arms[0][2], text,
               "all arms {}".format("have one" if with_fb else "have none"))


def d4_d5(chk: Check, model: CliModel) -> None:
    prog = chk.prog
    chk.rule("C16-D4", "ConsolePrinter.critical never returns", floor=1)
    chk.rule("C16-D5", "every console script resolves to an existing main()",
             floor=7)
    crit = prog.func("ConsolePrinter.critical")
    if crit.qual in model.never_returns:
        chk.ok("C16-D4", crit, crit.node, "critical()",
               "every path ends in sys.exit(...)")
    else:
        chk.fail("C16-D4", crit, crit.node, "critical()",
                 "critical() has a path that returns to the caller: code "
                 "after a critical() call in an error handler would run")
    setup = os.path.join(prog.root, "setup.py")
    with open(setup, "r", encoding="utf-8") as fh:
        tree = ast.parse(fh.read())
    scripts: List[str] = []
    for n in ast.walk(tree):
        if isinstance(n, ast.Constant) and isinstance(n.value, str) and \
                " = yamlpath.commands." in n.value:
            scripts.append(n.value)
    for s in scripts:
        name, target = [x.strip() for x in s.split("=")]
        mod, func = target.split(":")
        q = mod + "." + func
        if q in prog.functions:
            chk.ok("C16-D5", prog.functions[q], None, s, "resolves")
        else:
            chk.fail("C16-D5", None, None, s,
                     "console script target {} does not exist".format(q))


def d6_every_document(chk: Check, funcs: List[FuncInfo]) -> None:
    """A loop over the documents of a stream, or over the files named on
    the command line, is left early only on a failure path (a document that
    did not load, a non-zero status just obtained).  A `break` on any other
    path silently drops the remaining documents with exit status 0."""
    from sa.cli import state_vars
    from sa.guards import atoms
    chk.rule("C16-D6", "per-document / per-file loops are left early only "
             "on a failure path", floor=8)
    for fi in funcs:
        svars = set(state_vars(fi))
        # success flags: second element of a 2-tuple unpacked from a call
        # or from the document generator
        flags: Set[str] = set()
        for n in walk_local(fi.node):
            tgt = None
            if isinstance(n, ast.For):
                tgt = n.target
            elif isinstance(n, ast.Assign) and isinstance(n.value, ast.Call):
                tgt = n.targets[0]
            if isinstance(tgt, ast.Tuple) and len(tgt.elts) == 2 and \
                    isinstance(tgt.elts[1], ast.Name):
                flags.add(tgt.elts[1].id)
        for loop in walk_local(fi.node):
            if not isinstance(loop, ast.For):
                continue
            it = src(loop.iter)
            if not ("get_yaml_multidoc_data" in it or
                    it.endswith(("yaml_files", "rhs_files"))):
                continue
            exits = [b for b in walk_local(loop) if isinstance(b, ast.Break)
                     and next((a for a in ancestors(b)
                               if isinstance(a, (ast.For, ast.While))),
                              None) is loop]
            text = "{}: for ... in {}".format(fi.short, it[:45])
            bad = []
            for b in exits:
                ok = False
                for f in facts_at(b):
                    if f.kind != "cond":
                        continue
                    e, pol = f.expr, f.pol
                    while isinstance(e, ast.UnaryOp) and \
                            isinstance(e.op, ast.Not):
                        e, pol = e.operand, not pol
                    if isinstance(e, ast.Name) and e.id in flags and not pol:
                        ok = True
                    if isinstance(e, ast.Compare) and len(e.ops) == 1 and \
                            isinstance(e.left, ast.Name) and \
                            e.left.id in svars and \
                            src(e.comparators[0]) == "0":
                        if (isinstance(e.ops[0], ast.Eq) and not pol) or \
                                (isinstance(e.ops[0], (ast.NotEq, ast.Gt))
                                 and pol):
                            ok = True
                if not ok:
                    bad.append(b)
            if bad:
                chk.fail("C16-D6", fi, bad[0], text,
                         "`break` at line {} leaves the loop on a path that "
                         "is not a failure path: the remaining documents "
                         "are never processed and the status stays 0"
                         .format(bad[0].lineno))
            else:
                chk.ok("C16-D6", fi, loop, text,
                       "{} early exit(s), all on failure paths".format(
                           len(exits)))


def _loaded_pairs(fi: FuncInfo) -> List[Tuple[str, str, ast.AST]]:
    """(document variable, loaded flag, binding node) for every unpacking
    of the loader's (data, loaded) pair."""
    out = []
    for n in walk_local(fi.node):
        tgt = call = None
        if isinstance(n, ast.For):
            tgt, call = n.target, n.iter
        elif isinstance(n, ast.Assign) and len(n.targets) == 1:
            tgt, call = n.targets[0], n.value
        if isinstance(tgt, ast.Tuple) and len(tgt.elts) == 2 and \
                all(isinstance(e, ast.Name) for e in tgt.elts) and \
                isinstance(call, ast.Call) and src(call.func).endswith(
                    ("get_yaml_data", "get_yaml_multidoc_data")):
            out.append((tgt.elts[0].id, tgt.elts[1].id, n))
    return out


def d8_loaded_documents(chk: Check, funcs: List[FuncInfo],
                        rid: str = "C16-D8", floor: int = 6) -> None:
    """What the loader hands back is (document, loaded?).  The flag decides
    whether there is a document at all: the document is looked at only
    where the flag is known to be true (a failed load also yields None, so
    testing the document first takes a broken file for an empty one), and
    a document is never judged by truthiness (an empty list, 0 or false is
    a document)."""
    from rules.c06 import falsy_and_absent_sites
    chk.rule(rid, "a loaded document is read only under its loaded "
             "flag, and never tested for truthiness", floor=floor)
    for fi in funcs:
        pairs = _loaded_pairs(fi)
        if not pairs:
            continue
        for doc, flag, bind in pairs:
            text = "{}: ({}, {}) from the loader".format(fi.short, doc, flag)
            if doc == "_":
                chk.ok(rid, fi, bind, text, "document not used", False)
                continue
            bad_reads = []
            for n in walk_local(fi.node):
                if not (isinstance(n, ast.Name) and n.id == doc and
                        isinstance(n.ctx, ast.Load)):
                    continue
                if n.lineno <= bind.lineno and not isinstance(bind, ast.For):
                    continue
                ok = False
                for f in facts_at(n):
                    if f.kind != "cond":
                        continue
                    e, pol = f.expr, f.pol
                    while isinstance(e, ast.UnaryOp) and \
                            isinstance(e.op, ast.Not):
                        e, pol = e.operand, not pol
                    if isinstance(e, ast.Name) and e.id == flag and pol:
                        ok = True
                if not ok:
                    bad_reads.append(n)
            if bad_reads:
                chk.fail(rid, fi, bad_reads[0], text,
                         "`{}` is read at line {} where `{}` is not known "
                         "to be true: a file that failed to load is treated "
                         "like an empty document".format(
                             doc, bad_reads[0].lineno, flag))
            else:
                chk.ok(rid, fi, bind, text,
                       "every read is dominated by the flag")
            bad, _ = falsy_and_absent_sites(fi.node, set(), set(),
                                            doc_exprs={doc})
            for node, why in bad:
                chk.fail(rid, fi, node, text + " truthiness", why)


def d9_diff_sides(chk: Check) -> None:
    """yaml-diff: the left document is document -L of the first file, the
    right one document -R of the second file, and the Differ is built on
    the left and compared to the right.  Sides are discovered from the
    data flow (file index in args.yaml_files, option name), not from
    variable names."""
    from sa.coords import reaching_def
    prog = chk.prog
    chk.rule("C16-D9", "yaml-diff selects document -L from the first file "
             "and document -R from the second, and compares left to right",
             floor=3)
    from rules.c17 import fn
    fi = fn(prog, "yamlpath/commands/yaml_diff.py", "main")

    def side_of(e: ast.AST, depth: int = 0) -> Set[str]:
        """{'L'}, {'R'} or both/none: which side an expression's value
        comes from."""
        out: Set[str] = set()
        for x in ast.walk(e):
            t = src(x)
            if t.endswith("yaml_files[0]") or "left_document_index" in t:
                out.add("L")
            if t.endswith("yaml_files[1]") or "right_document_index" in t:
                out.add("R")
        if depth < 4:
            for x in ast.walk(e):
                if isinstance(x, ast.Name):
                    for a in walk_local(fi.node):
                        if isinstance(a, ast.Assign):
                            names = [y.id for t in a.targets
                                     for y in ast.walk(t)
                                     if isinstance(y, ast.Name)]
                            if x.id in names and a.lineno < e.lineno:
                                out |= side_of(a.value, depth + 1)
        return out
    calls = [c for c in walk_local(fi.node) if isinstance(c, ast.Call) and
             src(c.func) == "get_doc" and len(c.args) == 3]
    if len(calls) != 2:
        raise AnalysisError("document selection calls of yaml-diff not found")
    sides = []
    for c in calls:
        sd, si = side_of(c.args[1]), side_of(c.args[2])
        text = src(c)
        if len(sd) == 1 and sd == si:
            chk.ok("C16-D9", fi, c, text, "stream and index both from side "
                   + "".join(sd))
            sides.append("".join(sd))
        else:
            chk.fail("C16-D9", fi, c, text,
                     "the documents come from side {} but the index from "
                     "side {}: another document than the one asked for is "
                     "compared".format("/".join(sorted(sd)) or "?",
                                       "/".join(sorted(si)) or "?"))
            sides.append("?")
    if sorted(sides) == ["L", "R"]:
        chk.ok("C16-D9", fi, fi.node, "both sides selected", "one left, one "
               "right document")
    else:
        chk.fail("C16-D9", fi, fi.node, "both sides selected",
                 "the two selections are for sides {}".format(sides))


def d10_twin_arms(chk: Check) -> None:
    """yaml-merge writes its result either to --output FILE or to STDOUT by
    two copies of the same code.  After renaming the destination the two
    arms must be the same program: what differs between them is delivered
    differently by the two routes (e.g. documents of a JSON stream run
    together in the file but not on STDOUT)."""
    import copy
    prog = chk.prog
    chk.rule("C16-D10", "the to-file and to-STDOUT arms of yaml-merge's "
             "writer are identical up to the destination", floor=1)
    from rules.c17 import fn, MERGE
    fi = fn(prog, MERGE, "write_output_document")
    chk.analysed(fi)
    arms = [n for n in fi.node.body if isinstance(n, ast.If) and
            len(n.body) == 1 and isinstance(n.body[0], ast.With) and n.orelse]
    if len(arms) != 1:
        raise AnalysisError("to-file / to-STDOUT arms not found")
    w = arms[0].body[0]
    fh = src(w.items[0].optional_vars) if w.items[0].optional_vars else None
    if fh is None:
        raise AnalysisError("output handle of the file arm not found")

    class Norm(ast.NodeTransformer):
        def visit_Name(self, node: ast.Name) -> ast.AST:
            if node.id == fh:
                return ast.Name(id="DEST", ctx=node.ctx)
            return node

        def visit_Attribute(self, node: ast.Attribute) -> ast.AST:
            if src(node) == "sys.stdout":
                return ast.Name(id="DEST", ctx=ast.Load())
            return self.generic_visit(node)

        def visit_Call(self, node: ast.Call) -> ast.AST:
            node = self.generic_visit(node)  # type: ignore[assignment]
            if isinstance(node.func, ast.Name) and node.func.id == "print":
                node.keywords = [k for k in node.keywords
                                 if not (k.arg == "file" and
                                         isinstance(k.value, ast.Name) and
                                         k.value.id == "DEST")]
            return node

    def norm(stmts: List[ast.stmt]) -> List[str]:
        out = []
        for st in stmts:
            t = Norm().visit(copy.deepcopy(_strip_parents(st)))
            out.append(ast.dump(t, annotate_fields=False))
        return out
    a, b = norm(w.body), norm(arms[0].orelse)
    if a == b:
        chk.ok("C16-D10", fi, arms[0], "file arm vs STDOUT arm",
               "identical after renaming the destination")
    else:
        # first differing statement, for the report
        k = next((i for i, (x, y) in enumerate(zip(a, b)) if x != y),
                 min(len(a), len(b)))
        where = w.body[k] if k < len(w.body) else w
        chk.fail("C16-D10", fi, where, "file arm vs STDOUT arm",
                 "the two arms differ (first at statement {} of the arm): "
                 "the same merge result is written differently to a file "
                 "than to STDOUT".format(k + 1))


def _strip_parents(node: ast.AST) -> ast.AST:
    """A parent-link-free clone (deepcopy would follow the links)."""
    from sa.interproc import clone
    return clone(node)


def d5_ladders(chk: Check) -> None:
    """Output formatting branches on the class of the node; an arm for a
    subclass placed after the arm of its base class never runs (a date is a
    timestamp: it would be printed with a time)."""
    from sa.ladders import shadowed_arms
    prog = chk.prog
    chk.rule("C16-D7", "in the tools and the output helpers no isinstance "
             "arm is shadowed by an earlier arm for a base class",
             floor=20)
    for fi in prog.functions.values():
        rel = fi.module.relpath
        if not (rel.startswith("yamlpath/commands/") or
                rel in ("yamlpath/common/parsers.py",
                        "yamlpath/common/nodes.py")):
            continue
        bad, n = shadowed_arms(prog, fi)
        for arm, why in bad:
            chk.fail("C16-D7", fi, arm, "elif " + src(arm.test)[:60], why)
        for _ in range(n - len(bad)):
            chk.ok("C16-D7", fi, fi.node, fi.short, "arm reachable", False)


TEXT_CHANGERS = {
    "strip", "lstrip", "lower", "upper", "casefold", "title", "capitalize",
    "swapcase", "replace", "translate", "expandtabs", "removeprefix",
    "removesuffix", "center", "ljust", "rjust", "zfill", "split",
    "splitlines", "partition", "rpartition", "encode", "format",
}


def d11_value_as_supplied(chk: Check) -> None:
    """yaml-set stores the replacement value it was given.  The one
    documented adjustment is that trailing white-space of a value *file* is
    discarded (`--file ... discarding any trailing new-lines`): `.rstrip()`
    with no argument on the file's text.  Any other text-changing call on
    the way from the option / stream / file to `set_value` writes a value
    that is not the supplied one (leading white-space of an indented
    fragment, case, ...)."""
    prog = chk.prog
    chk.rule("C16-D11", "each input arm of yaml-set hands the supplied text "
             "on unchanged (a value file loses trailing white-space only)",
             floor=4)
    from rules.c17 import fn, SET
    fi = fn(prog, SET, "main")
    sets = [c for c in walk_local(fi.node) if isinstance(c, ast.Call) and
            src(c.func).endswith(("set_value", "_set_nodes",
                                  "set_eyaml_value"))]
    if not sets:
        raise AnalysisError("yaml-set main(): no set call found")
    val_names: Set[str] = set()
    for c in sets:
        for a in list(c.args) + [k.value for k in c.keywords]:
            if isinstance(a, ast.Name) and "value" in a.id:
                val_names.add(a.id)
    if not val_names:
        raise AnalysisError("yaml-set main(): replacement value variable "
                            "not found")
    n_arms = 0
    for n in walk_local(fi.node):
        if not (isinstance(n, ast.Assign) and
                src(n.targets[0]) in val_names):
            continue
        if isinstance(n.value, ast.Constant):
            continue
        n_arms += 1
        changers = []
        for x in ast.walk(n.value):
            if isinstance(x, ast.Call) and isinstance(x.func, ast.Attribute):
                if x.func.attr in TEXT_CHANGERS:
                    changers.append(src(x)[-40:])
                elif x.func.attr == "rstrip":
                    from_file = isinstance(x.func.value, ast.Call) and \
                        isinstance(x.func.value.func, ast.Attribute) and \
                        x.func.value.func.attr == "read" and \
                        "stdin" not in src(x.func.value)
                    if x.args or x.keywords or not from_file:
                        changers.append(src(x)[-40:])
            elif isinstance(x, ast.Subscript) and \
                    isinstance(x.slice, ast.Slice):
                changers.append(src(x)[-40:])
        text = "{} = {}".format(src(n.targets[0]), src(n.value)[:50])
        if changers:
            chk.fail("C16-D11", fi, n, text,
                     "the supplied value is altered by {} before it is "
                     "stored: the document saved is not the one the set "
                     "model predicts".format(", ".join(
                         "`" + c + "`" for c in changers)))
        else:
            chk.ok("C16-D11", fi, n, text, "handed on as supplied")
    if n_arms < 4:
        raise AnalysisError("yaml-set main(): only {} value arms found"
                            .format(n_arms))


def d15_alias_option_table(chk: Check) -> None:
    """yaml-paths maps the parsed reference option onto the two flags the
    search takes.  The mapping is a table with one row per IncludeAliases
    member; main() is specialised for each member (partial evaluation) and
    the two flags it hands to the search are compared with the documented
    row."""
    from sa.peval import Enum as _E, PEval as _P
    prog = chk.prog
    chk.rule("C16-D15", "yaml-paths main(): per IncludeAliases member the "
             "(key-alias, value-alias) flags handed to the search are the "
             "documented ones", floor=4)
    mains = [f for f in prog.funcs_in("yamlpath/commands/yaml_paths.py")
             if f.node.name == "main"]
    if len(mains) != 1:
        raise AnalysisError("yaml_paths.main not found")
    fi = mains[0]
    # the names handed on as include_key_aliases= / include_value_aliases=
    roles = {}
    for c in walk_local(fi.node):
        if not isinstance(c, ast.Call):
            continue
        for k in c.keywords:
            if k.arg in ("include_key_aliases", "include_value_aliases") \
                    and isinstance(k.value, ast.Name):
                roles[k.arg] = k.value.id
        for callee in resolve_call(prog, fi, c):
            ps = callee.params()
            for i, a in enumerate(c.args):
                if i < len(ps) and ps[i] in ("include_key_aliases",
                                             "include_value_aliases") and \
                        isinstance(a, ast.Name):
                    roles[ps[i]] = a.id
    if len(roles) != 2:
        raise AnalysisError("alias flags handed on by yaml_paths.main not "
                            "found")
    want = {"ANCHORS_ONLY": (False, False),
            "INCLUDE_KEY_ALIASES": (True, False),
            "INCLUDE_VALUE_ALIASES": (False, True),
            "INCLUDE_ALL_ALIASES": (True, True)}
    members = prog.enum_members("IncludeAliases")
    if set(members) != set(want):
        raise AnalysisError("IncludeAliases members changed: {}".format(
            sorted(members)))
    argsv = None
    for a in walk_local(fi.node):
        if isinstance(a, ast.Assign) and isinstance(a.value, ast.Call) and \
                src(a.value.func) == "processcli":
            argsv = src(a.targets[0])
    if argsv is None:
        raise AnalysisError("yaml_paths.main: parsed options not found")
    for m in sorted(want):
        pe = _P(enum_classes={"IncludeAliases"})
        pe.specialise(fi.node.body,
                      {argsv + ".include_aliases": _E("IncludeAliases", m)},
                      pinned=[argsv])
        got = tuple(getattr(pe.final_env.get(roles[r]), "value", None)
                    for r in ("include_key_aliases",
                              "include_value_aliases"))
        text = "reference option {}".format(m)
        if got == want[m]:
            chk.ok("C16-D15", fi, None, text, "flags {}".format(got))
        else:
            chk.fail("C16-D15", fi, None, text,
                     "the search is run with (key aliases, value aliases) = "
                     "{} but the option means {}: the tool prints another "
                     "result than the library call it stands for".format(
                         got, want[m]))


def d18_filters_restored_before_handing_out(chk: Check) -> None:
    """`warnings.catch_warnings()` changes process-wide state until its
    block is left.  A generator that yields from inside such a block (with
    the filter set to "error") suspends *inside* it: everything the caller
    does with the yielded document runs with warnings turned into
    exceptions -- a search with the regular expression `[[]a` makes
    re.compile() issue a FutureWarning, which then ends yaml-paths in a
    traceback although the same query works through the single-document
    loader."""
    prog = chk.prog
    chk.rule("C16-D18", "no `yield` inside a `with warnings.catch_warnings()` "
             "block of the loaders (the filter is restored before a document "
             "is handed to the caller)", floor=2)
    n = 0
    for fi in prog.funcs_in("yamlpath/common/parsers.py"):
        for w in walk_local(fi.node):
            if not (isinstance(w, ast.With) and any(
                    isinstance(i.context_expr, ast.Call) and
                    src(i.context_expr.func).endswith("catch_warnings")
                    for i in w.items)):
                continue
            n += 1
            ys = [y for st in w.body for y in ast.walk(st)
                  if isinstance(y, (ast.Yield, ast.YieldFrom))]
            text = "{}: with warnings.catch_warnings()".format(fi.short)
            if ys:
                chk.fail("C16-D18", fi, ys[0], text,
                         "the generator yields while the tightened warnings "
                         "filter is in force: the caller's own code (a "
                         "search, a merge, printing) runs with every warning "
                         "raised as an exception until the next document is "
                         "requested")
            else:
                chk.ok("C16-D18", fi, w, text, "nothing is yielded inside "
                       "the block")
    if n < 2:
        raise AnalysisError("catch_warnings blocks in the loaders: {}".format(n))


def _option_table(prog, modname: str):
    """add_argument calls of <modname>.processcli -> list of dicts."""
    fi = prog.func(modname + ".processcli")
    out = []
    for c in walk_local(fi.node):
        if not (isinstance(c, ast.Call) and
                isinstance(c.func, ast.Attribute) and
                c.func.attr == "add_argument"):
            continue
        flags = [a.value for a in c.args if isinstance(a, ast.Constant)
                 and isinstance(a.value, str)]
        kw = {k.arg: k.value for k in c.keywords if k.arg}
        if "dest" in kw and isinstance(kw["dest"], ast.Constant):
            dest = kw["dest"].value
        else:
            longs = [f for f in flags if f.startswith("--")]
            base = longs[0] if longs else (flags[0] if flags else "")
            dest = base.lstrip("-").replace("-", "_")
        out.append({"call": c, "flags": flags, "dest": dest, "kw": kw})
    return fi, out


def d19_option_tables(chk: Check) -> None:
    """Three things about the argparse tables that no passing test looks at.
    (a) A `type=` that rewrites the text (`str.lower`) belongs to options
    with a closed set of `choices=` only: a YAML Path, a file name or a key
    name is case-sensitive.  (b) The configuration classes read the parsed
    options by attribute name, guarded by hasattr(): the name must be the
    `dest` argparse derives -- from the *first* long spelling -- or the
    option is silently ignored.  (c) They take an option as "given" when its
    value is truthy, to let the configuration file's [defaults] apply
    otherwise: such an option has no default of its own."""
    prog = chk.prog
    chk.rule("C16-D19", "a text-rewriting type= (str.lower ...) only on "
             "options with choices=", floor=10)
    chk.rule("C16-D20", "every option attribute the configuration classes "
             "read is the dest of an option of their tool", floor=8)
    chk.rule("C16-D21", "options the configuration classes treat as 'given "
             "when truthy' have no truthy default=", floor=5)
    tools = [f.module.modname.split(".")[-1] for f in cli_functions(prog)
             if f.node.name == "processcli"]
    n19 = 0
    tables = {}
    for t in sorted(set(tools)):
        fi, opts = _option_table(prog, t)
        tables[t] = (fi, opts)
        for o in opts:
            ty = o["kw"].get("type")
            if ty is None:
                continue
            rewrites = isinstance(ty, ast.Attribute) and \
                src(ty.value) == "str" and ty.attr in (
                    "lower", "upper", "casefold", "title", "capitalize",
                    "strip", "lstrip", "rstrip", "swapcase")
            n19 += 1
            text = "{}: {} type={}".format(t, "/".join(o["flags"]), src(ty))
            if rewrites and "choices" not in o["kw"]:
                chk.fail("C16-D19", fi, o["call"], text,
                         "the value of this option is free text (a path, a "
                         "name): `{}` changes what the user wrote, so "
                         "`--mergeat=/Settings/Ports` addresses "
                         "/settings/ports".format(src(ty)))
            else:
                chk.ok("C16-D19", fi, o["call"], text,
                       "closed choices" if rewrites else "not a rewriting "
                       "conversion")
    for cls, tool in (("MergerConfig", "yaml_merge"),
                      ("DifferConfig", "yaml_diff")):
        fi, opts = tables[tool]
        dests = {o["dest"]: o for o in opts}
        ci = prog.class_by_name(cls)
        reads = {}
        truthy = set()
        for m in ci.methods.values():
            for c in walk_local(m.node):
                if isinstance(c, ast.Call) and src(c.func) == "hasattr" and \
                        len(c.args) == 2 and \
                        src(c.args[0]) == "self.args" and \
                        isinstance(c.args[1], ast.Constant):
                    name = c.args[1].value
                    reads.setdefault(name, (m, c))
                    p_ = parent(c)
                    if isinstance(p_, ast.BoolOp) and \
                            isinstance(p_.op, ast.And) and any(
                                src(v) == "self.args." + name
                                for v in p_.values):
                        truthy.add(name)
        for name, (m, c) in sorted(reads.items()):
            text = "{} reads args.{}".format(cls, name)
            if name in dests:
                chk.ok("C16-D20", m, c, text, "dest of {}".format(
                    "/".join(dests[name]["flags"])))
            else:
                chk.fail("C16-D20", m, c, text,
                         "no option of {} has the dest `{}` (argparse "
                         "derives it from the first long spelling): "
                         "hasattr() is False, the option is accepted on "
                         "the command line and silently ignored".format(
                             tool.replace("_", "-"), name))
        for name in sorted(truthy):
            if name not in dests:
                continue
            o = dests[name]
            d = o["kw"].get("default")
            text = "{}: default of {}".format(tool, "/".join(o["flags"]))
            if d is None or (isinstance(d, ast.Constant) and not d.value):
                chk.ok("C16-D21", fi, o["call"], text, "none: the "
                       "configuration file's [defaults] can apply")
            else:
                chk.fail("C16-D21", fi, o["call"], text,
                         "`default={}` makes the option look given on "
                         "every run: {} never consults [defaults] of the "
                         "--config file for it, so the tool merges with "
                         "another policy than the library does with the "
                         "same configuration".format(src(d), cls))
    if n19 < 10:
        raise AnalysisError("type= conversions found: {}".format(n19))


def d22_format_by_final_extension(chk: Check) -> None:
    """Whether a file is written as JSON is inferred from its *final*
    extension (`Path(name).suffix`): `settings.json.yaml` is a YAML file.
    Looking at every extension (`.suffixes`), or searching the name for
    `.json`, rewrites such a file as JSON -- dates become strings, tags,
    anchors and comments are lost -- with exit status 0.  yaml-set and the
    merger agree on this today."""
    prog = chk.prog
    chk.rule("C16-D22", "the output format is inferred from Path(<name>)"
             ".suffix (the last extension) in yaml-set and in the merger",
             floor=2)
    n = 0
    for q in ("yaml_set.write_document_as_yaml", "Merger.prepare_for_dump"):
        fi = prog.func(q)
        uses = [a for a in walk_local(fi.node) if isinstance(a, ast.Attribute)
                and a.attr in ("suffix", "suffixes", "name", "stem") and
                isinstance(a.value, ast.Call) and
                src(a.value.func) in ("Path", "PurePath")]
        texty = [c for c in walk_local(fi.node) if isinstance(c, ast.Compare)
                 and any(isinstance(x, ast.Constant) and x.value == ".json"
                         for x in ast.walk(c))]
        if not texty:
            raise AnalysisError(q + ": extension test not found")
        n += 1
        text = "{}: extension test".format(fi.short)
        if uses and all(u.attr == "suffix" for u in uses) and all(
                isinstance(c.ops[0], (ast.Eq, ast.NotEq, ast.In, ast.NotIn))
                for c in texty):
            chk.ok("C16-D22", fi, uses[0], text, "Path(...).suffix")
        else:
            chk.fail("C16-D22", fi, (uses or texty)[0], text,
                     "the test does not look at the final extension alone "
                     "(`{}`): a YAML file with `.json` elsewhere in its "
                     "name (`package.json.yml`) is rewritten as JSON"
                     .format(src((uses or texty)[0])[:50]))


def d23_logger_reads_live_options(chk: Check) -> None:
    """Every tool builds its ConsolePrinter first and validates its
    arguments afterwards; validation *sets* `args.quiet = True` when the
    result document goes to STDOUT, so that no log line can land in the
    middle of it.  That only works because the printer tests the live
    `self.args.quiet` each time.  A copy of the flags taken in `__init__`
    is stale by the time anything is printed: WARNING lines appear in
    front of the merged document."""
    prog = chk.prog
    chk.rule("C16-D23", "the printing methods of ConsolePrinter test "
             "self.args.<flag> (the live options); __init__ takes no copy "
             "of quiet / verbose / debug", floor=4)
    ci = prog.class_by_name("ConsolePrinter")
    init = ci.methods["__init__"]
    args = init.params()[1]
    copies = [a for a in walk_local(init.node)
              if isinstance(a, (ast.Assign, ast.AnnAssign)) and
              a.value is not None and any(
                  (isinstance(x, ast.Attribute) and src(x.value) == args and
                   x.attr in ("quiet", "verbose", "debug")) or
                  (isinstance(x, ast.Call) and src(x.func) == "getattr" and
                   x.args and src(x.args[0]) == args and len(x.args) > 1 and
                   isinstance(x.args[1], ast.Constant) and
                   x.args[1].value in ("quiet", "verbose", "debug"))
                  for x in ast.walk(a.value))]
    if copies:
        chk.fail("C16-D23", init, copies[0], "ConsolePrinter.__init__: {}"
                 .format(src(copies[0])[:50]),
                 "the flag is copied when the printer is built; the tools "
                 "set args.quiet later (document on STDOUT), which the "
                 "printer then never sees")
    else:
        chk.ok("C16-D23", init, init.node, "ConsolePrinter.__init__",
               "keeps the options object only")
    for name in ("info", "verbose", "warning", "debug"):
        m = ci.methods.get(name)
        if m is None:
            continue
        tests = [t for t in walk_local(m.node) if isinstance(t, ast.If)]
        live = any("self.args.quiet" in src(t.test) for t in tests)
        text = "ConsolePrinter.{}: quiet test".format(name)
        if live:
            chk.ok("C16-D23", m, tests[0], text, "self.args.quiet")
        else:
            chk.fail("C16-D23", m, m.node, text,
                     "the method does not consult the live quiet flag")


def d24_strict_decoding(chk: Check) -> None:
    """A file that is not valid UTF-8 is an unreadable input: every tool
    refuses it with a non-zero status and leaves it alone (yaml-validate:
    exit 2).  `open(..., errors='replace')` makes such a file "load" with
    U+FFFD in place of the bad bytes: yaml-validate exits 0, yaml-get
    prints an invented value, yaml-set rewrites the file with unrelated
    values corrupted -- and the same bytes on STDIN are still refused."""
    prog = chk.prog
    chk.rule("C16-D24", "the loaders open their input with strict decoding "
             "(no errors= other than 'strict' on open())", floor=2)
    n = 0
    for fi in prog.funcs_in("yamlpath/common/parsers.py"):
        for c in walk_local(fi.node):
            if not (isinstance(c, ast.Call) and src(c.func) == "open"):
                continue
            n += 1
            kw = {k.arg: k.value for k in c.keywords if k.arg}
            e = kw.get("errors")
            text = "{}: {}".format(fi.short, src(c)[:60])
            if e is None or (isinstance(e, ast.Constant) and
                             e.value == "strict"):
                chk.ok("C16-D24", fi, c, text, "strict")
            else:
                chk.fail("C16-D24", fi, c, text,
                         "undecodable bytes are replaced instead of "
                         "refused: a damaged or Latin-1 file is accepted "
                         "as valid, and a rewrite stores the replacement "
                         "characters")
    if n < 2:
        raise AnalysisError("open() calls of the loaders: {}".format(n))


def d17b_merge_needs_a_left_side(chk: Check) -> None:
    """merge_docs() folds the documents of one more source into the
    left-hand list it is given and takes element [0] of that list in
    condense mode.  yaml-merge's main() therefore calls it only once there
    *is* a left-hand side: under the negation of the same emptiness test
    that makes it load the first source.  This matters for the trailing
    STDIN step too -- with no YAML_FILE at all (`cat x.yaml | yaml-merge`,
    which validateargs allows) STDIN is the left-hand side, not something
    to merge into an empty list."""
    prog = chk.prog
    chk.rule("C16-D17b", "every call of merge_docs in yaml-merge's main() "
             "stands under the negation of the 'no left-hand documents "
             "yet' test on the list it passes", floor=2)
    fi = prog.func("yaml_merge.main")
    n = 0
    for c in walk_local(fi.node):
        if not (isinstance(c, ast.Call) and src(c.func) == "merge_docs"):
            continue
        n += 1
        lst = src(c.args[3]) if len(c.args) > 3 else None
        text = "main: {}".format(src(c)[:60])
        ok = lst is not None and any(
            f.kind == "cond" and (
                (not f.pol and src(f.expr).replace(" ", "") in (
                    "len({})<1".format(lst), "len({})==0".format(lst),
                    "not{}".format(lst))) or
                (f.pol and src(f.expr).replace(" ", "") in (
                    "len({})>0".format(lst), "len({})>=1".format(lst), lst)))
            for f in facts_at(c))
        if ok:
            chk.ok("C16-D17b", fi, c, text, "`{}` is not empty here".format(
                lst))
        else:
            chk.fail("C16-D17b", fi, c, text,
                     "nothing establishes that `{}` holds a left-hand "
                     "document at this call: with no YAML_FILE named the "
                     "list is empty and the merge ends in IndexError "
                     "(`lhs_docs[0]`) instead of taking STDIN as the "
                     "left-hand side".format(lst))
    if n < 2:
        raise AnalysisError("merge_docs calls in main(): {}".format(n))


LOADER_STAGES = {
    # stage of ruamel.yaml's load pipeline -> the exception it raises
    "decoding the file": "UnicodeDecodeError",
    "reader (unacceptable characters, undecodable STDIN)": "ReaderError",
    "scanner": "ScannerError",
    "parser": "ParserError",
    "composer": "ComposerError",
    "constructor": "ConstructorError",
}


def d25_every_load_stage_is_trapped(chk: Check) -> None:
    """The loaders turn ruamel.yaml's failures into a logged message and a
    "not loaded" result; the tools' exit codes are built on that
    (yaml-validate: "is invalid", exit 2).  Each stage of the load pipeline
    has its own exception class, and a stage that is not trapped ends every
    tool in a traceback instead: a control character in the file (reader)
    or bytes that are not UTF-8 (decoding)."""
    prog = chk.prog
    chk.rule("C16-D25", "both loaders have a handler for the exception of "
             "every stage of the load pipeline (decoding, reader, scanner, "
             "parser, composer, constructor)", floor=12)
    for name in ("Parsers.get_yaml_data", "Parsers.get_yaml_multidoc_data"):
        fi = prog.func(name)
        trapped = set()
        for h in walk_local(fi.node):
            if isinstance(h, ast.ExceptHandler) and h.type is not None:
                ts = h.type.elts if isinstance(h.type, ast.Tuple) \
                    else [h.type]
                trapped |= {src(t).split(".")[-1] for t in ts}
        for stage, exc in LOADER_STAGES.items():
            text = "{}: {}".format(fi.short, stage)
            if exc in trapped or "Exception" in trapped or \
                    "YAMLError" in trapped and exc != "UnicodeDecodeError":
                chk.ok("C16-D25", fi, fi.node, text, exc + " trapped")
            else:
                chk.fail("C16-D25", fi, fi.node, text,
                         "{} is not trapped: a document that fails at this "
                         "stage ends the tool in a traceback (exit 1) "
                         "instead of the logged error and the tool's own "
                         "failure status".format(exc))


def d26_scalar_printed_with_line_breaks_marked(chk: Check) -> None:
    """yaml-get prints one line per matched scalar; a line break inside the
    value is shown as the two characters backslash-n -- every one of them,
    including a trailing one, and nothing else is touched.  `splitlines()`
    looks like the same thing but drops a final line break (so `|` and
    `|-` print alike), collapses CR-LF and also splits at VT, FF, FS..RS,
    NEL, LS and PS."""
    prog = chk.prog
    chk.rule("C16-D26", "the scalar print of yaml-get rewrites str(node) "
             "only by .replace(<line break>, <backslash n>)", floor=1)
    fi = prog.func("yaml_get.main")
    prints = [c for c in walk_local(fi.node) if isinstance(c, ast.Call) and
              src(c.func) == "print" and c.args and
              "json.dumps" not in src(c)]
    cand = [c for c in prints if "str(" in src(c)]
    if not cand:
        raise AnalysisError("scalar print of yaml-get not found")
    for c in cand:
        methods = [m for m in ast.walk(c) if isinstance(m, ast.Call) and
                   isinstance(m.func, ast.Attribute) and
                   m.func.attr not in ("format",)]
        bad = [m for m in methods if not (
            m.func.attr == "replace" and len(m.args) == 2 and
            isinstance(m.args[0], ast.Constant) and m.args[0].value == "\n"
            and isinstance(m.args[1], ast.Constant) and
            m.args[1].value == "\\n")]
        text = "yaml-get: {}".format(src(c)[:60])
        if bad:
            chk.fail("C16-D26", fi, bad[0], text,
                     "the text of the scalar goes through `.{}()`: more "
                     "than the line breaks is rewritten (a trailing line "
                     "break vanishes, other Unicode line boundaries are "
                     "turned into \\n)".format(bad[0].func.attr))
        else:
            chk.ok("C16-D26", fi, c, text, "line breaks only")


def d28_json_output_is_ascii_safe(chk: Check, funcs) -> None:
    """The tools load JSON through the YAML parser, which decodes every
    `\\uXXXX` escape on its own: a character outside the BMP written as a
    surrogate pair arrives as two lone surrogates.  json.dump's default
    (ensure_ascii) writes them back as escapes, so the data survive.  With
    `ensure_ascii=False` the text layer must encode them and raises
    UnicodeEncodeError -- after the target was truncated: the file is left
    half-written and the tool exits non-zero on data it read without
    complaint."""
    chk.rule("C16-D28", "no JSON writer of the tools switches ensure_ascii "
             "off", floor=6)
    n = 0
    for fi in funcs:
        for c in walk_local(fi.node):
            if not (isinstance(c, ast.Call) and
                    src(c.func) in ("json.dump", "json.dumps")):
                continue
            n += 1
            off = [k for k in c.keywords if k.arg == "ensure_ascii" and not (
                isinstance(k.value, ast.Constant) and k.value.value is True)]
            star = [k for k in c.keywords if k.arg is None]
            text = "{}: {}".format(fi.short, src(c)[:60])
            if off or star:
                chk.fail("C16-D28", fi, c, text,
                         "the JSON text is written unescaped: lone "
                         "surrogates (how this tool chain itself holds "
                         "emoji read from JSON) cannot be encoded, the "
                         "write dies half-way through the already "
                         "truncated file")
            else:
                chk.ok("C16-D28", fi, c, text, "ASCII-safe escapes")
    if n < 6:
        raise AnalysisError("JSON writers of the tools: {}".format(n))


def d27_status_functions_return_on_every_path(chk: Check,
                                              funcs: List[FuncInfo]) -> None:
    """A helper whose result is an exit status returns one on *every*
    path.  Falling off the end returns None: `None != 0` is true, so the
    caller records it over an earlier failure code, `None == 0` is false,
    so follow-up steps gated on success are skipped, and `sys.exit(None)`
    exits 0 -- `yaml-validate bad.yaml good.yaml` reports success."""
    from sa.guards import terminates
    chk.rule("C16-D27", "a tool function that returns a value somewhere "
             "returns (or raises / exits) at the end of every path",
             floor=20)
    n = 0
    for fi in funcs:
        if any(isinstance(y, (ast.Yield, ast.YieldFrom))
               for y in walk_local(fi.node)):
            continue
        valued = [r for r in walk_local(fi.node) if isinstance(r, ast.Return)
                  and r.value is not None and src(r.value) != "None"]
        if not valued:
            continue
        n += 1
        body = [st for st in fi.node.body]
        if terminates(body) or (body and isinstance(body[-1], ast.Expr) and
                                isinstance(body[-1].value, ast.Call) and
                                src(body[-1].value.func) in ("sys.exit",
                                                             "exit")):
            chk.ok("C16-D27", fi, fi.node, fi.short, "no implicit None",
                   False)
        else:
            chk.fail("C16-D27", fi, valued[-1], "{}: falls off the end"
                     .format(fi.short),
                     "some path through {} reaches the end of the function "
                     "without a return: the caller gets None where it "
                     "expects a status (None != 0, yet sys.exit(None) is "
                     "exit status 0)".format(fi.short))
    if n < 20:
        raise AnalysisError("value-returning tool functions: {}".format(n))


def d17_loaded_means_a_document(chk: Check) -> None:
    """yaml-merge takes element [0] of its document lists (the prime
    left-hand document, the document whose type decides the output format).
    That is safe only because a successfully loaded source always
    contributes at least one document -- an empty file holds no YAML
    document at all, so the loader loop appends nothing for it.  The
    routine that builds the list therefore ends by turning "loaded, but no
    document" into one empty document (or into a failure)."""
    prog = chk.prog
    chk.rule("C16-D17", "get_doc_mergers never reports success with an "
             "empty list: an emptiness test on the list, followed by an "
             "append or a failure, precedes the final return", floor=1)
    fi = prog.func("yaml_merge.get_doc_mergers")
    rets = [r for r in fi.node.body if isinstance(r, ast.Return)]
    if len(rets) != 1 or not (isinstance(rets[0].value, ast.Tuple) and
                              len(rets[0].value.elts) == 2):
        raise AnalysisError("final return of get_doc_mergers not found")
    lst, flag = [src(e) for e in rets[0].value.elts]
    subs = []
    for q in ("yaml_merge.merge_condense_all", "yaml_merge.write_output_"
              "document"):
        f2 = prog.func(q)
        subs += [x for x in walk_local(f2.node)
                 if isinstance(x, ast.Subscript) and src(x.slice) == "0"
                 and isinstance(x.value, ast.Name)
                 and x.value.id in f2.params()]
    if not subs:
        raise AnalysisError("consumers taking element [0] not found")
    ok = None
    for st in fi.node.body:
        if not isinstance(st, ast.If):
            continue
        t = src(st.test).replace(" ", "")
        empt = any(p_ in t for p_ in (
            "len({})<1".format(lst), "len({})==0".format(lst),
            "not{}".format(lst), "notlen({})".format(lst)))
        acts = any(isinstance(c, ast.Call) and
                   src(c.func) == lst + ".append"
                   for b in st.body for c in ast.walk(b)) or any(
            isinstance(a, ast.Assign) and src(a.targets[0]) == flag and
            src(a.value) == "False" for b in st.body for a in ast.walk(b))
        if empt and acts and st.lineno < rets[0].lineno:
            ok = st
    text = "return ({}, {})".format(lst, flag)
    if ok is not None:
        chk.ok("C16-D17", fi, ok, text,
               "`{}` makes the list non-empty (or the load a failure); {} "
               "consumer(s) take element [0]".format(src(ok.test),
                                                    len(subs)))
    else:
        chk.fail("C16-D17", fi, rets[0], text,
                 "a source that loads but holds no document (an empty "
                 "file) yields ([], True): merge_condense_all / "
                 "write_output_document then take element [0] of an empty "
                 "list and yaml-merge ends in an IndexError traceback")


def run(chk: Check) -> None:
    prog = chk.prog
    funcs = cli_functions(prog)
    if len(funcs) < 40:
        raise AnalysisError("CLI function set shrank to {}".format(
            len(funcs)))
    model = CliModel(prog)
    d1_sticky(chk, model, funcs)
    d1_handlers(chk, model, funcs)
    d2_tables(chk, model)
    d3_loaders(chk)
    d3b_same_documents_per_arm(chk)
    d4_d5(chk, model)
    d5_ladders(chk)
    d6_every_document(chk, funcs)
    d8_loaded_documents(chk, funcs)
    d9_diff_sides(chk)
    d10_twin_arms(chk)
    d11_value_as_supplied(chk)
    d15_alias_option_table(chk)
    d17_loaded_means_a_document(chk)
    d17b_merge_needs_a_left_side(chk)
    d18_filters_restored_before_handing_out(chk)
    d19_option_tables(chk)
    d22_format_by_final_extension(chk)
    d23_logger_reads_live_options(chk)
    d24_strict_decoding(chk)
    d25_every_load_stage_is_trapped(chk)
    d26_scalar_printed_with_line_breaks_marked(chk)
    d27_status_functions_return_on_every_path(chk, funcs)
    d28_json_output_is_ascii_safe(chk, funcs)
    from rules.shared import shared_state_rule
    shared_state_rule(chk, "C16-D12", sorted({f.module.relpath
                                          for f in funcs}), 40)
    from rules.shared import keyword_coupling_rule
    keyword_coupling_rule(chk, "C16-D13", sorted({f.module.relpath
                                              for f in funcs}), 10)
    from rules.shared import shared_dest_defaults_rule
    shared_dest_defaults_rule(chk, "C16-D14", sorted({f.module.relpath
                                                  for f in funcs}), 1)
    from rules.shared import loop_shadowing_rule
    loop_shadowing_rule(chk, "C16-D16", sorted({f.module.relpath
                                            for f in funcs}), 40)
