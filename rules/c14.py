"""C14 -- parsing any text ends in segments or a YAML Path error.

Decided clauses (DESIGN.md section 4, C14):
  D1  stack discipline of the two hand-written character parsers
      (depth typestate: every pop / top read needs depth >= 1);
  D2  exception escape of the parsing / stringifying closure: explicit raises
      are of the YAMLPathException family, every partial operation is
      discharged by a guard or handler;
  D3  termination: no ``while`` in the closure, ``for`` loops iterate over
      values that their bodies do not mutate, no recursion cycle.
"""
from __future__ import annotations

import ast
from typing import Dict, List, Optional, Set

from sa import partial
from sa.guards import assigned_names, facts_at, root_name
from sa.model import (AnalysisError, FuncInfo, Program, ancestors, callees,
                      closure, parent,
                      src, walk_local)
from sa.report import Check
from sa.stackstate import StackAnalysis, bool_flags, find_stacks

META = {
    "explanation": (
        "Static decision of C14 from the AST of /repo/yamlpath: (D1) a "
        "path-sensitive abstract interpretation of YAMLPath._parse_path and "
        "SearchKeywordTerms.parameters over (stack-depth lower bound, depth "
        "mirror offset, boolean flags) proves every demarcation-stack pop / "
        "top read is reached only with depth >= 1; (D2) every explicit "
        "raise in the closure of YAMLPath's public API is of the "
        "YAMLPathException family and every partial operation (subscript, "
        "pop, int(), .index(), Enum[...]) is discharged by a dominating "
        "guard fact or an enclosing handler; (D3) the closure has no while "
        "loop, no for loop over a value its body mutates and no call cycle."
        "  Nothing is executed."),
    "declined": [
        "RecursionError/MemoryError on pathological input sizes (resource "
        "limits are not a property of code shape)",
        "that the produced segments are the *right* segments (C08)",
    ],
    "assumptions": [
        "library model of sa/partial.py (which builtin operations raise)",
        "str methods (split, replace, join, format, count, upper, lower, "
        "strip, startswith, endswith) never raise on str receivers",
        "deque()/deque.copy()/deque.append never raise",
    ],
    "trusted_base": partial.LIBRARY_MODEL,
}

API = [
    "YAMLPath.__init__", "YAMLPath.original", "YAMLPath.original.setter",
    "YAMLPath.separator", "YAMLPath.separator.setter", "YAMLPath.escaped",
    "YAMLPath.unescaped", "YAMLPath.__str__", "YAMLPath.__repr__",
    "YAMLPath.__eq__", "YAMLPath.__ne__", "YAMLPath.__add__",
    "YAMLPath.__len__", "YAMLPath.append", "YAMLPath.pop",
    "YAMLPath.is_root", "YAMLPath.strip_path_prefix",
    "YAMLPath.ensure_escaped", "YAMLPath.escape_path_section",
    "SearchTerms.__str__", "SearchKeywordTerms.__str__",
    "CollectorTerms.__str__", "PathSearchMethods.__str__",
    "PathSearchKeywords.__str__", "CollectorOperators.__str__",
    "PathSeparators.__str__", "PathSegmentTypes.__str__",
]

PARSERS = ["YAMLPath._parse_path", "SearchKeywordTerms.parameters"]


def family(prog: Program, qual_or_name: str) -> bool:
    return prog.is_subclass(qual_or_name, "YAMLPathException")


def raise_class(prog: Program, fi: FuncInfo, node: ast.Raise) -> Optional[str]:
    exc = node.exc
    if exc is None:
        return None
    if isinstance(exc, ast.Call):
        exc = exc.func
    q = prog.resolve_expr_to_qual(fi.module, exc)
    return q or src(exc)


def d1_stack(chk: Check) -> None:
    prog = chk.prog
    chk.rule("C14-D1",
             "every demarcation-stack pop()/top read is reached only with "
             "stack depth >= 1 (depth typestate over the parser loop)",
             floor=12)
    for name in PARSERS:
        fi = prog.func(name)
        chk.analysed(fi)
        stacks = find_stacks(fi)
        if not stacks:
            raise AnalysisError(
                "no push/pop stack local found in {}".format(name))
        for stack, mirror in stacks:
            flags: Set[str] = set()
            ana = StackAnalysis(fi, stack, mirror, flags)
            ana.run()
            if ana.violations:
                # flags that guard a failing site positively
                cand = bool_flags(fi)
                for node, _, _ in ana.violations:
                    for f in facts_at(node):
                        if f.kind == "cond" and f.pol and \
                                isinstance(f.expr, ast.Name) and \
                                f.expr.id in cand:
                            flags.add(f.expr.id)
                if flags:
                    ana = StackAnalysis(fi, stack, mirror, flags)
                    ana.run()
            for node, what in ana.checked:
                chk.ok("C14-D1", fi, node, src(node),
                       "{}: all reaching abstract states have depth >= 1 "
                       "(stack={}, mirror={}, flags={})".format(
                           what, stack, mirror, sorted(flags)))
            for node, st, what in ana.violations:
                facts = [repr(f) for f in facts_at(node) if f.kind == "cond"]
                chk.fail(
                    "C14-D1", fi, node,
                    "{} under [{}]".format(src(node), _branch_key(node)),
                    "{} on `{}` is reachable with an empty stack (abstract "
                    "state depth>=0, mirror offset {}); IndexError escapes "
                    "the parser instead of a YAMLPathException".format(
                        what, stack, st[2]),
                    {"guards_seen": facts[:12], "state": repr(st)})


def _branch_key(node: ast.AST) -> str:
    """Innermost enclosing if-test, as the stable identity of the site."""
    from sa.model import ancestors
    for anc in ancestors(node):
        if isinstance(anc, ast.If):
            return src(anc.test)
    return "-"


ENUM_LOOKUP_GUARD = "is_keyword"


def d2_escape(chk: Check, cl: List[FuncInfo]) -> None:
    prog = chk.prog
    chk.rule("C14-D2a",
             "every explicit raise in the parse/stringify closure is of the "
             "YAMLPathException family", floor=10)
    chk.rule("C14-D2b",
             "every partial operation in the closure is discharged by a "
             "guard fact, a handler or a checked invariant", floor=8)
    stack_vars: Dict[str, Set[str]] = {}
    for name in PARSERS:
        fi = prog.func(name)
        stack_vars[fi.qual] = {s for s, _ in find_stacks(fi)}
    for fi in cl:
        chk.analysed(fi)
        for n in walk_local(fi.node):
            if isinstance(n, ast.Raise):
                cls = raise_class(prog, fi, n)
                if cls is None:
                    # bare re-raise inside a handler: class of the handler
                    chk.ok("C14-D2a", fi, n, "raise", "re-raise", False)
                    continue
                if family(prog, cls):
                    chk.ok("C14-D2a", fi, n, src(n.exc)[:80],
                           "class {} is in the YAMLPathException family"
                           .format(cls.split(".")[-1]))
                else:
                    chk.fail("C14-D2a", fi, n,
                             "raise " + cls.split(".")[-1],
                             "raises {} which is not a YAMLPathException; "
                             "callers of the parser (CLI tools) catch only "
                             "the library family".format(cls))
            elif isinstance(n, ast.Assert):
                # an assert is a raise of AssertionError whenever its test
                # can be false -- and it states a belief the parser then
                # relies on; the library has none, so any is reported
                if any(f.kind == "cond" and f.pol and
                       src(f.expr) == src(n.test) for f in facts_at(n)):
                    chk.ok("C14-D2a", fi, n, "assert " + src(n.test)[:60],
                           "restates a dominating test; cannot fail")
                    continue
                chk.fail("C14-D2a", fi, n, "assert " + src(n.test)[:60],
                         "raises AssertionError (not a YAMLPathException) "
                         "for input that makes `{}` false; under -O the "
                         "statement vanishes and the code below runs with "
                         "the belief unchecked".format(src(n.test)[:60]))
        for site in partial.find_sites(fi):
            # stack accesses are D1's business
            if site.container is not None and \
                    isinstance(site.container, ast.Name) and \
                    site.container.id in stack_vars.get(fi.qual, set()):
                continue
            why = partial.discharge(site)
            if why is None:
                why = _special(chk, fi, site)
            if why:
                chk.ok("C14-D2b", fi, site.node, site.text, why)
            else:
                chk.fail(
                    "C14-D2b", fi, site.node,
                    "{} {}".format(site.kind, site.text),
                    "partial operation `{}` may raise {} and no dominating "
                    "guard, handler or invariant discharges it".format(
                        site.text, "/".join(site.exc)),
                    {"facts": [repr(f) for f in facts_at(site.node)][:12]})


def _segments_are_pairs(prog: Program) -> Optional[str]:
    """Checked shape invariant: every segment the parser records is a
    2-tuple (a literal pair, or the result of _expand_splats, all of whose
    returns are pairs)."""
    pf = prog.func("YAMLPath._parse_path")
    es = prog.func("YAMLPath._expand_splats")
    rets = [r for r in walk_local(es.node) if isinstance(r, ast.Return)]
    if not rets or not all(isinstance(r.value, ast.Tuple) and
                           len(r.value.elts) == 2 for r in rets):
        return None
    n = 0
    for c in walk_local(pf.node):
        if isinstance(c, ast.Call) and isinstance(c.func, ast.Attribute) and \
                c.func.attr == "append" and c.args and \
                isinstance(c.args[0], (ast.Tuple, ast.Call)):
            a = c.args[0]
            if isinstance(a, ast.Tuple):
                if len(a.elts) != 2:
                    return None
                n += 1
            elif src(a.func).endswith("_expand_splats"):
                n += 1
    if n < 8:
        return None
    return ("INV-SEGMENT-PAIR: all {} record sites of the parser append a "
            "(type, attributes) pair".format(n))


def _special(chk: Check, fi: FuncInfo, site: partial.Site) -> Optional[str]:
    """Idioms specific to this code base (each re-verified on every run)."""
    prog = chk.prog
    # element [0] / [1] of a segment taken out of a parsed-segment queue
    node = site.node
    if site.kind == "subscript" and isinstance(node, ast.Subscript) and \
            isinstance(node.slice, ast.Constant) and \
            node.slice.value in (0, 1) and isinstance(node.value, ast.Name):
        from sa.coords import reaching_def
        from sa.interproc import aliases, subst
        d = reaching_def(node.value.id, node)
        if isinstance(d, ast.Call) and isinstance(d.func, ast.Attribute) and \
                d.func.attr in ("pop", "popleft") and not d.args:
            q = subst(d.func.value, aliases(fi))
            if isinstance(q, ast.Name):
                qd = reaching_def(q.id, node)
                if qd is not None:
                    q = qd
            if isinstance(q, ast.Attribute) and \
                    q.attr in ("escaped", "unescaped"):
                inv = _segments_are_pairs(prog)
                if inv:
                    return inv
    # Enum[name.upper()] guarded by Enum.is_keyword(name)
    if site.kind == "subscript" and isinstance(site.container, ast.Name):
        q = prog.resolve_name(fi.module, site.container.id)
        if q in prog.classes and prog.is_enum(prog.classes[q]):
            return _enum_lookup(chk, fi, site, q)  # type: ignore[arg-type]
    return None


def enum_str_table(prog: Program, cls_name: str) -> Dict[str, str]:
    """member -> literal produced by the enum's ``__str__`` ladder."""
    from sa.peval import Enum, PEval
    ci = prog.class_by_name(cls_name)
    meth = ci.methods.get("__str__")
    if meth is None:
        raise AnalysisError(cls_name + " has no __str__")
    pe = PEval(enum_classes={ci.name})
    out: Dict[str, str] = {}
    for member in prog.enum_members(cls_name):
        res = pe.specialise(meth.node.body, {"self": Enum(ci.name, member)})
        env: Dict[str, str] = {}
        val: Optional[str] = None
        for stmt in res:
            if isinstance(stmt, (ast.Assign, ast.AnnAssign)):
                tgt = stmt.targets[0] if isinstance(stmt, ast.Assign) \
                    else stmt.target
                if isinstance(tgt, ast.Name) and \
                        isinstance(stmt.value, ast.Constant) and \
                        isinstance(stmt.value.value, str):
                    env[tgt.id] = stmt.value.value
            elif isinstance(stmt, ast.Return) and stmt.value is not None:
                if isinstance(stmt.value, ast.Constant) and \
                        isinstance(stmt.value.value, str):
                    val = stmt.value.value
                elif isinstance(stmt.value, ast.Name) and \
                        stmt.value.id in env:
                    val = env[stmt.value.id]
            elif isinstance(stmt, ast.If):
                val = None  # undecided ladder
                break
        if val is None:
            raise AnalysisError(
                "cannot extract {}.__str__ for member {}".format(
                    cls_name, member))
        out[member] = val
    return out


def _enum_lookup(chk: Check, fi: FuncInfo, site: partial.Site,
                 q: str) -> Optional[str]:
    prog = chk.prog
    ci = prog.classes[q]
    idx = site.index
    if not (isinstance(idx, ast.Call) and isinstance(idx.func, ast.Attribute)
            and idx.func.attr == "upper"):
        return None
    operand = src(idx.func.value)
    guard = None
    for f in facts_at(site.node):
        e = f.expr
        if f.kind == "cond" and f.pol and isinstance(e, ast.Call) and \
                src(e.func) == "{}.{}".format(ci.name, ENUM_LOOKUP_GUARD) \
                and e.args and src(e.args[0]) == operand:
            guard = f
    if guard is None:
        return None
    # the guard must mean: operand in {str(m).lower() for m in members},
    # and every such text upper-cased must be a member name
    isk = prog.find_method(ci, ENUM_LOOKUP_GUARD)
    getk = prog.find_method(ci, "get_keywords")
    if isk is None or getk is None:
        return None
    rets = [n for n in walk_local(isk.node) if isinstance(n, ast.Return)]
    if len(rets) != 1 or src(rets[0].value).replace(" ", "") != \
            "{}in{}.get_keywords()".format(
                isk.params()[0], ci.name).replace(" ", ""):
        return None
    grets = [n for n in walk_local(getk.node) if isinstance(n, ast.Return)]
    if len(grets) != 1 or src(grets[0].value) != \
            "[str(o).lower() for o in {}]".format(ci.name):
        return None
    table = enum_str_table(prog, ci.name)
    names = set(prog.enum_members(ci.name))
    for m, text in table.items():
        if text.lower().upper() not in names:
            return None
    return ("guard `{}`; is_keyword tests membership in the __str__ table "
            "{} whose upper-cased texts are all member names".format(
                guard, sorted(table.values())))


def d3_termination(chk: Check, cl: List[FuncInfo]) -> None:
    prog = chk.prog
    chk.rule("C14-D3a", "no while loop in the parse/stringify closure "
             "(every loop is a for over a finite value)", floor=1)
    chk.rule("C14-D3b", "no for loop iterates over a value that its body "
             "mutates or re-binds", floor=5)
    chk.rule("C14-D3c", "the closure's call graph has no cycle", floor=1)
    whiles = 0
    for fi in cl:
        for n in walk_local(fi.node):
            if isinstance(n, ast.While):
                whiles += 1
                chk.fail("C14-D3a", fi, n, "while " + src(n.test),
                         "a while loop in the parser closure has no static "
                         "bound on its trip count")
            elif isinstance(n, ast.comprehension):
                # the loop of a comprehension: its "body" is an expression
                # and cannot re-bind or (short of a method call on the
                # iterated name) mutate what it ranges over
                it_root = root_name(n.iter)
                elt_calls = [c for c in ast.walk(parent(n))
                             if isinstance(c, ast.Call) and
                             isinstance(c.func, ast.Attribute) and
                             root_name(c.func.value) == it_root and
                             c.func.attr in ("append", "extend", "insert",
                                             "pop", "remove", "clear",
                                             "add", "update")]
                text = "comprehension for {} in {}".format(
                    src(n.target), src(n.iter)[:60])
                if it_root and elt_calls:
                    chk.fail("C14-D3b", fi, parent(n), text,
                             "the comprehension changes `{}`, the value it "
                             "ranges over".format(it_root))
                else:
                    chk.ok("C14-D3b", fi, parent(n), text,
                           "an expression loop over a value it does not "
                           "change")
            elif isinstance(n, (ast.For, ast.AsyncFor)):
                it_root = root_name(n.iter)
                muts: Set[str] = set()
                for s in n.body:
                    muts |= assigned_names(s)
                if it_root and it_root in muts and \
                        not isinstance(n.iter, ast.Call):
                    chk.fail("C14-D3b", fi, n,
                             "for {} in {}".format(src(n.target), src(n.iter)),
                             "loop body mutates or re-binds `{}`, the value "
                             "being iterated".format(it_root))
                else:
                    chk.ok("C14-D3b", fi, n,
                           "for {} in {}".format(src(n.target),
                                                 src(n.iter)[:60]),
                           "iterated value is not assigned or mutated in "
                           "the body")
    if whiles == 0:
        chk.ok("C14-D3a", None, None, "closure of {} functions".format(
            len(cl)), "no ast.While node present", False)
    # cycles
    graph: Dict[str, Set[str]] = {}
    quals = {f.qual for f in cl}
    for fi in cl:
        graph[fi.qual] = {c.qual for _, c in callees(prog, fi)
                          if c.qual in quals}
    cyc = _find_cycle(graph)
    if cyc:
        short = [q.split("yamlpath.")[-1] for q in cyc]
        chk.fail("C14-D3c", prog.functions[cyc[0]], None,
                 "cycle " + " -> ".join(sorted(set(short))),
                 "call cycle in the parser closure: " + " -> ".join(short))
    else:
        chk.ok("C14-D3c", None, None,
               "call graph of {} functions".format(len(cl)),
               "depth-first search found no back edge", False)


def _find_cycle(graph: Dict[str, Set[str]]) -> Optional[List[str]]:
    WHITE, GREY, BLACK = 0, 1, 2
    color = {n: WHITE for n in graph}
    stack: List[str] = []

    def dfs(n: str) -> Optional[List[str]]:
        color[n] = GREY
        stack.append(n)
        for m in sorted(graph.get(n, ())):
            if color.get(m, BLACK) == GREY:
                return stack[stack.index(m):] + [m]
            if color.get(m) == WHITE:
                r = dfs(m)
                if r:
                    return r
        stack.pop()
        color[n] = BLACK
        return None
    for n in sorted(graph):
        if color[n] == WHITE:
            r = dfs(n)
            if r:
                return r
    return None


def parse_closure(prog: Program) -> List[FuncInfo]:
    roots = [prog.func(n) for n in API if prog.has_func(n)]
    missing = [n for n in API[:16] if not prog.has_func(n)]
    if missing:
        raise AnalysisError("anchor functions missing: " + ", ".join(missing))
    cl = closure(prog, roots)
    return sorted(cl, key=lambda f: f.qual)


def _const_template(e: ast.AST) -> bool:
    if isinstance(e, ast.Constant) and isinstance(e.value, str):
        return True
    if isinstance(e, ast.BinOp) and isinstance(e.op, ast.Add):
        return _const_template(e.left) and _const_template(e.right)
    if isinstance(e, ast.JoinedStr):
        return all(isinstance(v, ast.Constant) for v in e.values)
    return False


def d2c_templates(chk: Check, cl: List[FuncInfo],
                  rid: str = "C14-D2c") -> None:
    """str.format() interprets braces in its *receiver*.  A receiver that
    already embeds run-time text (an f-string, a concatenation with a
    variable) makes format() raise ValueError / KeyError / IndexError for
    input containing `{` or `}` -- from inside the `raise` that was meant
    to report the input."""
    chk.rule(rid, "every .format() in the closure is applied to a constant "
             "template", floor=20)
    for fi in cl:
        for c in walk_local(fi.node):
            if isinstance(c, ast.JoinedStr) and not any(
                    isinstance(a, ast.JoinedStr) for a in ancestors(c)):
                # the same message written as an f-string: the braces of
                # the run-time text are never interpreted
                chk.ok(rid, fi, c, "{}: f-string {}".format(
                    fi.short, src(c)[:40]), "an f-string has no run-time "
                    "template", False)
                continue
            if not (isinstance(c, ast.Call) and
                    isinstance(c.func, ast.Attribute) and
                    c.func.attr == "format"):
                continue
            text = "{}: {}.format(...)".format(fi.short,
                                               src(c.func.value)[:40])
            if _const_template(c.func.value):
                chk.ok(rid, fi, c, text, "constant template", False)
            else:
                chk.fail(rid, fi, c, text,
                         "the template embeds run-time text: a `{` or `}` "
                         "in it makes format() itself raise, and that "
                         "exception is not a YAMLPathException")


def d6_typed_segments(chk: Check) -> None:
    """Every segment the parser records has a type.  The pending type is a
    variable that starts as None and is reset to None after each segment;
    an arm that records `(segment_type, text)` while it may still be None
    hands the evaluator a segment no handler exists for (it raises
    NotImplementedError), and the stringifier writes it as nothing."""
    prog = chk.prog
    chk.rule("C14-D6", "where the parser records a segment with the pending "
             "type variable, that variable cannot be None (an `is <member>` "
             "/ `is not None` fact, a refusing `is None` arm before it, or "
             "the default-to-KEY statement just before)", floor=7)
    fi = prog.func("YAMLPath._parse_path")
    tvar = None
    for a in walk_local(fi.node):
        if isinstance(a, ast.AnnAssign) and isinstance(a.target, ast.Name) \
                and "PathSegmentTypes" in src(a.annotation) and \
                isinstance(a.value, ast.Constant) and a.value.value is None:
            tvar = a.target.id
    if tvar is None:
        raise AnalysisError("pending segment type variable not found")

    def is_none_test(e: ast.AST) -> bool:
        return isinstance(e, ast.Compare) and len(e.ops) == 1 and \
            isinstance(e.ops[0], ast.Is) and src(e.left) == tvar and \
            src(e.comparators[0]) == "None"

    def excluded(site: ast.AST) -> Optional[str]:
        for f in facts_at(site):
            if f.kind != "cond":
                continue
            e, pol = f.expr, f.pol
            if is_none_test(e) and not pol:
                return "under `not ({} is None)`".format(tvar)
            if isinstance(e, ast.Compare) and len(e.ops) == 1 and \
                    src(e.left) == tvar and pol:
                if isinstance(e.ops[0], ast.IsNot) and \
                        src(e.comparators[0]) == "None":
                    return "under `{} is not None`".format(tvar)
                if isinstance(e.ops[0], (ast.Is, ast.Eq)) and \
                        src(e.comparators[0]).startswith(
                            "PathSegmentTypes."):
                    return "under `{}`".format(src(e))
        # `if T is None: T = <member>` as the statement before
        st = site
        while not isinstance(st, ast.stmt):
            st = parent(st)
        blk = parent(st)
        for field in ("body", "orelse", "finalbody"):
            body = getattr(blk, field, None)
            if isinstance(body, list) and st in body:
                i = body.index(st)
                if i > 0 and isinstance(body[i - 1], ast.If) and \
                        is_none_test(body[i - 1].test) and any(
                            isinstance(x, ast.Assign) and
                            src(x.targets[0]) == tvar and
                            src(x.value).startswith("PathSegmentTypes.")
                            for x in body[i - 1].body):
                    return "defaulted to {} just before".format(
                        src(body[i - 1].body[0].value))  # type: ignore
        return None

    n = 0
    for c in walk_local(fi.node):
        if not isinstance(c, ast.Call):
            continue
        uses = None
        if isinstance(c.func, ast.Attribute) and c.func.attr == "append" \
                and c.args and isinstance(c.args[0], ast.Tuple) and \
                len(c.args[0].elts) == 2 and \
                src(c.args[0].elts[0]) == tvar:
            uses = "record ({}, {})".format(tvar, src(c.args[0].elts[1])[:30])
        elif src(c.func).endswith("_expand_splats") and any(
                src(a) == tvar for a in c.args):
            uses = "record _expand_splats(..., {})".format(tvar)
        if uses is None:
            continue
        n += 1
        why = excluded(c)
        if why is None and "CollectorTerms(" in uses:
            # the one site not decided by a local fact: a Collector is
            # recorded when its closing parenthesis brings the nesting
            # level back to 0; the arm that raises the level assigns the
            # type.  Checked: that arm exists and assigns a member.
            for arm in walk_local(fi.node):
                if isinstance(arm, ast.If) and any(
                        isinstance(x, ast.AugAssign) and
                        isinstance(x.op, ast.Add) and
                        "collector" in src(x.target) for x in arm.body) \
                        and any(isinstance(x, ast.Assign) and
                                src(x.targets[0]) == tvar and
                                src(x.value).startswith("PathSegmentTypes.")
                                for x in arm.body):
                    why = ("the arm that opens a Collector (raises the "
                           "nesting level) assigns {} a member; no local "
                           "fact needed".format(tvar))
        if why:
            chk.ok("C14-D6", fi, c, uses, why)
        else:
            chk.fail("C14-D6", fi, c, uses,
                     "`{}` may still be None here (it is reset after every "
                     "segment and after a Collector closes): the parser "
                     "accepts text such as `[(a)]` and records a segment "
                     "without a type, which get_nodes() answers with "
                     "NotImplementedError".format(tvar))
    if n < 7:
        raise AnalysisError("typed record sites of the parser: {}".format(n))


def d6b_final_store_takes_text_kinds(chk: Check) -> None:
    """When the text ends, whatever has been accumulated is recorded as one
    last segment under the pending type.  That is right for a KEY (or
    nothing pending) and an ANCHOR, whose attributes are text.  The
    bracketed kinds get their attributes as objects from the arm that sees
    the closing `]`; if the text ends before that -- `[min(])` leaves
    KEYWORD_SEARCH pending with the text `]` -- the final store must refuse,
    or the evaluator meets a keyword segment with text attributes
    (NotImplementedError)."""
    from sa.peval import Enum, PEval
    prog = chk.prog
    chk.rule("C14-D6b", "the final store after the character loop refuses "
             "a pending KEYWORD_SEARCH (whose attributes must be a terms "
             "object) and accepts KEY and ANCHOR (the statement before it, "
             "specialised per member)", floor=3)
    fi = prog.func("YAMLPath._parse_path")
    site = None
    for st in fi.node.body:
        if isinstance(st, ast.If) and not any(
                isinstance(a, (ast.For, ast.While)) for a in ast.walk(st)):
            for b in st.body:
                for c in ast.walk(b):
                    if isinstance(c, ast.Call) and \
                            src(c.func).endswith("_expand_splats"):
                        site = (st, c)
    if site is None:
        raise AnalysisError("final store of the parser not found")
    outer, call = site
    tvar = src(call.args[-1])
    pre = []
    for b in outer.body:
        if any(c is call for c in ast.walk(b)):
            break
        pre.append(b)
    pe = PEval(enum_classes={"PathSegmentTypes"})
    # SEARCH / INDEX / COLLECTOR cannot be pending here: their opening mark
    # is still on the demarcation stack and the balance check above has
    # refused the text.  A keyword's parenthesis can be closed by `)` after
    # a stray `]` has popped the bracket, so KEYWORD_SEARCH can.
    for member, refused in (("KEYWORD_SEARCH", True),
                            ("KEY", False), ("ANCHOR", False)):
        res = pe.specialise(pre, {tvar: Enum("PathSegmentTypes", member)},
                            pinned=[tvar])
        raises = any(isinstance(x, ast.Raise) for r in res
                     for x in ast.walk(r))
        text = "text ends with {} pending".format(member)
        if raises == refused:
            chk.ok("C14-D6b", fi, call, text,
                   "refused" if refused else "recorded")
        elif refused:
            chk.fail("C14-D6b", fi, call, text,
                     "the accumulated text is recorded as a {} segment "
                     "with plain text attributes (`[min(])` -> "
                     "(KEYWORD_SEARCH, ']')): get_nodes() answers with "
                     "NotImplementedError / AttributeError instead of a "
                     "YAML Path error".format(member))
        else:
            chk.fail("C14-D6b", fi, call, text,
                     "a path ending in a {} segment is refused".format(
                         member))


def d8_exceptions_are_constructible(chk: Check, cl: List[FuncInfo]) -> None:
    """`raise YAMLPathException(message, yaml_path)`: the constructor takes
    the message *and* the path.  A slipped parenthesis --
    `"...{} in".format(op, yaml_path))` -- hands the path to .format() and
    builds the exception with one argument, so what escapes is a TypeError
    from the constructor, not the YAML Path error that was meant.  Such a
    raise sits on a path no test visits (it is an error path by nature)."""
    prog = chk.prog
    chk.rule("C14-D8", "every raise of a library exception in the closure "
             "gives the constructor at least its required arguments, and "
             "every constructed library exception is raised (not returned)",
             floor=10)
    n = 0
    for fi in cl:
        for r in walk_local(fi.node):
            call = None
            if isinstance(r, ast.Raise) and isinstance(r.exc, ast.Call):
                call = r.exc
            elif isinstance(r, ast.Return) and isinstance(r.value, ast.Call) \
                    and src(r.value.func).endswith("Exception"):
                chk.fail("C14-D8", fi, r, "{}: `{}`".format(
                    fi.short, src(r)[:50]),
                    "the exception object is *returned*: the caller "
                    "receives it in place of the segment list and fails "
                    "with AttributeError on the first use")
                n += 1
                continue
            if call is None:
                continue
            cname = src(call.func).split(".")[-1]
            if not prog.has_class(cname):
                continue
            ci = prog.class_by_name(cname)
            init = prog.find_method(ci, "__init__")
            if init is None:
                continue
            a = init.node.args
            pos = [x.arg for x in a.posonlyargs + a.args][1:]
            required = pos[:len(pos) - len(a.defaults)]
            if any(isinstance(x, ast.Starred) for x in call.args) or any(
                    k.arg is None for k in call.keywords):
                continue
            given = len(call.args) + sum(1 for k in call.keywords
                                         if k.arg in required)
            n += 1
            text = "{}: raise {}({} argument(s))".format(
                fi.short, cname, len(call.args) + len(call.keywords))
            if given >= len(required):
                chk.ok("C14-D8", fi, r, text, "needs {}".format(
                    len(required)), False)
            else:
                chk.fail("C14-D8", fi, r, text,
                         "{}.__init__ requires {}: this raise ends in "
                         "TypeError (missing positional argument) instead "
                         "of the library's exception".format(cname,
                                                              required))
    if n < 10:
        raise AnalysisError("library raises in the closure: {}".format(n))


def d9_expected_character_is_unescaped(chk: Check) -> None:
    """After a Search Keyword's closing parenthesis the parser expects one
    particular character next (`]`), and after a Collector operator `(`.
    The expectation is met by that character *as syntax*.  An escaped
    character is text: if `\\]` clears the expectation, the real bracket
    stays open, the following `)` pops it, and the keyword's type remains
    pending while arbitrary text is recorded under it -- `[max(a)\\])\\].b`
    yields (KEYWORD_SEARCH, 'a]]') with text attributes."""
    from rules.c02 import parser_roles
    prog = chk.prog
    chk.rule("C14-D9", "the parser clears its 'next character must be' "
             "expectation only for an unescaped character", floor=1)
    roles = parser_roles(prog)
    fi, char, loop = roles["fi"], roles["char"], roles["loop"]
    first = next((st for st in loop.body if isinstance(st, ast.If) and
                  isinstance(st.test, ast.Name)), None)
    for st in loop.body:
        if isinstance(st, ast.If) and isinstance(st.test, ast.Name) and \
                any(isinstance(a, ast.Assign) and src(a.targets[0]) ==
                    st.test.id and src(a.value) == "False" for a in st.body):
            first = st
            break
    if first is None:
        raise AnalysisError("escape flag of the parser not found")
    esc = first.test.id          # type: ignore[attr-defined]
    n = 0
    for st in walk_local(loop):
        if not isinstance(st, ast.If):
            continue
        clears = [a for a in st.body if isinstance(a, ast.Assign) and
                  isinstance(a.value, ast.Constant) and a.value.value is None]
        if not clears:
            continue
        must = src(clears[0].targets[0])
        t = src(st.test).replace(" ", "")
        if "{}=={}".format(char, must) not in t:
            continue
        n += 1
        text = "if {}: {} = None".format(src(st.test)[:50], must)
        conj = st.test.values if isinstance(st.test, ast.BoolOp) and \
            isinstance(st.test.op, ast.And) else [st.test]
        if any(src(v).replace(" ", "") == "not" + esc for v in conj):
            chk.ok("C14-D9", fi, st, text, "only when not " + esc)
        else:
            chk.fail("C14-D9", fi, st, text,
                     "an escaped `{}`-character satisfies the expectation "
                     "although it is recorded as text: the demarcation it "
                     "should have closed stays open and a later character "
                     "closes the wrong one, leaving a bracketed segment "
                     "type pending over ordinary text".format(must))
    if n < 1:
        raise AnalysisError("expectation-clearing statement not found")


def d10_membership_in_real_containers(chk: Check, cl: List[FuncInfo]) -> None:
    """`x in (A)` is `x in A`: parentheses alone make no tuple.  With an
    enum member (or a number, None) on the right, `in` raises TypeError --
    on the paths that reach it, which for a new validation in the parser
    are exactly the inputs it was written for."""
    chk.rule("C14-D10", "the right operand of every in / not in of the "
             "closure is a container expression, never a bare enum member "
             "or constant scalar", floor=10)
    prog = chk.prog
    n = 0
    for fi in cl:
        for c in walk_local(fi.node):
            if not (isinstance(c, ast.Compare) and any(
                    isinstance(o, (ast.In, ast.NotIn)) for o in c.ops)):
                continue
            for op, right in zip(c.ops, c.comparators):
                if not isinstance(op, (ast.In, ast.NotIn)):
                    continue
                n += 1
                bad = False
                if isinstance(right, ast.Attribute) and \
                        isinstance(right.value, ast.Name) and \
                        prog.has_class(right.value.id) and \
                        prog.is_enum(prog.class_by_name(right.value.id)):
                    bad = True
                if isinstance(right, ast.Constant) and not isinstance(
                        right.value, (str, bytes)):
                    bad = True
                text = "{}: `{}`".format(fi.short, src(c)[:50])
                if bad:
                    chk.fail("C14-D10", fi, c, text,
                             "`{}` is not a container (a one-element tuple "
                             "needs its comma): the membership test raises "
                             "TypeError whenever it is reached".format(
                                 src(right)))
                else:
                    chk.ok("C14-D10", fi, c, text, "container", False)
    if n < 10:
        raise AnalysisError("membership tests in the closure: {}".format(n))


def d7_attrs_become_text_by_conversion(chk: Check) -> None:
    """The attributes of a segment are text, an int (INDEX), or one of the
    terms objects (SearchTerms, CollectorTerms, SearchKeywordTerms -- a
    Collector that starts with `&` is even recorded under the ANCHOR
    type).  The stringifier therefore turns them into text by conversion
    (`str()`, `.format()`, an f-string); joining them with `+` raises
    TypeError for every non-text attribute."""
    prog = chk.prog
    chk.rule("C14-D7", "the stringifier uses the attributes of a segment "
             "only through str() / format(), never as an operand of `+`",
             floor=5)
    fi = prog.func("YAMLPath._stringify_yamlpath_segments")
    loops = [n for n in fi.node.body if isinstance(n, ast.For) and
             isinstance(n.target, ast.Tuple) and len(n.target.elts) == 2]
    if len(loops) != 1:
        raise AnalysisError("stringifier loop not found")
    av = src(loops[0].target.elts[1])
    n = 0
    for u in ast.walk(loops[0]):
        if not (isinstance(u, ast.Name) and u.id == av and
                isinstance(u.ctx, ast.Load)):
            continue
        p_ = parent(u)
        n += 1
        text = "use of {} in `{}`".format(av, src(p_)[:50])
        if isinstance(p_, ast.BinOp) and isinstance(p_.op, ast.Add) or \
                isinstance(p_, ast.AugAssign) and \
                isinstance(p_.op, ast.Add) and p_.value is u:
            chk.fail("C14-D7", fi, p_, text,
                     "`{}` is not always text (int for INDEX, a terms "
                     "object for searches and for a Collector recorded "
                     "under another type such as `(&a)` after a separator): "
                     "`+` raises TypeError out of str(path)".format(av))
        else:
            chk.ok("C14-D7", fi, p_, text, "converted, not concatenated")
    if n < 5:
        raise AnalysisError("uses of the segment attributes in the "
                            "stringifier: {}".format(n))


def run(chk: Check) -> None:
    prog = chk.prog
    cl = parse_closure(prog)
    d1_stack(chk)
    d2_escape(chk, cl)
    d2c_templates(chk, cl)
    d3_termination(chk, cl)
    d6_typed_segments(chk)
    d6b_final_store_takes_text_kinds(chk)
    d7_attrs_become_text_by_conversion(chk)
    d8_exceptions_are_constructible(chk, cl)
    d9_expected_character_is_unescaped(chk)
    d10_membership_in_real_containers(chk, cl)
    from rules.shared import match_result_deref_rule
    match_result_deref_rule(chk, "C14-D11", cl, floor=20)
    chk.notes.append("closure: {} functions".format(len(cl)))
