"""C06 -- a diff is truthful and complete.

Decided clauses (DESIGN.md section 4, C06 and appendix A.6):
  D1  entry truthfulness at construction (shape of every DiffEntry site:
      ADD (None, x), DELETE (x, None), SAME/CHANGE (a, b) under a == b /
      a != b; path names the element's own key or index);
  D2  type dispatch of _diff_between (16 kind pairs by partial evaluation);
  D3  mode tables of the array / Array-of-Hashes comparers;
  D4  absent-vs-null: pairing routines never use a document value as their
      "absent" marker;
  D5  both sides examined when a comparer branches on one side's emptiness;
  D6  exit status (shared with C16-D2b) and the DifferConfig ladders.
"""
from __future__ import annotations

import ast
from typing import Any, Dict, List, Optional, Set, Tuple

from rules import c05, c16
from sa.cli import CliModel
from sa.coords import (derive, loop_binding, parse_segment, reaching_def,
                       resolve, same_value)
from sa.guards import facts_at
from sa.model import (AnalysisError, FuncInfo, Program, ancestors, parent,
                      src, walk_local)
from sa.peval import Const, Enum, Kind, PEval, show
from sa.report import Check

META = {
    "explanation": (
        "Static decision over differ.py: every DiffEntry(...) construction "
        "site is checked for the shape its action requires (ADD: left "
        "argument the constant None; DELETE: right argument None; SAME / "
        "CHANGE: the two compared values, dominated by their equality / "
        "inequality) and for a path argument that names the key or index "
        "of the very element it reports; _diff_between is specialised for "
        "all 16 pairs of node kinds; the two mode dispatchers are "
        "specialised per enum member; pairing loops must not test a "
        "document value against None to detect absence (zip_longest needs "
        "a private fill value; synchronised pairs are recognised by their "
        "missing index); a comparer that branches on one operand's "
        "emptiness must treat the other operand in the complementary "
        "branch; the exit status of yaml-diff depends only on non-SAME "
        "entries.  Nothing is executed."),
    "declined": [
        "coverage of every leaf by an entry, 'accounted for exactly once', "
        "emptiness of changes iff data equality (run-time values)",
    ],
    "assumptions": ["ruamel containers compare by value with =="],
    "trusted_base": ["itertools.zip_longest", "Python == on ruamel data"],
}

DIFFER = "yamlpath/differ/differ.py"


def _action_of(prog: Program, fi: FuncInfo, call: ast.Call
               ) -> Tuple[Optional[str], Optional[ast.AST]]:
    a = call.args[0] if call.args else None
    if isinstance(a, ast.Attribute) and src(a.value) == "DiffActions":
        return a.attr, None
    return None, a


def d1_entries(chk: Check) -> None:
    prog = chk.prog
    chk.rule("C06-D1a", "DiffEntry shape per action: ADD (None, x), DELETE "
             "(x, None), SAME/CHANGE (a, b) under a == b / a != b", floor=22)
    chk.rule("C06-D1b", "the path of an entry names the key / index of the "
             "element it reports", floor=15)
    for fi in prog.funcs_in(DIFFER):
        sites = [c for c in walk_local(fi.node) if isinstance(c, ast.Call)
                 and src(c.func) == "DiffEntry"]
        if sites:
            chk.analysed(fi)
        for c in sites:
            if len(c.args) < 4:
                chk.fail("C06-D1a", fi, c, src(c)[:60],
                         "DiffEntry without (action, path, lhs, rhs)")
                continue
            action, avar = _action_of(prog, fi, c)
            lhs, rhs = c.args[2], c.args[3]
            text = "DiffEntry({}, {}, {}, {})".format(
                action or src(avar), src(c.args[1]), src(lhs), src(rhs))
            is_none = lambda e: isinstance(e, ast.Constant) and \
                e.value is None
            if action == "ADD":
                if is_none(lhs) and not is_none(rhs):
                    chk.ok("C06-D1a", fi, c, text, "ADD carries no left "
                           "value")
                else:
                    chk.fail("C06-D1a", fi, c, text,
                             "an ADD entry must have lhs None and a right "
                             "value")
            elif action == "DELETE":
                if is_none(rhs) and not is_none(lhs):
                    chk.ok("C06-D1a", fi, c, text, "DELETE carries no right "
                           "value")
                else:
                    chk.fail("C06-D1a", fi, c, text,
                             "a DELETE entry must have rhs None and a left "
                             "value")
            elif action in ("SAME", "CHANGE"):
                rel = _relation(fi, c, lhs, rhs)
                want = "==" if action == "SAME" else "!="
                if rel == want:
                    chk.ok("C06-D1a", fi, c, text,
                           "dominated by `{} {} {}` (or their decrypted "
                           "images)".format(src(lhs), want, src(rhs)))
                else:
                    chk.fail("C06-D1a", fi, c, text,
                             "a {} entry must be dominated by lhs {} rhs; "
                             "found relation {}".format(action, want, rel))
            else:
                _variable_action(chk, fi, c, avar, lhs, rhs, text)
            _check_path(chk, fi, c, action, lhs, rhs)


def _relation(fi: FuncInfo, node: ast.AST, lhs: ast.AST, rhs: ast.AST
              ) -> Optional[str]:
    """'==' / '!=' known between the two values at the site."""
    names_l = {src(lhs)} | _images(fi, lhs)
    names_r = {src(rhs)} | _images(fi, rhs)
    for f in facts_at(node):
        e = f.expr
        if f.kind == "cond" and isinstance(e, ast.Compare) and \
                len(e.ops) == 1 and isinstance(e.ops[0], (ast.Eq, ast.NotEq)):
            l, r = src(e.left), src(e.comparators[0])
            if (l in names_l and r in names_r) or \
                    (l in names_r and r in names_l):
                eq = isinstance(e.ops[0], ast.Eq)
                return "==" if eq == f.pol else "!="
    # not <same kinds>: a flag defined as the disjunction, over the kinds,
    # of (left is K and right is K).  Values of different kinds differ.
    from sa.coords import reaching_def
    for f in facts_at(node):
        if f.kind == "cond" and not f.pol and isinstance(f.expr, ast.Name):
            d = reaching_def(f.expr.id, node)
            if isinstance(d, ast.BoolOp) and isinstance(d.op, ast.Or) and \
                    len(d.values) >= 3 and all(
                        isinstance(v, ast.BoolOp) and
                        isinstance(v.op, ast.And) and len(v.values) == 2 and
                        all(isinstance(x, ast.Name) for x in v.values)
                        for v in d.values):
                kinds_ok = True
                for v in d.values:
                    a, b = v.values[0].id, v.values[1].id  # type: ignore
                    if not (a.startswith(src(lhs)) and b.startswith(src(rhs))
                            and a[len(src(lhs)):] == b[len(src(rhs)):]):
                        kinds_ok = False
                if kinds_ok:
                    return "!="
    return None


def _images(fi: FuncInfo, e: ast.AST) -> Set[str]:
    """Locals initialised from ``e`` (lhs_val = lhs; later decrypted)."""
    out: Set[str] = set()
    s = src(e)
    for n in walk_local(fi.node):
        if isinstance(n, ast.Assign) and src(n.value) == s and \
                isinstance(n.targets[0], ast.Name):
            out.add(n.targets[0].id)
    return out


def _variable_action(chk: Check, fi: FuncInfo, c: ast.Call,
                     avar: Optional[ast.AST], lhs: ast.AST, rhs: ast.AST,
                     text: str) -> None:
    if avar is None or not isinstance(avar, ast.Name):
        chk.fail("C06-D1a", fi, c, text, "unrecognised action expression")
        return
    defs = [n for n in walk_local(fi.node) if isinstance(n, ast.Assign)
            and src(n.targets[0]) == avar.id]
    problems: List[str] = []
    for d in defs:
        v = d.value
        if isinstance(v, ast.IfExp):
            a, b = src(v.body), src(v.orelse)
            t = v.test
            if a.endswith(".SAME") and b.endswith(".CHANGE") and \
                    isinstance(t, ast.Compare) and \
                    isinstance(t.ops[0], ast.Eq) and \
                    {src(t.left), src(t.comparators[0])} == \
                    {src(lhs), src(rhs)}:
                continue
            problems.append("conditional action `{}` does not select SAME "
                            "on equality of the entry's two values".format(
                                src(v)[:60]))
            continue
        act = src(v).split(".")[-1]
        # the left value assigned in the same block
        blk = getattr(parent(d), "body", [])
        sib = [s for s in blk if isinstance(s, ast.Assign) and
               src(s.targets[0]) == src(lhs)]
        if act == "ADD":
            if not (sib and isinstance(sib[0].value, ast.Constant)
                    and sib[0].value.value is None):
                problems.append("ADD is not paired with a None left value")
        elif act == "CHANGE":
            if not (sib and not isinstance(sib[0].value, ast.Constant)):
                problems.append("CHANGE is not paired with the earlier "
                                "entry's left value")
        else:
            problems.append("unexpected action " + act)
    if problems or not defs:
        chk.fail("C06-D1a", fi, c, text,
                 "; ".join(problems) or "action variable never assigned")
    else:
        chk.ok("C06-D1a", fi, c, text,
               "action variable paired with its values in every assignment")


def _check_path(chk: Check, fi: FuncInfo, c: ast.Call, action: Optional[str],
                lhs: ast.AST, rhs: ast.AST) -> None:
    path_e = c.args[1]
    pe = resolve(path_e, c)
    value = rhs if action == "ADD" else lhs
    if isinstance(value, ast.Constant):
        value = rhs
    if action is None:
        # coalescing ADD/CHANGE: the element reported is the right one
        value = rhs
    base = fi.params()[1] if len(fi.params()) > 1 else "path"
    text = "path {} for {}".format(src(path_e), src(value))
    if src(pe) == base:
        # whole-node entry (tag difference, scalar): the node is the operand
        if src(value) in fi.params():
            chk.ok("C06-D1b", fi, c, text, "entry about the operand itself",
                   False)
        else:
            chk.fail("C06-D1b", fi, c, text,
                     "an element is reported at its container's path")
        return
    if not (isinstance(pe, ast.BinOp) and isinstance(pe.op, ast.Add) and
            src(pe.left) == base):
        chk.fail("C06-D1b", fi, c, text,
                 "path is not `<incoming path> + <segment>`")
        return
    seg = parse_segment(pe.right)
    if seg is None or seg.form not in ("index", "escaped"):
        chk.fail("C06-D1b", fi, c, text,
                 "segment `{}` is neither '[index]' nor an escaped key"
                 .format(src(pe.right)[:50]))
        return
    if seg.form == "escaped" and seg.sep is not None and \
            src(seg.sep) != base + ".separator":
        chk.fail("C06-D1b", fi, c, text, "key escaped for a foreign "
                 "separator")
        return
    key = seg.key
    assert key is not None
    # a set member is named by its own value
    if seg.form == "escaped" and src(key) == src(value):
        from sa.coords import container_shape
        der0 = derive(value, c, None)
        if der0.kind == "child" and der0.cont is not None and \
                container_shape(der0.cont, c) == "set":
            chk.ok("C06-D1b", fi, c, text, "set member named by its value")
            return
    # which element does the key belong to?
    der = derive(value, c, None)
    if der.kind == "child" and der.key is not None and \
            same_value(key, der.key, c):
        chk.ok("C06-D1b", fi, c, text,
               "segment names `{}`, the element's own key".format(src(key)))
        return
    # tuple-unpacked pairs (lidx, lele, ridx, rele): partner index
    if isinstance(value, ast.Name) and isinstance(key, ast.Name):
        for a in ancestors(c):
            if isinstance(a, ast.For) and isinstance(a.target, ast.Tuple):
                names = [src(e) for e in a.target.elts]
                if value.id in names and key.id in names:
                    if len(names) == 4:
                        iv, ik = names.index(value.id), names.index(key.id)
                        # either side's index is acceptable for a pair that
                        # exists on both sides; for one-sided entries it
                        # must be the partner
                        one_sided = not (src(lhs) in names and
                                         src(rhs) in names)
                        if ik == iv - 1 or (not one_sided and ik in (0, 2)):
                            chk.ok("C06-D1b", fi, c, text,
                                   "index `{}` is paired with `{}`".format(
                                       key.id, value.id))
                        else:
                            chk.fail("C06-D1b", fi, c, text,
                                     "the entry for `{}` is filed under the "
                                     "other side's index `{}`".format(
                                         value.id, key.id))
                        return
    # manual position counter: path built before the increment
    if isinstance(key, ast.Name) and _is_position_counter(fi, key.id, c):
        chk.ok("C06-D1b", fi, c, text,
               "`{}` counts loop positions (read before its increment)"
               .format(key.id))
        return
    if der.kind == "other" and isinstance(value, ast.Name) and \
            isinstance(key, ast.Name) and value.id == key.id:
        chk.ok("C06-D1b", fi, c, text, "set member reported by its own "
               "value")
        return
    chk.fail("C06-D1b", fi, c, text,
             "cannot relate path segment `{}` to the reported element `{}`"
             .format(src(key), src(value)))


def _is_position_counter(fi: FuncInfo, name: str, at: ast.AST) -> bool:
    loop = None
    for a in ancestors(at):
        if isinstance(a, ast.For):
            loop = a
            break
    if loop is None:
        return False
    incs = [s for s in loop.body if isinstance(s, ast.AugAssign) and
            src(s.target) == name and src(s.value) == "1" and
            isinstance(s.op, ast.Add)]
    inits = [n for n in walk_local(fi.node) if isinstance(n, ast.Assign)
             and src(n.targets[0]) == name and src(n.value) == "0"
             and n.lineno < loop.lineno]
    if len(incs) != 1 or not inits:
        return False
    # the path is computed before the increment
    pdef = [s for s in loop.body if isinstance(s, ast.Assign) and
            name in src(s.value) and s.lineno < incs[0].lineno]
    return bool(pdef)


# ---------------------------------------------------------------- D2 ------
KINDS = {"map": {"CommentedMap"}, "seq": {"CommentedSeq"},
         "set": {"CommentedSet"}, "scalar": set()}
COMPARER = {"map": "_diff_dicts", "seq": "_diff_lists", "set": "_diff_sets",
            "scalar": "_diff_scalars"}


def d2_dispatch(chk: Check) -> None:
    prog = chk.prog
    chk.rule("C06-D2", "_diff_between: same-kind operands go to that kind's "
             "comparer with (path, lhs, rhs); different kinds purge the "
             "left and add the right", floor=16)
    fi = prog.func("Differ._diff_between")
    chk.analysed(fi)
    path, lhs, rhs = fi.params()[1:4]
    pe = PEval(isa=KINDS)
    for lk in KINDS:
        for rk in KINDS:
            res = pe.specialise(fi.node.body,
                                {lhs: Kind(lk), rhs: Kind(rk)},
                                pinned=[lhs, rhs])
            calls = [c for s in res for c in ast.walk(s)
                     if isinstance(c, ast.Call) and
                     src(c.func).startswith("self._") and
                     not src(c.func).startswith("self.logger") and
                     not src(c.func).startswith("self._diffs.")]
            got = [(src(c.func)[5:], [src(a) for a in c.args[:3]])
                   for c in calls]
            text = "lhs {} / rhs {}".format(lk, rk)
            # "did the helpers record anything?" is a run-time question
            # (C06-D2b judges the arm's answer to it)
            undecided = [s for s in res if isinstance(s, ast.If) and
                         not _is_recorded_test(s.test)]
            if lk == rk:
                want = [(COMPARER[lk], [path, lhs, rhs])]
            else:
                want = [("_purge_document", [path, lhs]),
                        ("_add_everything", [path, rhs])]
            if got == want and not undecided:
                chk.ok("C06-D2", fi, None, text, "calls {}".format(
                    [g[0] for g in got]))
            else:
                chk.fail("C06-D2", fi, None, text,
                         "residual calls {} but the kinds require {}"
                         .format(got, want), {"residual": show(res)[-500:]})


def _is_recorded_test(test: ast.AST) -> bool:
    """`len(self._diffs) == <snapshot>` (either order, == or !=, >)."""
    if not (isinstance(test, ast.Compare) and len(test.ops) == 1):
        return False
    sides = [src(test.left), src(test.comparators[0])]
    return "len(self._diffs)" in sides and all(
        x == "len(self._diffs)" or x.isidentifier() for x in sides)


def _may_record_nothing(fi: FuncInfo) -> bool:
    """Some path through the helper appends no entry (and delegates to no
    comparer)."""
    from sa.flow import Flow

    def transfer(stmt: ast.stmt, st, flow):
        for c in ast.walk(stmt):
            if isinstance(c, ast.Call) and (
                    src(c.func).endswith("_diffs.append") or
                    src(c.func).startswith("self._diff_")):
                return [True]
        return [st]

    def branch(test: ast.AST, st, flow):
        return [st], [st]
    out = Flow(transfer, branch).run(fi.node.body, [False])
    ends = set(out.fall) | {s_ for s_, _ in out.returns}
    return False in ends


def d2b_kind_clash_is_reported(chk: Check) -> None:
    """Two nodes of different kinds differ as data, so the diff must hold a
    non-SAME entry for them.  The kind-clash arm deletes the left node's
    content and adds the right node's, element by element: for an empty
    container or a null there is nothing to delete or add, and `a: {}`
    against `a: []` would leave no trace in the report."""
    from sa.coords import reaching_def
    from sa.flow import Flow
    prog = chk.prog
    chk.rule("C06-D2b", "the kind-clash arm of _diff_between records at "
             "least one entry on every path (helpers that may record "
             "nothing are followed by a test of the entry count)", floor=1)
    fi = prog.func("Differ._diff_between")
    arm = None
    for n in walk_local(fi.node):
        if isinstance(n, ast.If) and isinstance(n.test, ast.Name) and \
                n.orelse and any(
                    isinstance(c, ast.Call) and
                    src(c.func).endswith("_purge_document")
                    for st in n.orelse for c in ast.walk(st)):
            arm = n.orelse
    if arm is None:
        raise AnalysisError("kind-clash arm of _diff_between not found")
    summaries: Dict[str, bool] = {}

    def nothing(call: ast.Call) -> Optional[bool]:
        name = src(call.func)
        if not name.startswith("self._"):
            return None
        try:
            callee = prog.func("Differ." + name[5:])
        except Exception:  # pylint: disable=broad-except
            return None
        if name not in summaries:
            summaries[name] = _may_record_nothing(callee)
        return summaries[name]

    def transfer(stmt: ast.stmt, st, flow):
        outs = {st}
        for c in ast.walk(stmt):
            if not isinstance(c, ast.Call):
                continue
            if src(c.func).endswith("_diffs.append"):
                return [True]
            if src(c.func).startswith("self._diffs."):
                continue
            m = nothing(c)
            if m is False:
                return [True]
            if m is True:
                outs.add(True)
        return sorted(outs)

    def branch(test: ast.AST, st, flow):
        if _is_recorded_test(test):
            names = [x for x in (src(test.left), src(test.comparators[0]))
                     if x != "len(self._diffs)"]
            d = reaching_def(names[0], test) if names else None
            if d is not None and src(d) == "len(self._diffs)":
                if isinstance(test.ops[0], ast.Eq):
                    return ([st] if not st else []), ([st] if st else [])
                return ([st] if st else []), ([st] if not st else [])
        return [st], [st]
    out = Flow(transfer, branch).run(arm, [False])
    ends = set(out.fall) | {s_ for s_, _ in out.returns}
    text = "kind-clash arm: {}".format(", ".join(
        "{}{}".format(k[5:], " (may record nothing)" if v else "")
        for k, v in sorted(summaries.items())))
    if False in ends:
        chk.fail("C06-D2b", fi, arm[0], text,
                 "every helper of the arm may record nothing (empty "
                 "container, null) and nothing else is recorded: two nodes "
                 "of different kinds can leave no entry, the diff is empty "
                 "although the documents differ")
    else:
        chk.ok("C06-D2b", fi, arm[0], text,
               "an entry is recorded on every path")


# ---------------------------------------------------------------- D3 ------
def d3_modes(chk: Check) -> None:
    prog = chk.prog
    chk.rule("C06-D3", "array / Array-of-Hashes diff modes select the "
             "documented comparison (positional shallow, positional deep, "
             "value-synchronised, key-synchronised shallow / deep)", floor=7)
    fa = prog.func("Differ._diff_arrays_of_scalars")
    fh = prog.func("Differ._diff_arrays_of_hashes")
    chk.analysed(fa)
    chk.analysed(fh)
    mv = c05._mode_var(fa, "array_diff_mode")
    mh = c05._mode_var(fh, "aoh_diff_mode")
    if not mv or not mh:
        raise AnalysisError("diff mode variables not found")
    pe = PEval(enum_classes={"ArrayDiffOpts", "AoHDiffOpts"})

    def calls_of(res: List[ast.stmt]) -> List[str]:
        out = []
        for s in res:
            for c in ast.walk(s):
                if isinstance(c, ast.Call) and \
                        src(c.func).startswith("self.") and \
                        not src(c.func).startswith(("self.logger",
                                                    "self.config",
                                                    "self._diffs")):
                    kw = {k.arg: src(k.value) for k in c.keywords
                          if k.arg == "diff_deeply"}
                    out.append(src(c.func)[5:] + (
                        "[deep={}]".format(kw["diff_deeply"]) if kw else ""))
        return out
    for m in prog.enum_members("ArrayDiffOpts"):
        res = pe.specialise(fa.node.body, {mv: Enum("ArrayDiffOpts", m)},
                            pinned=[mv])
        got = calls_of(res)
        if m == "VALUE":
            ok = got == ["_diff_synced_lists"]
        else:
            ok = "_diff_synced_lists" not in got and \
                "_diff_between" in got and any(
                    "zip_longest" in src(x) for s in res for x in ast.walk(s)
                    if isinstance(x, ast.For))
        if ok:
            chk.ok("C06-D3", fa, None, "arrays " + m, repr(got))
        else:
            chk.fail("C06-D3", fa, None, "arrays " + m,
                     "mode {} runs {}".format(m, got),
                     {"residual": show(res)[-400:]})
    want = {
        "POSITION": ["_diff_arrays_of_scalars[deep=False]"],
        "DPOS": ["_diff_arrays_of_scalars[deep=True]"],
        "VALUE": ["_diff_synced_lists"],
    }
    for m in prog.enum_members("AoHDiffOpts"):
        res = pe.specialise(fh.node.body, {mh: Enum("AoHDiffOpts", m)},
                            pinned=[mh])
        got = calls_of(res)
        if m in want:
            ok = got == want[m]
        elif m == "KEY":
            ok = got == ["synchronize_lods_by_key"] and any(
                "SAME" in src(x) and "CHANGE" in src(x)
                for s in res for x in ast.walk(s)
                if isinstance(x, ast.IfExp))
        else:   # DEEP
            ok = got == ["synchronize_lods_by_key", "_diff_between"]
        if ok:
            chk.ok("C06-D3", fh, None, "aoh " + m, repr(got))
        else:
            chk.fail("C06-D3", fh, None, "aoh " + m,
                     "mode {} runs {}".format(m, got),
                     {"residual": show(res)[-400:]})


# ---------------------------------------------------------------- D4 ------
def d4_absent(chk: Check) -> None:
    prog = chk.prog
    chk.rule("C06-D4", "pairing routines do not use None (a value documents "
             "can contain) as their 'absent' marker", floor=4)
    for fi in prog.funcs_in(DIFFER):
        for n in walk_local(fi.node):
            if isinstance(n, ast.For) and isinstance(n.iter, ast.Call) and \
                    src(n.iter.func).endswith("zip_longest"):
                fill = {k.arg: k.value for k in n.iter.keywords}.get(
                    "fillvalue")
                ok = False
                if isinstance(fill, ast.Name):
                    d = reaching_def(fill.id, n)
                    ok = d is not None and src(d) == "object()"
                if not ok:
                    chk.fail("C06-D4", fi, n, "zip_longest padding",
                             "zip_longest pads with {}: a null element is "
                             "indistinguishable from a missing one".format(
                                 src(fill) if fill is not None else "None"))
                    continue
                chk.ok("C06-D4", fi, n, "zip_longest padding",
                       "private sentinel `{}`".format(fill.id))
                names = {src(e) for e in n.target.elts} \
                    if isinstance(n.target, ast.Tuple) else set()
                for t in walk_local(n):
                    if isinstance(t, ast.Compare) and len(t.ops) == 1 and \
                            isinstance(t.ops[0], (ast.Is, ast.IsNot)) and \
                            src(t.left) in names:
                        if src(t.comparators[0]) == fill.id:
                            chk.ok("C06-D4", fi, t, src(t),
                                   "absence tested against the sentinel")
                        elif src(t.comparators[0]) == "None":
                            chk.fail("C06-D4", fi, t, "`is None` on a "
                                     "paired element",
                                     "absence of an element is tested with "
                                     "`is None`")
            # loops over synchronised 4-tuples
            if isinstance(n, ast.For) and isinstance(n.target, ast.Tuple) \
                    and len(n.target.elts) == 4:
                names = [src(e) for e in n.target.elts]
                for t in walk_local(n):
                    if isinstance(t, ast.Compare) and len(t.ops) == 1 and \
                            isinstance(t.ops[0], ast.Is) and \
                            src(t.comparators[0]) == "None" and \
                            src(t.left) in names:
                        pos = names.index(src(t.left))
                        if pos in (0, 2):
                            chk.ok("C06-D4", fi, t, src(t),
                                   "unpaired entry recognised by its "
                                   "missing index")
                        else:
                            chk.fail("C06-D4", fi, t,
                                     "`is None` on a paired element",
                                     "`{}` is a document value; a null "
                                     "element would be taken for a missing "
                                     "one".format(src(t.left)))


DOC_ANNOTATIONS = ("Any", "CommentedMap", "CommentedSeq", "CommentedSet",
                   "list", "dict", "set")


def _doc_params(fi: FuncInfo) -> Set[str]:
    out: Set[str] = set()
    a = fi.node.args
    for arg in a.posonlyargs + a.args + a.kwonlyargs:
        if arg.arg == "self" or arg.annotation is None:
            continue
        if src(arg.annotation).split("[")[0] in DOC_ANNOTATIONS:
            out.add(arg.arg)
    return out


def _truth_operands(test: ast.AST) -> List[ast.AST]:
    """Expressions whose *truthiness* the test consults."""
    out: List[ast.AST] = []
    stack = [test]
    while stack:
        e = stack.pop()
        if isinstance(e, ast.BoolOp):
            stack.extend(e.values)
        elif isinstance(e, ast.UnaryOp) and isinstance(e.op, ast.Not):
            stack.append(e.operand)
        elif isinstance(e, (ast.Name, ast.Attribute, ast.Subscript)):
            out.append(e)
    return out


def _tests_of(fn: ast.AST) -> List[ast.AST]:
    out: List[ast.AST] = []
    for n in walk_local(fn):
        if isinstance(n, (ast.If, ast.While, ast.IfExp)):
            out.append(n.test)
        elif isinstance(n, ast.comprehension):
            out.extend(n.ifs)
        elif isinstance(n, ast.Assert):
            out.append(n.test)
    return out


def falsy_and_absent_sites(fn: ast.AST, doc_params: Set[str],
                           skip_receivers: Set[str],
                           containers: Set[str] = frozenset(),  # type: ignore
                           doc_exprs: Set[str] = frozenset()  # type: ignore
                           ) -> Tuple[List[Tuple[ast.AST, str]], int]:
    """(violations, number of tests examined): truthiness decisions on a
    document value, and None-tests on the result of a defaultless .get()."""
    from sa.kinds import DocTaint

    class _F:           # the taint walker needs only .node
        pass
    holder = _F()
    holder.node = fn    # type: ignore[attr-defined]
    taint = DocTaint(holder, set(doc_params))  # type: ignore[arg-type]
    bad: List[Tuple[ast.AST, str]] = []
    got: Dict[str, ast.Call] = {}
    for n in walk_local(fn):
        if isinstance(n, ast.Assign) and len(n.targets) == 1 and \
                isinstance(n.targets[0], ast.Name) and \
                _is_defaultless_get(n.value, skip_receivers):
            got[n.targets[0].id] = n.value   # type: ignore[assignment]
    # bool(x) of a document value is the same decision taken as a value
    for c in walk_local(fn):
        if isinstance(c, ast.Call) and isinstance(c.func, ast.Name) and \
                c.func.id == "bool" and len(c.args) == 1 and \
                taint.is_doc(c.args[0]) and not _bool_guarded(c):
            bad.append((c, "`{}` turns a document value into its "
                        "truthiness: the text 'false' (any non-empty text) "
                        "becomes True".format(src(c))))
    # nodes looked up in an anchors table (filled by scan_for_anchors) are
    # nodes of the document
    tables = {c.args[1].id for c in walk_local(fn)
              if isinstance(c, ast.Call) and
              src(c.func).endswith("scan_for_anchors") and
              len(c.args) == 2 and isinstance(c.args[1], ast.Name)}
    anchored: Set[str] = set()
    for n in walk_local(fn):
        if isinstance(n, ast.Assign) and len(n.targets) == 1 and \
                isinstance(n.targets[0], ast.Name) and any(
                    isinstance(x, ast.Subscript) and
                    isinstance(x.value, ast.Name) and x.value.id in tables
                    for x in ast.walk(n.value)):
            anchored.add(n.targets[0].id)
    tests = _tests_of(fn)
    for t in tests:
        for e in _truth_operands(t):
            if isinstance(e, ast.Name) and e.id in containers:
                continue    # emptiness of a value annotated as a container
            if isinstance(e, ast.Name) and e.id in anchored:
                bad.append((e, "`{}` is a node looked up in the anchors "
                            "table: its truthiness takes an empty anchored "
                            "hash / list (or 0, '') for a missing anchor"
                            .format(e.id)))
                continue
            if src(e) in doc_exprs or (
                    "<.node>" in doc_exprs and isinstance(e, ast.Attribute)
                    and e.attr == "node"):
                bad.append((e, "branches on the truthiness of the document "
                            "`{}`: an empty document ({{}}, [], 0, '') is "
                            "treated like an absent one".format(src(e))))
                continue
            if taint.is_doc(e) and not (isinstance(e, ast.Name) and
                                        e.id in got):
                bad.append((e, "branches on the truthiness of the document "
                            "value `{}`: 0, false, '' and empty containers "
                            "are treated like an absent value".format(
                                src(e))))
            elif isinstance(e, ast.Name) and e.id in got:
                bad.append((e, "`{}` comes from `{}`; its truthiness "
                            "conflates a missing key, a null and every "
                            "falsy value".format(e.id, src(got[e.id]))))
        for c in ast.walk(t):
            if isinstance(c, ast.Compare) and len(c.ops) == 1 and \
                    isinstance(c.ops[0], (ast.Is, ast.IsNot)) and \
                    src(c.comparators[0]) == "None":
                if isinstance(c.left, ast.Name) and c.left.id in got:
                    bad.append((c, "`{}` comes from `{}`: `is None` cannot "
                                "tell a missing key from a key holding "
                                "null".format(c.left.id,
                                              src(got[c.left.id]))))
                elif _is_defaultless_get(c.left, skip_receivers):
                    bad.append((c, "`is None` on a defaultless .get(): a "
                                "missing key and a null value are "
                                "conflated"))
    return bad, len(tests)


def _bool_guarded(call: ast.Call) -> bool:
    """bool(x) under an isinstance(x, (..bool..)) test is a conversion of a
    boolean, not a truthiness decision."""
    arg = src(call.args[0])
    for f in facts_at(call):
        if f.kind == "cond" and f.pol and isinstance(f.expr, ast.Call) and \
                src(f.expr.func) == "isinstance" and \
                src(f.expr.args[0]) == arg and \
                "ool" in src(f.expr.args[1]):
            return True
    return False


def _is_defaultless_get(e: Optional[ast.AST], skip: Set[str]) -> bool:
    return isinstance(e, ast.Call) and isinstance(e.func, ast.Attribute) \
        and e.func.attr == "get" and \
        (len(e.args) == 1 or (len(e.args) == 2 and
                              src(e.args[1]) == "None")) and \
        not e.keywords and src(e.func.value) not in skip and \
        not src(e.func.value).startswith("self.")


_POSITIVE = """
def f(self, path, data: Any, lhs: CommentedMap, key):
    if data:
        pass
    for ele in lhs:
        if not ele:
            pass
    a = lhs.get(key)
    if a is None:
        pass
"""


def falsy_rule(chk: Check, rid: str, relpath: str, floor: int,
               doc_exprs: Set[str] = frozenset()) -> None:  # type: ignore
    """The truthiness / defaultless-get rule applied to another module."""
    prog = chk.prog
    chk.rule(rid, "no function of {} decides on the truthiness of a "
             "document value or on `is None` of a defaultless .get()".format(
                 relpath), floor=floor)
    sample = ast.parse(_POSITIVE).body[0]
    from sa.model import set_parents
    set_parents(sample)
    hits, _ = falsy_and_absent_sites(sample, {"data", "lhs"}, set())
    if len(hits) != 3:
        raise AnalysisError("falsy/absent detector lost its positive sample")
    for fi in prog.funcs_in(relpath):
        kw = fi.node.args.kwarg.arg if fi.node.args.kwarg else ""
        conts = {a.arg for a in fi.node.args.args
                 if a.annotation is not None and
                 src(a.annotation).split("[")[0] in DOC_ANNOTATIONS[1:]}
        bad, n = falsy_and_absent_sites(fi.node, _doc_params(fi),
                                        {kw} if kw else set(), conts,
                                        doc_exprs)
        for node, why in bad:
            chk.fail(rid, fi, node, src(node)[:60], why)
        chk.ok(rid, fi, fi.node, "{} test(s) in {}".format(n, fi.short),
               "none consults the truthiness of a document value", False)


def d4b_falsy(chk: Check) -> None:
    prog = chk.prog
    chk.rule("C06-D4b", "no comparer decides on the truthiness of a document "
             "value, or on `is None` of a defaultless .get(): falsy scalars "
             "(0, false, '') and nulls are values, a missing key is not",
             floor=12)
    # the detector must fire on a known-bad sample on every run
    sample = ast.parse(_POSITIVE).body[0]
    from sa.model import set_parents
    set_parents(sample)
    hits, _ = falsy_and_absent_sites(sample, {"data", "lhs"}, set())
    if len(hits) != 3:
        raise AnalysisError("falsy/absent detector lost its positive "
                            "sample ({} of 3)".format(len(hits)))
    for fi in prog.funcs_in(DIFFER):
        kw = fi.node.args.kwarg.arg if fi.node.args.kwarg else ""
        conts = {a.arg for a in fi.node.args.args
                 if a.annotation is not None and
                 src(a.annotation).split("[")[0] in DOC_ANNOTATIONS[1:]}
        bad, n = falsy_and_absent_sites(fi.node, _doc_params(fi),
                                        {kw} if kw else set(), conts)
        for node, why in bad:
            chk.fail("C06-D4b", fi, node, src(node)[:60], why)
        chk.ok("C06-D4b", fi, fi.node, "{} test(s) in {}".format(
            n, fi.short), "none consults the truthiness of a document value",
            False)


def d4c_fresh_report(chk: Check) -> None:
    """compare_to(): the report of an earlier comparison is discarded on
    every path, before anything can return; and nothing but the comparers
    (through one comparison) appends to it."""
    from sa.flow import Flow
    prog = chk.prog
    chk.rule("C06-D4c", "compare_to empties the entry list on every path "
             "before it can return, and then runs the type-directed "
             "comparison of the two documents", floor=2)
    fi = prog.func("Differ.compare_to")
    chk.analysed(fi)
    doc = fi.params()[1]
    # the attribute the entries are appended to (role: most appended list)
    lst = None
    for g in prog.funcs_in(DIFFER):
        for c in walk_local(g.node):
            if isinstance(c, ast.Call) and isinstance(c.func, ast.Attribute) \
                    and c.func.attr == "append" and c.args and \
                    isinstance(c.args[0], ast.Call) and \
                    src(c.args[0].func) == "DiffEntry":
                lst = src(c.func.value)
    if lst is None:
        raise AnalysisError("entry list of the differ not found")

    def transfer(stmt: ast.stmt, st, flow):
        cleared, compared = st
        for c in ast.walk(stmt):
            if isinstance(c, ast.Call) and src(c.func) == lst + ".clear":
                cleared = True
            if isinstance(c, ast.Call) and \
                    src(c.func).endswith("._diff_between"):
                compared = cleared and "ordered"
        if isinstance(stmt, ast.Assign) and src(stmt.targets[0]) == lst and \
                src(stmt.value) in ("[]", "list()"):
            cleared = True
        return [(cleared, compared)]

    def branch(test: ast.AST, st, flow):
        return [st], [st]
    out = Flow(transfer, branch).run(fi.node.body, [(False, False)])
    ends = list(out.fall) + [st for st, _ in out.returns]
    if ends and all(e[0] for e in ends):
        chk.ok("C06-D4c", fi, fi.node, "clear on every path",
               "{} exit state(s), the list is emptied on each".format(
                   len(set(ends))))
    else:
        chk.fail("C06-D4c", fi, fi.node, "clear on every path",
                 "compare_to can return without emptying `{}`: a reused "
                 "Differ reports the entries of its previous comparison"
                 .format(lst))
    if ends and all(e[1] == "ordered" for e in ends):
        chk.ok("C06-D4c", fi, fi.node, "comparison on every path",
               "_diff_between runs after the clear on every path")
    else:
        chk.fail("C06-D4c", fi, fi.node, "comparison on every path",
                 "some path through compare_to returns without comparing "
                 "the documents (identity of the operands is not equality "
                 "of a report: SAME entries are part of it)")


def d4d_search_results_fresh(chk: Check) -> None:
    """The pairing routines look, per element, for a partner with a
    find-first loop and remember its index.  "Not found" must be
    re-established for every element: an index left over from the previous
    element folds / removes an unrelated entry (an element is then reported
    twice or not at all)."""
    from sa.loopstate import stale_search_results
    prog = chk.prog
    chk.rule("C06-D4d", "every find-first search inside a pairing loop "
             "re-initialises its result variable in the same block, before "
             "the search", floor=5)
    for fi in prog.funcs_in(DIFFER):
        bad, n = stale_search_results(fi)
        for loop, var in bad:
            chk.fail("C06-D4d", fi, loop, "{}: `{}` found by for {} in {}"
                     .format(fi.short, var, src(loop.target),
                             src(loop.iter)[:30]),
                     "`{}` is not reset before this search: when nothing is "
                     "found it still holds the hit of an earlier element"
                     .format(var))
        for _ in range(n - len(bad)):
            chk.ok("C06-D4d", fi, fi.node, fi.short, "reset before the "
                   "search", False)



# ---------------------------------------------------------------- D1c -----
_POSITIVE_LOOKUP = """
def f(lhs, rhs):
    for ele in lhs:
        yield rhs.index(ele)
"""


def _value_lookups(fn: ast.AST) -> List[ast.Call]:
    """`X.index(v)` / `X.find(v)` calls whose argument is not a constant:
    a position derived from a value (first occurrence wins)."""
    out = []
    for n in walk_local(fn):
        if isinstance(n, ast.Call) and isinstance(n.func, ast.Attribute) and \
                n.func.attr in ("index", "find", "rindex", "rfind") and \
                n.args and not isinstance(n.args[0], ast.Constant):
            out.append(n)
    return out


def d1c_positions_carried(chk: Check) -> None:
    """The index reported for an element is the one it was enumerated at.
    Recovering a position from the element's *value* (`seq.index(ele)`)
    names the first equal element: with duplicate values two different
    elements are reported under one path."""
    prog = chk.prog
    chk.rule("C06-D1c", "no comparer derives a position from an element's "
             "value (`.index(value)`): equal elements would share one "
             "reported index", floor=9)
    sample = ast.parse(_POSITIVE_LOOKUP).body[0]
    if len(_value_lookups(sample)) != 1:
        raise AnalysisError("value-lookup detector lost its positive sample")
    for fi in prog.funcs_in(DIFFER):
        bad = _value_lookups(fi.node)
        for c in bad:
            chk.fail("C06-D1c", fi, c, "{}: position looked up by value"
                     .format(fi.short),
                     "`{}` names the first element equal to the argument, "
                     "not the element being reported".format(src(c)[:50]))
        if not bad:
            chk.ok("C06-D1c", fi, fi.node, fi.short,
                   "positions come from enumeration only", False)

# ---------------------------------------------------------------- D7 ------
_POSITIVE_NE = """
def f(self, lhs: CommentedSeq, rhs: CommentedSeq):
    for lele, rele in zip(lhs, rhs):
        if lele != rele:
            pass
"""


def _ne_on_document_values(fn: ast.AST, doc_params: Set[str]
                           ) -> Tuple[List[ast.Compare], int]:
    """`a != b` where an operand is a document value: a document parameter
    or a name bound by a loop (also through tuple targets, zip / zip_longest
    / enumerate) over one, or over a list of synchronised pairs."""
    doc: Set[str] = set(doc_params)
    grew = True
    while grew:
        grew = False
        for n in walk_local(fn):
            if isinstance(n, ast.For):
                roots = {x.id for x in ast.walk(n.iter)
                         if isinstance(x, ast.Name)}
                if roots & doc or "syn_pairs" in src(n.iter) or \
                        "synchronize" in src(n.iter):
                    new = {x.id for x in ast.walk(n.target)
                           if isinstance(x, ast.Name)} - doc
                    if new:
                        doc |= new
                        grew = True
            if isinstance(n, ast.Assign) and isinstance(n.value, ast.Call) \
                    and "synchronize" in src(n.value.func):
                new = {src(t) for t in n.targets} - doc
                if new:
                    doc |= new
                    grew = True
    bad, seen = [], 0
    for n in walk_local(fn):
        if isinstance(n, ast.Compare) and len(n.ops) == 1 and \
                isinstance(n.ops[0], (ast.Eq, ast.NotEq)):
            ops = [n.left, n.comparators[0]]
            if any(isinstance(o, ast.Name) and o.id in doc for o in ops) \
                    and not any(isinstance(o, ast.Constant) for o in ops):
                seen += 1
                if isinstance(n.ops[0], ast.NotEq):
                    bad.append(n)
    return bad, seen


def d7_equality_only(chk: Check) -> None:
    """ruamel.yaml's CommentedMap defines `==` without regard for key order
    (it compares as a plain dict) but defines no `!=`: that falls through
    to OrderedDict's, which *is* order-sensitive.  Two hashes can therefore
    be `==` and `!=` at once.  SAME is decided by `==` everywhere, so CHANGE
    must be decided by `not ==` -- never by `!=` -- or a record whose keys
    were merely reordered is reported as changed."""
    prog = chk.prog
    chk.rule("C06-D7", "no comparer applies `!=` to document values "
             "(CHANGE is the negation of the `==` that decides SAME)",
             floor=4)
    from sa.model import set_parents
    sample = ast.parse(_POSITIVE_NE).body[0]
    set_parents(sample)
    if len(_ne_on_document_values(sample, {"lhs", "rhs"})[0]) != 1:
        raise AnalysisError("`!=` detector lost its positive sample")
    total = 0
    for fi in prog.funcs_in(DIFFER):
        bad, seen = _ne_on_document_values(fi.node, _doc_params(fi))
        total += seen
        for c in bad:
            chk.fail("C06-D7", fi, c, "{}: `!=` on document values".format(
                fi.short),
                "`{}`: for two hashes `!=` is OrderedDict's order-sensitive "
                "one while `==` ignores key order; equal records with "
                "reordered keys are reported as CHANGE".format(src(c)))
        for _ in range(seen - len(bad)):
            chk.ok("C06-D7", fi, fi.node, fi.short + ": == on document "
                   "values", "equality only", False)
    if total < 4:
        raise AnalysisError("equality tests on document values not found")


def d7b_identity_only_for_singletons(chk: Check) -> None:
    """`is` / `is not` compares object identity.  In the comparers that is
    right against None, a private sentinel (`object()`) and enum members;
    two *values* read from the documents (tag text, scalars) are distinct
    objects even when equal -- the same tag loaded twice is two strings --
    so comparing them by identity reports equal documents as different."""
    from sa.coords import reaching_def
    prog = chk.prog
    chk.rule("C06-D7b", "identity comparisons in differ.py have None, a "
             "sentinel object or an enum member on one side", floor=8)
    enums = {c.name for c in prog.classes.values()
             if any("Enum" in b for b in c.base_exprs)}
    for fi in prog.funcs_in(DIFFER):
        for c in walk_local(fi.node):
            if not (isinstance(c, ast.Compare) and len(c.ops) == 1 and
                    isinstance(c.ops[0], (ast.Is, ast.IsNot))):
                continue
            sides = [c.left, c.comparators[0]]

            def singleton(e: ast.AST) -> bool:
                if isinstance(e, ast.Constant) and e.value in (None, True,
                                                               False):
                    return True
                if isinstance(e, ast.Attribute) and \
                        src(e.value).split(".")[-1] in enums:
                    return True
                if isinstance(e, ast.Name):
                    d = reaching_def(e.id, c)
                    if d is not None and src(d) == "object()":
                        return True
                return False
            text = "{}: `{}`".format(fi.short, src(c)[:50])
            if any(singleton(x) for x in sides):
                chk.ok("C06-D7b", fi, c, text, "against a singleton", False)
            else:
                chk.fail("C06-D7b", fi, c, text,
                         "two values are compared by identity: equal values "
                         "loaded separately (the same tag in both documents) "
                         "are different objects, so identical documents are "
                         "reported as different")


# ---------------------------------------------------------------- D1d -----
def d1d_every_pair_reported(chk: Check) -> None:
    """Every element of either side is accounted for: each iteration of a
    pairing loop appends an entry or hands the pair to a comparer on every
    path.  (An equal pair that produces nothing is missing from `--same` /
    `--onlysame` output and from the coverage clause of the property.)"""
    from sa.flow import Flow
    prog = chk.prog
    chk.rule("C06-D1d", "every iteration of a pairing loop reports the pair "
             "(appends an entry or delegates to a comparer) on every path",
             floor=3)
    n = 0
    for fi in prog.funcs_in(DIFFER):
        if fi.node.name.startswith("synchronize"):
            continue
        for loop in walk_local(fi.node):
            if not isinstance(loop, ast.For):
                continue
            it = src(loop.iter)
            paired = "zip_longest" in it or (
                isinstance(loop.target, ast.Tuple) and
                len(loop.target.elts) == 4)
            keys = isinstance(loop.iter, ast.Name) or "items()" in it
            if not paired:
                continue
            del keys

            def transfer(stmt: ast.stmt, st, flow):
                for c in ast.walk(stmt):
                    if isinstance(c, ast.Call) and (
                            src(c.func).endswith("_diffs.append") or
                            src(c.func).startswith("self._diff_")):
                        return [True]
                return [st]

            def branch(test: ast.AST, st, flow):
                return [st], [st]
            out = Flow(transfer, branch).run(loop.body, [False])
            ends = set(out.fall) | set(out.continues)
            n += 1
            text = "{}: for {} in {}".format(fi.short, src(loop.target)[:30],
                                             it[:30])
            if False in ends:
                chk.fail("C06-D1d", fi, loop, text,
                         "some path through the handling of a pair appends "
                         "no entry and calls no comparer: the pair is "
                         "missing from the report")
            else:
                chk.ok("C06-D1d", fi, loop, text,
                       "every path appends or delegates")
    if n < 3:
        raise AnalysisError("pairing loops of the differ not found ({})"
                            .format(n))


# ---------------------------------------------------------------- D5 ------
def d5_both_sides(chk: Check) -> None:
    prog = chk.prog
    chk.rule("C06-D5", "a comparer that branches on the emptiness of one "
             "operand handles the other operand in the complementary "
             "branch", floor=1)
    n_sites = 0
    for fi in prog.funcs_in(DIFFER):
        ps = fi.params()
        if len(ps) < 4 or not fi.node.name.startswith("_diff_"):
            continue
        lhs, rhs = ps[2], ps[3]
        for n in walk_local(fi.node):
            if not isinstance(n, ast.If):
                continue
            t = src(n.test).replace(" ", "")
            for mine, other in ((lhs, rhs), (rhs, lhs)):
                pos = t in ("len({})>0".format(mine), mine,
                            "len({})>=1".format(mine),
                            "0<len({})".format(mine))
                # the same question asked the other way round: the body
                # is the empty branch
                neg = t in ("len({})==0".format(mine), "not" + mine,
                            "len({})<1".format(mine),
                            "notlen({})".format(mine),
                            "0==len({})".format(mine),
                            "len({})<=0".format(mine))
                if pos or neg:
                    n_sites += 1
                    empty_branch = n.orelse if pos else n.body
                    names = {x.id for s in empty_branch for x in ast.walk(s)
                             if isinstance(x, ast.Name)}
                    if other in names:
                        chk.ok("C06-D5", fi, n, "if " + src(n.test),
                               "the empty-`{}` branch deals with `{}`"
                               .format(mine, other))
                    else:
                        chk.fail("C06-D5", fi, n, "if " + src(n.test),
                                 "when `{}` is empty nothing is reported "
                                 "about `{}`: its elements vanish from the "
                                 "diff".format(mine, other))
    if n_sites == 0:
        raise AnalysisError("no emptiness branch found in the comparers")


# ---------------------------------------------------------------- D6 ------
def d6_exit_and_ladders(chk: Check) -> None:
    prog = chk.prog
    model = CliModel(prog)
    # reuse the yaml-diff table of C16 under this property's rule id
    sub = Check("C06", prog, chk.tier)
    c16.d2_tables(sub, model)
    chk.rule("C06-D6a", "yaml-diff exits 1 iff some entry is not SAME, "
             "independently of display options", floor=3)
    for f in sub.findings:
        if f.rule == "C16-D2b":
            chk.fail("C06-D6a", None, None, f.construct, f.message)
    n_ok = sub.rules["C16-D2b"]["instances"] - \
        sub.rules["C16-D2b"]["violations"]
    for i in range(n_ok):
        chk.ok("C06-D6a", prog.func("yaml_diff.print_report"), None,
               "yaml-diff status obligation {}".format(i + 1),
               "discharged by the C16-D2b rule")
    chk.rule("C06-D6b", "DifferConfig accessors: per-path rule, CLI option, "
             "configured default, built-in POSITION", floor=2)
    for name, (enum, opt) in {"array_diff_mode": ("ArrayDiffOpts", "arrays"),
                              "aoh_diff_mode": ("AoHDiffOpts", "aoh")
                              }.items():
        fi = prog.func("DifferConfig." + name)
        got = c05.ladder(fi)
        want = [("rule", enum, ""), ("cli", enum, opt),
                ("config", enum, opt), ("default", enum, "POSITION")]
        if got == want:
            chk.ok("C06-D6b", fi, fi.node, name, "documented ladder")
        else:
            chk.fail("C06-D6b", fi, fi.node, name,
                     "ladder {} differs from the documented {}".format(
                         got, want))


def d11_fallback_key_always_found(chk: Check) -> None:
    """When no identity key is configured for an Array-of-Hashes the first
    key of the record stands in.  For a non-empty record that fallback
    *always* produces a key: it is one unconditional assignment under the
    fallback guard.  A fallback that searches for a "suitable" key (the
    first one holding a scalar, say) can come back empty-handed; the empty
    key then matches no record, and a document compared with itself is
    reported as n deletions plus n additions."""
    prog = chk.prog
    chk.rule("C06-D11", "under the first-key fallback of aoh_diff_key (and "
             "its sibling aoh_merge_key) the key is assigned "
             "unconditionally from the record's keys", floor=2)
    for q in ("DifferConfig.aoh_diff_key", "MergerConfig.aoh_merge_key"):
        fi = prog.func(q)
        rets = [r for r in walk_local(fi.node) if isinstance(r, ast.Return)
                and r.value is not None]
        if not rets:
            raise AnalysisError(q + ": return not found")
        rv = rets[-1].value
        key = src(rv.elts[0]) if isinstance(rv, ast.Tuple) else src(rv)
        arms = [st for st in fi.node.body if isinstance(st, ast.If) and
                "len(" in src(st.test) and "not " + key in src(st.test)]
        if len(arms) != 1:
            raise AnalysisError(q + ": fallback arm not found")
        arm = arms[0]
        direct = [st for st in arm.body if isinstance(st, ast.Assign) and
                  src(st.targets[0]) == key]
        text = "{}: fallback assignment of `{}`".format(fi.short, key)
        if direct:
            chk.ok("C06-D11", fi, direct[0], text,
                   "unconditional: " + src(direct[0].value))
        else:
            nested = [a for a in ast.walk(arm) if isinstance(a, ast.Assign)
                      and src(a.targets[0]) == key]
            chk.fail("C06-D11", fi, (nested or [arm])[0], text,
                     "the key is assigned only under a further condition: "
                     "a record none of whose attributes qualifies leaves "
                     "the identity key empty, so no record is paired with "
                     "its counterpart (every one is reported deleted and "
                     "added)")


def d12_documents_compared_as_given(chk: Check) -> None:
    """The Differ compares the two documents it is given -- the objects
    themselves.  What kind of node a root is (Hash, Array, Set, scalar)
    decides how it is compared, and that is read off its ruamel class.
    Passing the basis document through a helper that "unwraps" it rebuilds
    a sequence root as a plain list, which `_diff_between` then takes for a
    scalar: the whole left document becomes one DELETE."""
    prog = chk.prog
    chk.rule("C06-D12", "Differ.__init__ stores its document parameter "
             "unchanged, and compare_to hands its parameter to "
             "_diff_between unchanged", floor=2)
    init = prog.func("Differ.__init__")
    stores = [a for a in walk_local(init.node)
              if isinstance(a, (ast.Assign, ast.AnnAssign)) and
              a.value is not None and src(
                  a.targets[0] if isinstance(a, ast.Assign) else a.target)
              == "self._data"]
    docs = [x.id for a in stores for x in ast.walk(a.value)
            if isinstance(x, ast.Name) and x.id in init.params()]
    doc = docs[0] if docs else None
    if not stores:
        raise AnalysisError("Differ.__init__ does not store its document")
    for a in stores:
        text = "Differ.__init__: {}".format(src(a)[:60])
        if src(a.value) == doc:
            chk.ok("C06-D12", init, a, text, "the document as given")
        else:
            chk.fail("C06-D12", init, a, text,
                     "the basis document is converted before it is kept: a "
                     "root whose ruamel class is lost on the way (a "
                     "sequence rebuilt as a plain list) is compared as a "
                     "scalar")
    cmp_ = prog.func("Differ.compare_to")
    other = cmp_.params()[1]
    calls = [c for c in walk_local(cmp_.node) if isinstance(c, ast.Call) and
             src(c.func).endswith("_diff_between")]
    if not calls:
        raise AnalysisError("compare_to: _diff_between call not found")
    for c in calls:
        text = "compare_to: {}".format(src(c)[:60])
        args = [src(a) for a in c.args]
        if other in args and "self._data" in args:
            chk.ok("C06-D12", cmp_, c, text, "both documents as held")
        else:
            chk.fail("C06-D12", cmp_, c, text,
                     "the documents compared are not the stored basis and "
                     "the parameter themselves")


def d13_no_remembered_positions(chk: Check) -> None:
    """`_diff_synced_lists` turns a DELETE followed by an ADD at the same
    path into one CHANGE by removing the DELETE from the report.  The
    position to remove is found by scanning the report *at that moment*.
    A position remembered from when the DELETE was appended
    (`at[k] = len(self._diffs)`) is stale as soon as an earlier entry has
    been popped: the second conversion removes the wrong entry and an
    element ends up in no entry at all."""
    prog = chk.prog
    chk.rule("C06-D13", "no position in the report list is stored for later "
             "(`x[...] = len(self._diffs)` and the like) in a routine that "
             "also removes entries from it by position", floor=1)
    n = 0
    for fi in prog.funcs_in("yamlpath/differ/differ.py"):
        pops = [c for c in walk_local(fi.node) if isinstance(c, ast.Call) and
                isinstance(c.func, ast.Attribute) and c.func.attr == "pop"
                and src(c.func.value).startswith("self._") and c.args]
        dels = [d for d in walk_local(fi.node) if isinstance(d, ast.Delete)
                and any(isinstance(t, ast.Subscript) and
                        src(t.value).startswith("self._") for t in d.targets)]
        if not pops and not dels:
            continue
        n += 1
        lst = src((pops[0].func.value if pops else dels[0].targets[0].value))
        kept = [a for a in walk_local(fi.node) if isinstance(a, ast.Assign)
                and isinstance(a.targets[0], ast.Subscript) and
                "len({})".format(lst) in src(a.value)]
        text = "{}: positions of {}".format(fi.short, lst)
        if kept:
            chk.fail("C06-D13", fi, kept[0], text,
                     "`{}` remembers a position of {} although entries are "
                     "removed from it by position later on: after the first "
                     "removal every remembered position is off by one"
                     .format(src(kept[0])[:50], lst))
        else:
            chk.ok("C06-D13", fi, (pops or dels)[0], text,
                   "looked up when needed")
    if n < 1:
        raise AnalysisError("positional removals in differ.py: {}".format(n))


def d14_report_yields_every_entry(chk: Check) -> None:
    """`get_report()` hands out every recorded entry, ordered by its index.
    The index (line.column of the node, or a running number) is *not*
    unique -- two entries can sit at the same position -- so the entries
    are sorted as a sequence.  Collecting them in a dict or set keyed by
    the index keeps one entry per index and silently drops the others: the
    one real difference can disappear and the documents look the same."""
    prog = chk.prog
    chk.rule("C06-D14", "Differ.get_report iterates the recorded entries as "
             "a sequence (self._diffs, possibly sorted), never through a "
             "dict / set built from them", floor=1)
    fi = prog.func("Differ.get_report")
    keyed = [c for c in walk_local(fi.node)
             if isinstance(c, (ast.DictComp, ast.SetComp, ast.Dict)) or
             (isinstance(c, ast.Call) and src(c.func) in ("dict", "set"))]
    loops = [l for l in walk_local(fi.node) if isinstance(l, ast.For) and
             any(isinstance(y, (ast.Yield, ast.YieldFrom))
                 for st in l.body for y in ast.walk(st))]
    if not loops:
        raise AnalysisError("get_report: yielding loop not found")
    text = "get_report: for ... in {}".format(src(loops[0].iter)[:40])
    if keyed:
        chk.fail("C06-D14", fi, keyed[0], text,
                 "the entries are collected under a key first: entries "
                 "that share it (same position in the file, or no position "
                 "at all for documents built in memory) overwrite one "
                 "another and are missing from the report")
    elif "self._diffs" in src(loops[0].iter):
        chk.ok("C06-D14", fi, loops[0], text, "every recorded entry")
    else:
        chk.fail("C06-D14", fi, loops[0], text,
                 "the report does not range over self._diffs")


def d15_alternate_key_only_when_configured(chk: Check) -> None:
    """When records are paired by an identity key, a record-specific
    ("alternate") key may replace the Array-wide one only if the user
    configured keys at all; with an *inferred* key every record must be
    looked up by the same field.  Otherwise each right-hand record is
    matched on its own first field, and a reordered copy of the same
    records is reported as changed."""
    prog = chk.prog
    chk.rule("C06-D15", "synchronize_lods_by_key uses a record's alternate "
             "key only under the is-user-key flag", floor=1)
    fi = prog.func("Differ.synchronize_lods_by_key")
    flags = [src(a.targets[0].elts[1]) for a in walk_local(fi.node)
             if isinstance(a, ast.Assign) and
             isinstance(a.targets[0], ast.Tuple) and
             len(a.targets[0].elts) == 2 and isinstance(a.value, ast.Call)
             and src(a.value.func).endswith("aoh_diff_key")]
    flags = [f_ for f_ in flags if f_ != "_"]
    if not flags:
        raise AnalysisError("is-user-key flag not found")
    flag = flags[0]
    n = 0
    for a in walk_local(fi.node):
        if not (isinstance(a, ast.Assign) and isinstance(a.value, (
                ast.Name, ast.IfExp)) and "alt_key" in src(a.value) and
                src(a.targets[0]) != "alt_key"):
            continue
        n += 1
        def mentions(e) -> bool:
            return any(isinstance(x, ast.Name) and x.id == flag
                       for x in ast.walk(e))
        guarded = any(f.kind == "cond" and f.pol and mentions(f.expr)
                      for f in facts_at(a)) or (
            isinstance(a.value, ast.IfExp) and mentions(a.value.test))
        text = "synchronize_lods_by_key: {}".format(src(a)[:50])
        if guarded:
            chk.ok("C06-D15", fi, a, text, "under `{}`".format(flag))
        else:
            chk.fail("C06-D15", fi, a, text,
                     "the alternate key is used whether or not keys were "
                     "configured: with an inferred identity key each record "
                     "is matched on its own first field")
    if n < 1:
        raise AnalysisError("alternate-key assignment not found")


def run(chk: Check) -> None:
    d1_entries(chk)
    d2_dispatch(chk)
    d2b_kind_clash_is_reported(chk)
    d3_modes(chk)
    d4_absent(chk)
    d4b_falsy(chk)
    d4c_fresh_report(chk)
    d4d_search_results_fresh(chk)
    d1c_positions_carried(chk)
    d1d_every_pair_reported(chk)
    d7_equality_only(chk)
    d7b_identity_only_for_singletons(chk)
    from rules.shared import shared_state_rule
    shared_state_rule(chk, "C06-D8", ("yamlpath/differ/differ.py",
                                  "yamlpath/differ/differconfig.py",
                                  "yamlpath/differ/diffentry.py"), 20)
    from rules.shared import readonly_lookups_rule
    readonly_lookups_rule(chk, "C06-D9",
                          ("yamlpath/differ/differconfig.py",), 1)
    from rules.shared import implicit_ordering_rule
    implicit_ordering_rule(chk, "C06-D10",
                           chk.prog.funcs_in("yamlpath/differ/differ.py"), 10)
    d5_both_sides(chk)
    d11_fallback_key_always_found(chk)
    d12_documents_compared_as_given(chk)
    d13_no_remembered_positions(chk)
    d14_report_yields_every_entry(chk)
    d15_alternate_key_only_when_configured(chk)
    d6_exit_and_ladders(chk)
