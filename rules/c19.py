"""C19 -- EYAML key rotation re-keys every secret once.

Decided clauses (DESIGN.md section 4, C19):
  D1  marker recognition normal form (non-strings are not secrets; value
      with {space, newline} removed starts with "ENC["); the decrypt helper
      strips the same characters;
  D2  key typestate in the rotation loop (old pair before decrypt, new pair
      before re-encrypt);
  D3  an anchor seen before is skipped before the decrypt call;
  D4  backup and write only under the changed flag, set only after a
      successful re-encryption; backup precedes the write;
  D5  discovery recursion covers sequences and maps, tests every element
      with the marker predicate and builds paths with the escaping routine;
  D6  both EYAML handlers record a non-zero exit state.
"""
from __future__ import annotations

import ast
from typing import Dict, List, Optional, Set, Tuple

from rules import c17
from sa.cli import CliModel
from sa.guards import facts_at
from sa.model import (AnalysisError, FuncInfo, Program, ancestors, parent,
                      src, walk_local)
from sa.report import Check

META = {
    "explanation": (
        "Static decision over eyaml_rotate_keys.main and EYAMLProcessor: "
        "the marker predicate is reduced to a normal form (isinstance str "
        "guard; chain of .replace(c, '') removing at least space and "
        "newline; startswith('ENC[')); in the rotation loop the last key "
        "assignments before the decrypt call come from the old key options "
        "and those before the re-encrypt call from the new ones; the "
        "seen-anchor skip dominates the decrypt call; file effects are "
        "guarded by the changed flag which is set only after the "
        "re-encryption try whose handlers all leave the iteration; the "
        "discovery recursion handles both container kinds, tests each "
        "element with the predicate and escapes keys.  Nothing is "
        "executed."),
    "declined": ["decryptability under old/new keys (external process)",
                 "that non-encrypted content is byte-identical after a "
                 "ruamel round trip"],
    "assumptions": ["eyaml command protocol"],
    "trusted_base": ["external eyaml binary", "ruamel.yaml dump"],
}

ROTATE = "yamlpath/commands/eyaml_rotate_keys.py"


def d1_marker(chk: Check) -> None:
    prog = chk.prog
    chk.rule("C19-D1", "is_eyaml_value: non-str -> False; otherwise the "
             "value with at least space and newline removed "
             "startswith('ENC['); decrypt_eyaml strips the same set",
             floor=3)
    fi = prog.func("EYAMLProcessor.is_eyaml_value")
    chk.analysed(fi)
    p = fi.params()[0]
    guard = False
    for n in fi.node.body:
        if isinstance(n, ast.If) and src(n.test).replace(" ", "") == \
                "notisinstance({},str)".format(p) and \
                any(isinstance(s, ast.Return) and src(s.value) == "False"
                    for s in n.body):
            guard = True
    # the same decision with the arms the other way round:
    # `if isinstance(v, str): return <marker test>` / `return False`
    pos_if = [n for n in fi.node.body if isinstance(n, ast.If) and
              src(n.test).replace(" ", "") == "isinstance({},str)".format(p)
              and not n.orelse and len(n.body) == 1 and
              isinstance(n.body[0], ast.Return)]
    last = fi.node.body[-1]
    if pos_if and isinstance(last, ast.Return) and src(last.value) == "False":
        guard = True
    if guard:
        chk.ok("C19-D1", fi, fi.node, "non-str guard",
               "non-string values are not secrets")
    else:
        chk.fail("C19-D1", fi, fi.node, "non-str guard",
                 "non-string values are no longer rejected first")
    rets = [n for n in fi.node.body if isinstance(n, ast.Return)]
    if pos_if and isinstance(last, ast.Return) and src(last.value) == "False":
        rets = [pos_if[0].body[0]]
    ok = False
    if rets:
        removed, base, tail = _replace_chain(rets[-1].value)
        if tail == ("startswith", "ENC[") and base == p and \
                {" ", "\n"} <= removed:
            ok = True
            chk.ok("C19-D1", fi, rets[-1], src(rets[-1].value),
                   "strips {} then startswith('ENC[')".format(
                       sorted(repr(c) for c in removed)))
    if not ok:
        chk.fail("C19-D1", fi, fi.node, "marker test",
                 "the marker test is not `value minus whitespace/newlines "
                 "startswith \"ENC[\"`")
    de = prog.func("EYAMLProcessor.decrypt_eyaml")
    found = False
    for n in walk_local(de.node):
        if isinstance(n, (ast.Assign, ast.AnnAssign)) and n.value is not None:
            removed, base, tail = _replace_chain(n.value)
            if {" ", "\n"} <= removed:
                found = True
                chk.ok("C19-D1", de, n, src(n.value)[:70],
                       "decrypt strips the same characters")
    if not found:
        chk.fail("C19-D1", de, de.node, "clean value",
                 "decrypt_eyaml no longer strips spaces and newlines from "
                 "the value handed to the eyaml command")


def _replace_chain(e: Optional[ast.AST]
                   ) -> Tuple[Set[str], Optional[str], Optional[Tuple]]:
    removed: Set[str] = set()
    tail = None
    cur = e
    if isinstance(cur, ast.Call) and isinstance(cur.func, ast.Attribute) and \
            cur.func.attr == "startswith" and cur.args and \
            isinstance(cur.args[0], ast.Constant):
        tail = ("startswith", cur.args[0].value)
        cur = cur.func.value
    while isinstance(cur, ast.Call) and isinstance(cur.func, ast.Attribute):
        if cur.func.attr == "replace" and len(cur.args) == 2 and \
                isinstance(cur.args[0], ast.Constant) and \
                isinstance(cur.args[1], ast.Constant) and \
                cur.args[1].value == "":
            removed.add(cur.args[0].value)
            cur = cur.func.value
        elif cur.func.attr in ("rstrip", "strip", "lstrip") and not cur.args:
            cur = cur.func.value
        else:
            break
    if isinstance(cur, ast.Call) and isinstance(cur.func, ast.Name) and \
            cur.func.id == "str" and cur.args:
        cur = cur.args[0]
    return removed, (src(cur) if cur is not None else None), tail


def _inner_loop(main: FuncInfo) -> ast.For:
    """The loop whose body decrypts: the innermost for around the decrypt
    call (its iterable is the query result, directly or through a local)."""
    decs = [c for c in walk_local(main.node) if isinstance(c, ast.Call)
            and src(c.func).endswith(".decrypt_eyaml")]
    if len(decs) != 1:
        raise AnalysisError("decrypt call of the rotation not found")
    for a in ancestors(decs[0]):
        if isinstance(a, ast.For):
            return a
    raise AnalysisError("rotation loop not found")


def d2_d3(chk: Check) -> None:
    prog = chk.prog
    chk.rule("C19-D2", "the decrypt call runs with the old key pair and the "
             "re-encrypt call with the new key pair", floor=2)
    chk.rule("C19-D3", "a value whose anchor was already rotated is skipped "
             "before the decrypt call", floor=2)
    main = c17.fn(prog, ROTATE, "main")
    chk.analysed(main)
    loop = _inner_loop(main)
    events: List[Tuple[int, str, str]] = []
    for n in walk_local(loop):
        if isinstance(n, ast.Assign) and \
                isinstance(n.targets[0], ast.Attribute) and \
                n.targets[0].attr in ("publickey", "privatekey"):
            events.append((n.lineno, "key:" + n.targets[0].attr,
                           src(n.value)))
        elif isinstance(n, ast.Call) and src(n.func).endswith(
                ".decrypt_eyaml"):
            events.append((n.lineno, "decrypt", ""))
        elif isinstance(n, ast.Call) and src(n.func).endswith(
                ".set_eyaml_value"):
            events.append((n.lineno, "encrypt", ""))
    events.sort()
    cur: Dict[str, str] = {}
    seen = {"decrypt": False, "encrypt": False}
    for line, kind, val in events:
        if kind.startswith("key:"):
            cur[kind[4:]] = val
            continue
        want = "old" if kind == "decrypt" else "new"
        seen[kind] = True
        pub, prv = cur.get("publickey", ""), cur.get("privatekey", "")
        text = "{} with publickey={} privatekey={}".format(kind, pub, prv)
        if want in pub and want in prv and "public" in pub and \
                "private" in prv:
            chk.ok("C19-D2", main, None, text,
                   "last key assignments before the call are the {} pair"
                   .format(want))
        else:
            chk.fail("C19-D2", main, None, text,
                     "the {} call runs with keys ({}, {}) instead of the "
                     "{} key pair".format(kind, pub or "unset",
                                          prv or "unset", want))
    if not (seen["decrypt"] and seen["encrypt"]):
        raise AnalysisError("decrypt / re-encrypt calls not found")
    # D3: seen-anchor test with continue precedes decrypt in the loop body
    dec = [n for n in walk_local(loop) if isinstance(n, ast.Call)
           and src(n.func).endswith(".decrypt_eyaml")][0]
    skip = None
    for n in walk_local(loop):
        if isinstance(n, ast.If) and isinstance(n.test, ast.Compare) and \
                isinstance(n.test.ops[0], ast.In) and \
                any(isinstance(s, ast.Continue) for s in n.body) and \
                n.lineno < dec.lineno:
            lst = src(n.test.comparators[0])
            key = src(n.test.left)
            # the name is recorded right after the test
            par = parent(n)
            blk = getattr(par, "body", [])
            after = blk[blk.index(n) + 1:] if n in blk else []
            rec = any(isinstance(s, ast.Expr) and
                      src(s.value) == "{}.append({})".format(lst, key)
                      for s in after)
            from_anchor = any(
                isinstance(a, (ast.Assign,)) and src(a.targets[0]) == key and
                "get_node_anchor" in src(a.value)
                for a in walk_local(loop))
            if rec and from_anchor:
                skip = n
    if skip is not None:
        chk.ok("C19-D3", main, skip, "if " + src(skip.test),
               "seen anchors are skipped (continue) and new ones recorded "
               "before the decrypt call")
        # anchor names are per document: the seen-list must start empty
        # for every file, or a name met in one file suppresses the
        # rotation of the secret so named in every later file
        lst = src(skip.test.comparators[0])
        file_loops = [a for a in ancestors(loop) if isinstance(a, ast.For)]
        inits = [n for n in walk_local(main.node)
                 if isinstance(n, (ast.Assign, ast.AnnAssign)) and
                 src(n.targets[0] if isinstance(n, ast.Assign)
                     else n.target) == lst]
        per_file = [n for n in inits if file_loops and
                    parent(n) is file_loops[-1] and
                    n.value is not None and src(n.value) in ("[]", "list()",
                                                             "set()")]
        if per_file and file_loops:
            chk.ok("C19-D3", main, per_file[0], src(per_file[0]),
                   "seen-list emptied for each file, outside the per-value "
                   "loop")
        else:
            chk.fail("C19-D3", main, inits[0] if inits else loop,
                     "`{}` initialisation".format(lst),
                     "the seen-anchor list is not re-initialised for each "
                     "file: an anchor name met in an earlier file makes the "
                     "same-named secret of a later file look already "
                     "rotated, and it keeps its old keys")
    else:
        chk.fail("C19-D3", main, loop, "seen-anchor skip",
                 "values shared through an anchor are not skipped before "
                 "decryption: they would be rotated more than once")


def d2b_fidelity(chk: Check) -> None:
    """The plaintext travels: decrypt tool stdout -> decrypt_eyaml result
    -> set_eyaml_value argument -> encrypt tool stdin.  On that way it may
    lose the tool's line terminator (a trailing-whitespace trim) and
    nothing else: no strip()/lstrip(), slicing, replace or re-casing."""
    prog = chk.prog
    chk.rule("C19-D2b", "between the decrypt tool's stdout and the encrypt "
             "tool's stdin the plaintext is changed by at most a trailing-"
             "whitespace trim", floor=5)
    dec = prog.func("EYAMLProcessor.decrypt_eyaml")
    enc = prog.func("EYAMLProcessor.encrypt_eyaml")
    chk.analysed(dec)
    chk.analysed(enc)

    def chain(e: ast.AST) -> Tuple[List[str], ast.AST]:
        """Method/attribute chain applied on top of a base expression."""
        ops: List[str] = []
        while True:
            if isinstance(e, ast.Call) and isinstance(e.func, ast.Attribute):
                ops.append(e.func.attr + "(" + ", ".join(
                    src(a) for a in e.args) + ")")
                e = e.func.value
            elif isinstance(e, ast.Attribute):
                ops.append("." + e.attr)
                e = e.value
            elif isinstance(e, ast.Subscript):
                ops.append("[" + src(e.slice) + "]")
                e = e.value
            else:
                return list(reversed(ops)), e

    # 1. decrypt: what is made of run(...).stdout
    runs = [c for c in walk_local(dec.node) if isinstance(c, ast.Call) and
            src(c.func) == "run"]
    if len(runs) != 1:
        raise AnalysisError("decrypt tool invocation not found")
    top: ast.AST = runs[0]
    while isinstance(parent(top), (ast.Attribute, ast.Call,
                                   ast.Subscript)) and \
            (getattr(parent(top), "value", None) is top or
             getattr(parent(top), "func", None) is top):
        top = parent(top)
    ops, _ = chain(top)
    text = "run(...)" + "".join("." + o.lstrip(".") for o in ops)
    allowed = [o for o in ops if o == ".stdout" or o.startswith("decode(")
               or o.startswith("rstrip(")]
    if ops and allowed == ops and ".stdout" in ops:
        chk.ok("C19-D2b", dec, top, text, "stdout, decoded, trailing trim "
               "only")
    else:
        chk.fail("C19-D2b", dec, top, text,
                 "the decrypted text is altered by {}: a secret with "
                 "leading whitespace (or other affected text) is re-keyed "
                 "to a different plaintext".format(
                     [o for o in ops if o not in allowed]))
    asg = parent(top)
    rname = src(asg.target) if isinstance(asg, ast.AnnAssign) else (
        src(asg.targets[0]) if isinstance(asg, ast.Assign) else None)
    if rname is None:
        raise AnalysisError("decrypted text variable not found")
    later = [n for n in walk_local(dec.node)
             if isinstance(n, (ast.Assign, ast.AnnAssign, ast.AugAssign))
             and n is not asg and src(
                 n.targets[0] if isinstance(n, ast.Assign) else n.target)
             == rname]
    rets = [r for r in walk_local(dec.node) if isinstance(r, ast.Return)
            and r.value is not None and r.lineno > top.lineno]
    if not later and rets and all(src(r.value) == rname for r in rets):
        chk.ok("C19-D2b", dec, rets[-1], "return " + rname,
               "returned as obtained")
    else:
        chk.fail("C19-D2b", dec, (later or rets or [dec.node])[0],
                 "result of decrypt_eyaml",
                 "the decrypted text is re-assigned or not returned as "
                 "obtained")
    # 2. encrypt: what is fed to the tool
    value = enc.params()[1]
    runs = [c for c in walk_local(enc.node) if isinstance(c, ast.Call) and
            src(c.func) == "run"]
    if len(runs) != 1:
        raise AnalysisError("encrypt tool invocation not found")
    inp = {k.arg: k.value for k in runs[0].keywords}.get("input")
    from sa.coords import reaching_def
    d = reaching_def(src(inp), runs[0]) if isinstance(inp, ast.Name) else inp
    reassigned = [n for n in walk_local(enc.node)
                  if isinstance(n, (ast.Assign, ast.AnnAssign, ast.AugAssign))
                  and src(n.targets[0] if isinstance(n, ast.Assign)
                          else n.target) == value]
    if d is not None and not reassigned and \
            src(d).replace('"', "'").startswith(value + ".encode("):
        chk.ok("C19-D2b", enc, runs[0], "input=" + src(d),
               "the caller's text, encoded, unmodified")
    else:
        chk.fail("C19-D2b", enc, runs[0], "input={}".format(
            src(d) if d is not None else "?"),
            "the text handed to the encrypt tool is not the caller's value "
            "as given")
    sv = prog.func("EYAMLProcessor.set_eyaml_value")
    chk.analysed(sv)
    svv = sv.params()[2]
    ecalls = [c for c in walk_local(sv.node) if isinstance(c, ast.Call) and
              src(c.func).endswith(".encrypt_eyaml")]
    sv_touched = [n for n in walk_local(sv.node)
                  if isinstance(n, (ast.Assign, ast.AugAssign)) and src(
                      n.targets[0] if isinstance(n, ast.Assign)
                      else n.target) == svv]
    if len(ecalls) == 1 and ecalls[0].args and \
            src(ecalls[0].args[0]) == svv and not sv_touched:
        chk.ok("C19-D2b", sv, ecalls[0], src(ecalls[0])[:60],
               "set_eyaml_value hands its value to encrypt_eyaml as given")
    else:
        chk.fail("C19-D2b", sv, sv.node, "set_eyaml_value -> encrypt_eyaml",
                 "the value to store is altered before encryption")
    # 3. the tool: decrypt result -> set_eyaml_value argument
    main = c17.fn(prog, ROTATE, "main")
    loop = _inner_loop(main)
    decs = [n for n in walk_local(loop) if isinstance(n, ast.Assign) and
            isinstance(n.value, ast.Call) and
            src(n.value.func).endswith(".decrypt_eyaml")]
    sets = [c for c in walk_local(loop) if isinstance(c, ast.Call) and
            src(c.func).endswith(".set_eyaml_value")]
    if len(decs) != 1 or len(sets) != 1:
        raise AnalysisError("rotation decrypt/set pair not found")
    tv = src(decs[0].targets[0])
    touched = [n for n in walk_local(loop)
               if isinstance(n, (ast.Assign, ast.AugAssign)) and
               n is not decs[0] and src(
                   n.targets[0] if isinstance(n, ast.Assign) else n.target)
               == tv]
    if len(sets[0].args) >= 2 and src(sets[0].args[1]) == tv and not touched:
        chk.ok("C19-D2b", main, sets[0], "set_eyaml_value(<path>, {}, ...)"
               .format(tv), "the decrypted text itself is re-encrypted")
    else:
        chk.fail("C19-D2b", main, sets[0], src(sets[0])[:60],
                 "what is re-encrypted is not the text just decrypted")


def d2c_echo_test(chk: Check) -> None:
    """decrypt_eyaml recognises a failed decryption by the tool echoing
    its input.  What is echoed is the text that was *sent* (marker text
    with whitespace removed), so that is what the output must be compared
    with; compared with the caller's value, a folded / multi-line value
    that comes back unchanged passes as "decrypted" and is written back."""
    from sa.coords import reaching_def
    prog = chk.prog
    chk.rule("C19-D2c", "the failed-decryption test compares the tool's "
             "output with the text that was sent to the tool", floor=1)
    fi = prog.func("EYAMLProcessor.decrypt_eyaml")
    runs = [c for c in walk_local(fi.node) if isinstance(c, ast.Call) and
            src(c.func) == "run"]
    if len(runs) != 1:
        raise AnalysisError("decrypt tool invocation not found")
    inp = {k.arg: k.value for k in runs[0].keywords}.get("input")
    d = reaching_def(inp.id, runs[0]) if isinstance(inp, ast.Name) else inp
    if isinstance(d, ast.Call) and isinstance(d.func, ast.Attribute) \
            and d.func.attr == "encode":
        sent = src(d.func.value)
    elif isinstance(inp, ast.Name):
        sent = inp.id       # handed over as text (C19-D8 judges the pipes)
    else:
        raise AnalysisError("text sent to the decrypt tool not found")
    top: ast.AST = runs[0]
    while isinstance(parent(top), (ast.Attribute, ast.Call)) and \
            (getattr(parent(top), "value", None) is top or
             getattr(parent(top), "func", None) is top):
        top = parent(top)
    asg = parent(top)
    out = src(asg.target) if isinstance(asg, ast.AnnAssign) else (
        src(asg.targets[0]) if isinstance(asg, ast.Assign) else None)
    tests = [c for c in walk_local(fi.node) if isinstance(c, ast.Compare)
             and len(c.ops) == 1 and isinstance(c.ops[0], ast.Eq) and
             out in (src(c.left), src(c.comparators[0]))]
    if not tests:
        chk.fail("C19-D2c", fi, fi.node, "echo test",
                 "the tool's output is never compared with what was sent: "
                 "an echoed (undecrypted) value is taken for plaintext")
        return
    for t in tests:
        other = src(c_) if (c_ := (t.comparators[0]
                                   if src(t.left) == out else t.left)) \
            is not None else "?"
        if other == sent:
            chk.ok("C19-D2c", fi, t, src(t), "compared with `{}`, the text "
                   "encoded into the tool's input".format(sent))
        else:
            chk.fail("C19-D2c", fi, t, src(t),
                     "the output is compared with `{}`, but what was sent "
                     "to the tool is `{}`".format(other, sent))


def d8_byte_pipes(chk: Check) -> None:
    """The plaintext travels between yamlpath and the eyaml tool through
    pipes.  Byte pipes hand it through verbatim; text-mode pipes
    (`universal_newlines` / `text` / `encoding` / `errors`) translate every
    CR LF and lone CR read from the tool into LF and decode with the
    locale's codec: the value re-encrypted during a rotation is then the
    encryption of another plaintext."""
    prog = chk.prog
    chk.rule("C19-D8", "every invocation of the eyaml tool exchanges bytes "
             "(no text-mode pipe option), encoded from / decoded to text "
             "explicitly", floor=2)
    text_opts = ("universal_newlines", "text", "encoding", "errors")
    n = 0
    for fi in prog.funcs_in("yamlpath/eyaml/eyamlprocessor.py"):
        for c in walk_local(fi.node):
            if not (isinstance(c, ast.Call) and src(c.func) in
                    ("run", "subprocess.run", "Popen", "subprocess.Popen",
                     "check_output", "subprocess.check_output")):
                continue
            kws = {k.arg: k.value for k in c.keywords}
            if "input" not in kws and "stdout" not in kws:
                continue
            n += 1
            bad = [o for o in text_opts if o in kws and not (
                isinstance(kws[o], ast.Constant) and
                kws[o].value in (False, None))]
            if None in kws:
                bad.append("**" + src(kws[None]))
            text = "{}: {}(...)".format(fi.short, src(c.func))
            if bad:
                chk.fail("C19-D8", fi, c, text,
                         "the pipe to the eyaml tool is opened in text mode "
                         "({}): carriage returns in a secret are rewritten "
                         "to line feeds on the way back and the rotated "
                         "value encrypts another plaintext".format(
                             ", ".join(bad)))
            else:
                chk.ok("C19-D8", fi, c, text, "byte pipes")
    if n < 2:
        raise AnalysisError("eyaml tool invocations not found")


def d7_keys_differ(chk: Check) -> None:
    """Rotation to an unchanged key is not a rotation: the run is refused
    when the private keys are the same *or* the public keys are the same
    (re-encrypting under the old public key leaves every value readable
    with the old private key only)."""
    from sa.boolean import NotBoolean, truth_table
    prog = chk.prog
    chk.rule("C19-D7", "eyaml-rotate-keys refuses to run when either key of "
             "the new pair equals the corresponding old key (truth table)",
             floor=1)
    fi = c17.fn(prog, ROTATE, "validateargs")
    chk.analysed(fi)
    hits = 0
    for n in walk_local(fi.node):
        if not isinstance(n, ast.If):
            continue
        cmps = [c for c in ast.walk(n.test) if isinstance(c, ast.Compare)
                and len(c.ops) == 1 and isinstance(c.ops[0], ast.Eq)
                and "key" in src(c).lower() and "old" in src(c)
                and "new" in src(c)]
        if len(cmps) < 2:
            continue
        hits += 1
        atoms = [src(c) for c in cmps]
        text = "if " + src(n.test)[:80]
        try:
            tt = truth_table(n.test, atoms)
        except NotBoolean as ex:
            raise AnalysisError("key test not boolean: {}".format(ex))
        ok = all(val == any(combo) for combo, val in tt.items())
        sets_error = any(isinstance(s_, ast.Assign) and
                         src(s_.value) == "True" for s_ in n.body)
        if ok and sets_error:
            chk.ok("C19-D7", fi, n, text, "true as soon as one pair of keys "
                   "is equal; sets the error flag")
        else:
            chk.fail("C19-D7", fi, n, text,
                     "the refusal does not fire for every combination with "
                     "an unchanged key (truth table {}): the secrets are "
                     "re-encrypted under a key that was to be retired"
                     .format({k: v for k, v in tt.items()}))
    if hits == 0:
        raise AnalysisError("old/new key comparison not found")


def d4_changed(chk: Check, model: CliModel) -> None:
    c17.d6_rotate(chk, model, rid="C19-D4a")
    prog = chk.prog
    chk.rule("C19-D4", "backup precedes the write of the rotated file",
             floor=1)
    main = c17.fn(prog, ROTATE, "main")
    bo = c17.BackupOrder(model, main)
    bo.run()
    for node, msg in bo.violations:
        chk.fail("C19-D4", main, node, src(node)[:60], msg)
    for node, why in bo.truncs:
        chk.ok("C19-D4", main, node, src(node)[:60], why)


def d5_discovery(chk: Check) -> None:
    prog = chk.prog
    chk.rule("C19-D5", "discovery recursion: sequences and maps are both "
             "descended, every element is tested with is_eyaml_value, and "
             "key text enters the path through escape_path_section",
             floor=4)
    fi = prog.func("EYAMLProcessor._find_eyaml_paths")
    chk.analysed(fi)
    kinds = {"seq": False, "map": False}
    for n in walk_local(fi.node):
        if isinstance(n, ast.If) and "isinstance" in src(n.test):
            t = src(n.test)
            which = "seq" if "CommentedSeq" in t or "list" in t else \
                "map" if "CommentedMap" in t or "dict" in t else None
            if which is None:
                continue
            loops = [s for s in n.body if isinstance(s, ast.For)]
            if not loops:
                continue
            loop = loops[0]
            tests = [c for c in walk_local(loop) if isinstance(c, ast.Call)
                     and src(c.func).endswith("is_eyaml_value")]
            rec = [c for c in walk_local(loop) if isinstance(c, ast.Call)
                   and src(c.func).endswith("_find_eyaml_paths")]
            ylds = [y for y in walk_local(loop)
                    if isinstance(y, ast.Yield)]
            if tests and rec and len(ylds) >= 2 and not any(
                    isinstance(x, (ast.Break, ast.Continue))
                    for x in walk_local(loop)):
                kinds[which] = True
                chk.ok("C19-D5", fi, loop, which + " branch",
                       "tests each element, yields matches, recurses into "
                       "the rest, no early leave")
    for which, ok in kinds.items():
        if not ok:
            chk.fail("C19-D5", fi, fi.node, which + " branch",
                     "the discovery recursion no longer covers {} "
                     "containers completely".format(which))
    # escaping of key / anchor text
    adds = [n for n in walk_local(fi.node) if isinstance(n, ast.BinOp)
            and isinstance(n.op, ast.Add) and src(n.left) == fi.params()[-1]]
    for n in adds:
        right = n.right
        from sa.coords import resolve, parse_segment
        r = resolve(right, n)
        text = src(n)
        if isinstance(r, ast.Call) and \
                src(r.func).endswith("escape_path_section"):
            chk.ok("C19-D5", fi, n, text[:70], "key escaped")
        elif isinstance(r, ast.IfExp) or isinstance(right, ast.Name):
            # tmp_path_segment: f"[&{escaped}]" or f"[{idx}]"
            defs = [d for d in walk_local(fi.node)
                    if isinstance(d, ast.Assign) and
                    src(d.targets[0]) == src(right)]
            good = bool(defs)
            for d in defs:
                seg = parse_segment(d.value)
                if seg is None or seg.form not in ("index", "anchor",
                                                   "anchor-raw"):
                    good = False
                elif seg.form == "anchor-raw":
                    inner = resolve(seg.key, d) if seg.key is not None \
                        else None
                    if not (isinstance(inner, ast.Call) and src(
                            inner.func).endswith("escape_path_section")):
                        good = False
            if good:
                chk.ok("C19-D5", fi, n, text[:70],
                       "index or escaped-anchor segment")
            else:
                chk.fail("C19-D5", fi, n, text[:70],
                         "path segment is built from unescaped text")
        else:
            chk.fail("C19-D5", fi, n, text[:70],
                     "path segment is built from unescaped text")


def d6_handlers(chk: Check) -> None:
    prog = chk.prog
    chk.rule("C19-D6", "both EYAML handlers of the rotation loop record a "
             "non-zero exit state", floor=2)
    main = c17.fn(prog, ROTATE, "main")
    loop = _inner_loop(main)
    # every handler inside the per-file loop (not only the per-value one):
    # a swallowed failure anywhere on the way to a secret leaves it under
    # the old keys while the run reports success
    file_loops = [a for a in ancestors(loop) if isinstance(a, ast.For)]
    scope = file_loops[-1] if file_loops else loop
    for h in walk_local(scope):
        if isinstance(h, ast.ExceptHandler):
            sets = [s for s in h.body if isinstance(s, ast.Assign) and
                    isinstance(s.value, ast.Constant) and
                    isinstance(s.value.value, int) and s.value.value != 0]
            if sets:
                chk.ok("C19-D6", main, h, "except " + src(h.type),
                       src(sets[0]))
            else:
                chk.fail("C19-D6", main, h, "except " + src(h.type),
                         "an EYAML failure is logged but the exit state "
                         "stays 0")


def d3b_skip_key_is_own_anchor(chk: Check) -> None:
    """"Rotated once and stays shared" is keyed on the anchor of the
    encrypted *value itself*: two aliases of one anchored scalar are one
    value.  An ancestor's anchor identifies a container, not a value: keyed
    on it, the second secret of an anchored hash is taken for "already
    rotated" and keeps its old-key ciphertext while the run exits 0."""
    from sa.coords import reaching_def
    prog = chk.prog
    chk.rule("C19-D3b", "the name tested against / added to the seen-"
             "anchors record is the anchor of the matched node itself, on "
             "every definition", floor=1)
    main = c17.fn(prog, ROTATE, "main")
    tests = [t for t in walk_local(main.node) if isinstance(t, ast.Compare)
             and len(t.ops) == 1 and isinstance(t.ops[0], (ast.In, ast.NotIn))
             and isinstance(t.comparators[0], ast.Name) and
             isinstance(t.left, ast.Name) and
             # the record: a local list that the tested name is appended to
             any(isinstance(c, ast.Call) and
                 isinstance(c.func, ast.Attribute) and
                 c.func.attr == "append" and
                 src(c.func.value) == src(t.comparators[0]) and
                 c.args and src(c.args[0]) == t.left.id
                 for c in walk_local(main.node))]
    if not tests:
        return      # C19-D3 reports a missing / misplaced skip test
    name = tests[0].left.id
    loop = [a for a in ancestors(tests[0]) if isinstance(a, ast.For)][0]
    coord = src(loop.target)
    defs = [a for a in walk_local(loop) if isinstance(a, ast.Assign) and
            src(a.targets[0]) == name]
    if not defs:
        raise AnalysisError("definition of the skip key not found")
    for d in defs:
        v = d.value
        ok = False
        if isinstance(v, ast.Call) and \
                src(v.func).endswith("get_node_anchor") and len(v.args) == 1:
            a0 = v.args[0]
            if src(a0) == coord + ".node":
                ok = True
            elif isinstance(a0, ast.Name):
                dd = reaching_def(a0.id, d)
                ok = dd is not None and src(dd) == coord + ".node"
        text = "{} = {}".format(name, src(v)[:50])
        if ok:
            chk.ok("C19-D3b", main, d, text, "anchor of the matched node")
        else:
            chk.fail("C19-D3b", main, d, text,
                     "the skip key is not the matched value's own anchor: "
                     "values that merely live under the same anchored "
                     "container are taken for one value and all but the "
                     "first keep their old ciphertext")


def d9_whole_file_writes_truncate(chk: Check, rid: str = "C19-D9",
                                  relpaths=(ROTATE,)) -> None:
    """A file that receives a whole dumped document is opened with a
    truncating mode.  Opened 'r+' (or 'a'), a document shorter than the old
    file leaves the old tail behind it: stale or unparsable content after a
    run that exits 0."""
    prog = chk.prog
    chk.rule(rid, "every file that a whole document is dumped into is "
             "opened in a truncating mode ('w' / 'wb' / 'w+')", floor=1)
    n = 0
    for fi in prog.functions.values():
        if fi.module.relpath not in relpaths:
            continue
        for w in walk_local(fi.node):
            if not isinstance(w, ast.With):
                continue
            for item in w.items:
                c = item.context_expr
                if not (isinstance(c, ast.Call) and src(c.func) == "open" and
                        item.optional_vars is not None):
                    continue
                handle = src(item.optional_vars)
                dumps = [x for st in w.body for x in ast.walk(st)
                         if isinstance(x, ast.Call) and (
                             (src(x.func).endswith(".dump") and any(
                                 src(a) == handle for a in x.args)) or
                             src(x.func) in (handle + ".write",
                                             handle + ".writelines"))]
                if not dumps:
                    continue
                mode = c.args[1] if len(c.args) > 1 else next(
                    (k.value for k in c.keywords if k.arg == "mode"), None)
                n += 1
                text = "{}: open({}, {})".format(
                    fi.short, src(c.args[0])[:20] if c.args else "?",
                    src(mode) if mode is not None else "<default 'r'>")
                if isinstance(mode, ast.Constant) and \
                        isinstance(mode.value, str) and \
                        mode.value.startswith("w"):
                    chk.ok(rid, fi, c, text, "truncates")
                else:
                    chk.fail(rid, fi, c, text,
                             "the file is not truncated before the document "
                             "is written: when the new text is shorter, the "
                             "tail of the old file survives behind it")
    if n < 1:
        raise AnalysisError("no whole-document write found in {}".format(
            relpaths))


def d10_offset_sign_applies_to_the_whole_delta(chk: Check) -> None:
    """A rotation re-dumps the whole file; timestamps are the one plaintext
    type yamlpath constructs and renders itself.  A UTC offset `-03:30` is
    minus (3 h 30 min): the delta is built from the unsigned hour and
    minute fields and negated *as a whole* when the sign field is `-`.  A
    sign glued onto the hours alone leaves the minutes positive (-2:30), and
    the wall-clock time comes back shifted by twice the minutes."""
    prog = chk.prog
    chk.rule("C19-D10", "construct_anchored_timestamp builds the UTC-offset "
             "delta from unsigned fields and negates the whole delta under "
             "`tz_sign == '-'`", floor=2)
    fis = [f for f in prog.funcs_in("yamlpath/patches/timestamp.py")
           if f.node.name == "construct_anchored_timestamp"]
    if len(fis) != 1:
        raise AnalysisError("construct_anchored_timestamp not found")
    fi = fis[0]
    deltas = [a for a in walk_local(fi.node) if isinstance(a, ast.Assign) and
              isinstance(a.value, ast.Call) and
              src(a.value.func).endswith("timedelta")]
    if len(deltas) != 1:
        raise AnalysisError("timedelta construction not found")
    dvar = src(deltas[0].targets[0])
    # (a) the sign field only ever meets a comparison or the tz *text*
    signs = [n for n in walk_local(fi.node) if isinstance(n, ast.Subscript)
             and isinstance(n.slice, ast.Constant) and
             n.slice.value == "tz_sign"]
    numeric = []
    for sg in signs:
        cur = sg
        for a in ancestors(sg):
            if isinstance(a, ast.Call) and src(a.func) in ("int", "float"):
                numeric.append(a)
            if isinstance(a, ast.stmt):
                break
    if numeric:
        chk.fail("C19-D10", fi, numeric[0], "sign field converted with "
                 "`{}`".format(src(numeric[0])[:40]),
                 "the sign is folded into one numeric field: the other "
                 "field of the offset keeps the opposite sign (-03:30 "
                 "becomes -2:30)")
    else:
        chk.ok("C19-D10", fi, deltas[0], "delta from unsigned fields",
               "the sign field enters no numeric conversion")
    # (b) whole-delta negation under the sign test
    neg = [a for a in walk_local(fi.node) if isinstance(a, ast.Assign) and
           src(a.targets[0]) == dvar and isinstance(a.value, ast.UnaryOp) and
           isinstance(a.value.op, ast.USub) and src(a.value.operand) == dvar
           and any(f.kind == "cond" and f.pol and
                   "tz_sign" in src(f.expr) and "'-'" in src(f.expr)
                   for f in facts_at(a))]
    if neg:
        chk.ok("C19-D10", fi, neg[0], "`{}` under the sign test".format(
            src(neg[0])), "whole delta negated")
    else:
        chk.fail("C19-D10", fi, deltas[0], "negation of the delta",
                 "the delta is never negated as a whole for a negative "
                 "offset")


def d11_parser_per_file(chk: Check) -> None:
    """ruamel's YAML object keeps what a document told it: after a file
    that starts with `%YAML 1.1` the same object reads the *next* file by
    the 1.1 rules (`yes` is a boolean, `0123` is octal) and writes the
    directive into it.  eyaml-rotate-keys loads, edits and rewrites one
    file after another, so the parser a file is loaded and dumped with is
    created for that file, inside the per-file loop."""
    prog = chk.prog
    chk.rule("C19-D11", "in eyaml-rotate-keys the YAML editor that loads "
             "and writes a file is created inside the loop over the input "
             "files", floor=2)
    fi = prog.func("eyaml_rotate_keys.main")
    loops = [l for l in walk_local(fi.node) if isinstance(l, ast.For) and
             any(isinstance(c, ast.Call) and
                 src(c.func).endswith("get_yaml_data")
                 for c in walk_local(l))]
    if len(loops) != 1:
        raise AnalysisError("per-file loop of eyaml-rotate-keys not found")
    loop = loops[0]
    users = []
    for c in walk_local(loop):
        if isinstance(c, ast.Call) and src(c.func).endswith("get_yaml_data") \
                and c.args and isinstance(c.args[0], ast.Name):
            users.append((c, c.args[0].id, "load"))
        elif isinstance(c, ast.Call) and isinstance(c.func, ast.Attribute) \
                and c.func.attr in ("dump", "dump_all") and \
                isinstance(c.func.value, ast.Name):
            users.append((c, c.func.value.id, "dump"))
    if len(users) < 2:
        raise AnalysisError("load / dump through the editor not found")
    for c, name, what in users:
        made = [a for a in walk_local(loop) if isinstance(a, ast.Assign) and
                src(a.targets[0]) == name and isinstance(a.value, ast.Call)
                and src(a.value.func).endswith("get_yaml_editor") and
                a.lineno < c.lineno]
        text = "{} through `{}`".format(what, name)
        if made:
            chk.ok("C19-D11", fi, c, text, "editor created in the loop "
                   "(line {})".format(made[-1].lineno))
        else:
            chk.fail("C19-D11", fi, c, text,
                     "one editor serves every input file: the %YAML "
                     "directive (or other state) of one file is applied to "
                     "the next, whose plain values are re-typed and "
                     "rewritten (`flag: yes` becomes `flag: true`, `0123` "
                     "becomes 83) -- non-encrypted values must be left "
                     "unchanged")


def d13_every_loaded_document_is_searched(chk: Check) -> None:
    """Encrypted values can sit anywhere: in a document whose root is a
    list just as well as under a Hash.  Between loading a file and handing
    it to the discovery (`processor.data = ...`) the rotation loop skips a
    file only because it could not be loaded.  A `continue` under a test of
    the document's kind leaves such a file on the old keys, silently and
    with exit status 0."""
    prog = chk.prog
    chk.rule("C19-D13", "no `continue` of the per-file loop of "
             "eyaml-rotate-keys stands under an isinstance test of the "
             "loaded document or a textual test for the ENC[ marker",
             floor=1)
    fi = prog.func("eyaml_rotate_keys.main")
    n = 0
    bad = []
    for j in walk_local(fi.node):
        if not isinstance(j, ast.Continue):
            continue
        n += 1
        for f in facts_at(j):
            if f.kind == "cond" and any(
                    isinstance(c, ast.Call) and src(c.func) == "isinstance"
                    for c in ast.walk(f.expr)):
                bad.append((j, f))
            # ... nor under a test of the raw text for the marker: whether
            # a value is encrypted is decided on the parsed value with
            # white-space ignored, so `ENC[` need not be contiguous in the
            # file (a folded scalar broken after ENC, an escape)
            if f.kind == "cond" and any(
                    isinstance(c, ast.Constant) and isinstance(c.value, str)
                    and "ENC" in c.value for c in ast.walk(f.expr)):
                bad.append((j, f))
    if bad:
        j, f = bad[0]
        chk.fail("C19-D13", fi, j, "continue under `{}`".format(
            src(f.expr)[:50]),
            "documents of some kind are never searched for encrypted "
            "values: a list-rooted file keeps its secrets on the old keys "
            "although the run reports success")
    else:
        chk.ok("C19-D13", fi, fi.node, "{} continue statement(s)".format(n),
               "none depends on the kind of the document")


def run(chk: Check) -> None:
    model = CliModel(chk.prog)
    d1_marker(chk)
    d2_d3(chk)
    d2b_fidelity(chk)
    d2c_echo_test(chk)
    d8_byte_pipes(chk)
    d7_keys_differ(chk)
    d4_changed(chk, model)
    d5_discovery(chk)
    d6_handlers(chk)
    d3b_skip_key_is_own_anchor(chk)
    d9_whole_file_writes_truncate(chk)
    d10_offset_sign_applies_to_the_whole_delta(chk)
    d11_parser_per_file(chk)
    d13_every_loaded_document_is_searched(chk)
    from rules.shared import attribute_after_augmented_rebinding_rule
    attribute_after_augmented_rebinding_rule(
        chk, "C19-D14", ("yamlpath/patches/timestamp.py",
                         "yamlpath/common/nodes.py",
                         "yamlpath/common/parsers.py"), 20)
    from rules.shared import single_consumption_rule
    single_consumption_rule(
        chk, "C19-D12", ("yamlpath/commands/eyaml_rotate_keys.py",
                         "yamlpath/eyaml/eyamlprocessor.py"), 10)
