"""C01 -- query results equal the documented segment semantics.

Decided clauses (DESIGN.md section 4, C01):
  D1  dispatcher routing and exhaustiveness (partial evaluation per
      PathSegmentTypes member) and unfiltered relay;
  D2  the three drivers ask the same question (same generator, same
      argument roles, depth + 1, relay of every result);
  D3  notation independence: separator values never reach a branch
      condition, subscript or comparison of the evaluator;
  D4  inversion is complement at every match site of the search handler;
  D5  haystack-source table of the search handler (what is compared, what
      is yielded, per container branch);
  D6  index / slice guards (shared with C15-D2a, referenced).
"""
from __future__ import annotations

import ast
from typing import Any, Dict, List, Optional, Set, Tuple

from rules import inversion
from sa.coords import derive, loop_binding, reaching_def
from sa.guards import facts_at
from sa.interproc import arg_map
from sa.model import (AnalysisError, FuncInfo, Program, ancestors,
                      enclosing_stmt, parent,
                      resolve_call, src, walk_local)
from sa.peval import Enum, Kind, PEval, show
from sa.report import Check

META = {
    "explanation": (
        "Static decision over Processor's evaluator: the segment dispatcher "
        "is specialised (partial evaluation) for each of the 8 "
        "PathSegmentTypes members with the attribute kind the parser "
        "stores for it, and each residual must call exactly the designated "
        "handler and relay every result; exists(), required and optional "
        "queries and set_value reach the dispatcher through drivers that "
        "pass argument-wise identical coordinates and recurse with depth+1 "
        "on each candidate's own coordinates; separator values only flow "
        "into the escaping routine / YAMLPath constructor; each match test "
        "of the search handler is (matched XOR inverted); per container "
        "branch the value compared and the node yielded are those the "
        "README defines.  Nothing is executed."),
    "declined": [
        "that the selected node set and order equal the reference "
        "semantics for every document x path (run-time key equality, "
        "int/str coercion, pass-through into nested Arrays-of-Hashes)",
    ],
    "assumptions": ["the parser stores SearchTerms / SearchKeywordTerms / "
                    "CollectorTerms attributes for SEARCH / KEYWORD_SEARCH "
                    "/ COLLECTOR segments (checked in C08)"],
    "trusted_base": ["Python generator relay semantics"],
}

ROUTES = {
    "KEY": "_get_nodes_by_key", "INDEX": "_get_nodes_by_index",
    "MATCH_ALL": "_get_nodes_by_match_all", "ANCHOR": "_get_nodes_by_anchor",
    "KEYWORD_SEARCH": "_get_nodes_by_keyword_search",
    "SEARCH": "_get_nodes_by_search", "COLLECTOR": "_get_nodes_by_collector",
    "TRAVERSE": "_get_nodes_by_traversal",
}
ATTR_KIND = {"KEYWORD_SEARCH": "SearchKeywordTerms", "SEARCH": "SearchTerms",
             "COLLECTOR": "CollectorTerms"}
ISA = {"SearchKeywordTerms": {"SearchKeywordTerms"},
       "SearchTerms": {"SearchTerms"}, "CollectorTerms": {"CollectorTerms"},
       "str": {"str"}, "nc": {"NodeCoords"}, "plain": set()}


def d1_dispatch(chk: Check) -> None:
    prog = chk.prog
    chk.rule("C01-D1", "the segment dispatcher routes every "
             "PathSegmentTypes member to its handler with the current data "
             "and relays every result unfiltered", floor=9)
    fi = prog.func("Processor._get_nodes_by_path_segment")
    chk.analysed(fi)
    members = prog.enum_members("PathSegmentTypes")
    if set(members) != set(ROUTES):
        raise AnalysisError("PathSegmentTypes members changed: {}".format(
            sorted(members)))
    # role discovery: type / attribute variables unpacked from the segment
    type_vars: List[str] = []
    attr_vars: List[str] = []
    for n in walk_local(fi.node):
        if isinstance(n, ast.Assign) and isinstance(n.targets[0], ast.Tuple) \
                and len(n.targets[0].elts) == 2 and \
                all(isinstance(e, ast.Name) for e in n.targets[0].elts):
            v = src(n.value)
            d = reaching_def(v, n) if isinstance(n.value, ast.Name) else None
            text = src(d) if d is not None else v
            if "segment_index]" in text and "- 1" not in text:
                type_vars.append(n.targets[0].elts[0].id)  # type: ignore
                attr_vars.append(n.targets[0].elts[1].id)  # type: ignore
    if len(type_vars) < 1:
        raise AnalysisError("dispatcher segment roles not found")
    data = fi.params()[1]
    pe = PEval(isa=ISA, enum_classes={"PathSegmentTypes"})
    handlers = {"self." + h for h in ROUTES.values()}
    for m in members:
        env: Dict[str, Any] = {data: Kind("plain")}
        for tv in type_vars:
            env[tv] = Enum("PathSegmentTypes", m)
        for av in attr_vars:
            env[av] = Kind(ATTR_KIND.get(m, "str"))
        res = pe.specialise(fi.node.body, env,
                            pinned=type_vars + attr_vars)
        calls = [c for s in res for c in walk_local(s)
                 if isinstance(c, ast.Call) and src(c.func) in handlers]
        names = [src(c.func)[5:] for c in calls]
        raises = [r for s in res for r in walk_local(s)
                  if isinstance(r, ast.Raise) and
                  "NotImplementedError" in src(r)]
        if names == [ROUTES[m]] and not raises and \
                calls[0].args and src(calls[0].args[0]) == data:
            chk.ok("C01-D1", fi, calls[0], m,
                   "residual calls only {}({}, ...)".format(ROUTES[m], data))
        else:
            chk.fail("C01-D1", fi, None, m,
                     "segment type {} reaches {} (NotImplementedError "
                     "reachable: {}) instead of exactly {}".format(
                         m, names or "no handler", bool(raises), ROUTES[m]),
                     {"residual": show(res)[-700:]})
    # relay loop: last statement yields every element
    last = fi.node.body[-1]
    ok = isinstance(last, ast.For) and len(last.body) == 1 and \
        isinstance(last.body[0], ast.Expr) and \
        isinstance(last.body[0].value, ast.Yield) and \
        src(last.body[0].value.value) == src(last.target)
    if ok:
        chk.ok("C01-D1", fi, last, "relay loop", "yields every candidate")
    else:
        chk.fail("C01-D1", fi, last, "relay loop",
                 "the dispatcher does not relay every handler result "
                 "(filter, break or continue in the relay)")


def d1b_views(chk: Check) -> None:
    """Document data is compared with the *escaped* parse of the path; the
    unescaped parse is for messages, relayed segments and the collector's
    inner expression (which is parsed again)."""
    from sa.views import unescaped_flows
    prog = chk.prog
    chk.rule("C01-D1b", "values read from the unescaped parse of a path "
             "reach only messages, relayed segments, isinstance tests and "
             "the collector handler (which re-parses its expression); what "
             "is compared with document data comes from the escaped parse",
             floor=6)
    total = 0
    for fi in prog.funcs_in("yamlpath/processor.py"):
        if not any(isinstance(x, ast.Attribute) and x.attr == "unescaped"
                   for x in walk_local(fi.node)):
            continue
        chk.analysed(fi)
        bad, n = unescaped_flows(
            fi.node, allow_calls=("._get_nodes_by_collector",))
        total += n
        for node, why in bad:
            chk.fail("C01-D1b", fi, node, src(node), why + ": escape marks "
                     "written in the path would be compared with the data")
        if not bad:
            chk.ok("C01-D1b", fi, fi.node, fi.short,
                   "{} use(s) of unescaped-derived names, all benign".format(
                       n))
    if total < 10:
        raise AnalysisError("only {} uses of the unescaped view found"
                            .format(total))
    # the handlers that receive terms directly get the escaped attributes
    fi = prog.func("Processor._get_nodes_by_path_segment")
    esc_names = set()
    for n in walk_local(fi.node):
        if isinstance(n, ast.Assign) and isinstance(n.targets[0], ast.Tuple):
            d = n.value
            if isinstance(d, ast.Subscript) and isinstance(d.value, ast.Name):
                rd = reaching_def(d.value.id, n)
                if rd is not None and src(rd).endswith(".escaped"):
                    esc_names.add(src(n.targets[0].elts[1]))
            elif isinstance(d, ast.Subscript) and \
                    src(d.value).endswith(".escaped"):
                esc_names.add(src(n.targets[0].elts[1]))
    for c in walk_local(fi.node):
        if isinstance(c, ast.Call) and src(c.func) in (
                "self._get_nodes_by_search",
                "self._get_nodes_by_keyword_search"):
            terms = [a for a in c.args if isinstance(a, ast.Name) and
                     a.id not in (fi.params()[1], fi.params()[2])]
            text = src(c)[:60]
            if terms and all(t.id in esc_names for t in terms):
                chk.ok("C01-D1b", fi, c, text,
                       "terms `{}` unpacked from the escaped parse".format(
                           terms[0].id))
            else:
                chk.fail("C01-D1b", fi, c, text,
                         "the search terms handed to the handler are not "
                         "the ones unpacked from `.escaped`")


ALL_CHILDREN = {
    # handler -> why every child of the data must be visited
    "Processor._get_nodes_by_key":
        "pass-through: a key segment applied to a list is applied to every "
        "element",
    "Processor._get_nodes_by_traversal": "`**` descends into every child",
    "Processor._get_nodes_by_match_all_unfiltered": "`*` yields every child",
    "Processor._get_nodes_by_match_all_filtered":
        "`*` followed by a filter offers every child to the filter",
}


def d7_every_child(chk: Check) -> None:
    """In the handlers whose documented meaning is "every child", each loop
    over the children of the data parameter reaches, on every path through
    one iteration, an evaluator call on that child or a result built from
    it.  What may be skipped is decided by the callee, not by a filter in
    the loop."""
    from sa.flow import Flow
    prog = chk.prog
    chk.rule("C01-D7", "loops over the children of the data in the "
             "all-children handlers (pass-through, `*`, `**`) hand every "
             "child on, on every path through the iteration", floor=10)
    for qual, why in ALL_CHILDREN.items():
        fi = prog.func(qual)
        chk.analysed(fi)
        data = fi.params()[1]
        for loop in walk_local(fi.node):
            if not isinstance(loop, ast.For):
                continue
            itn = loop.iter
            while isinstance(itn, ast.Call) and \
                    isinstance(itn.func, ast.Name) and \
                    itn.func.id in ("list", "tuple") and len(itn.args) == 1:
                itn = itn.args[0]     # a snapshot enumerates the same children
            it = src(itn)
            if it not in ("enumerate({})".format(data),
                          "{}.items()".format(data), data,
                          "{}.non_merged_items()".format(data)):
                continue
            tgt = loop.target
            child = src(tgt.elts[-1]) if isinstance(tgt, ast.Tuple) \
                else src(tgt)
            if qual.endswith("_get_nodes_by_key") and not any(
                    isinstance(c, ast.Call) and c.args and
                    src(c.args[0]) == child and
                    src(c.func).startswith("self._get_")
                    for c in walk_local(loop)):
                continue   # a lookup of one key, not the pass-through

            def transfer(stmt: ast.stmt, st, flow, child=child):
                for c in ast.walk(stmt):
                    if isinstance(c, ast.Call) and c.args and \
                            src(c.args[0]) == child and (
                                src(c.func) == "NodeCoords" or
                                src(c.func).startswith("self._get_")):
                        return [True]
                return [st]

            def branch(test: ast.AST, st, flow):
                return [st], [st]

            def bind(target, it_expr, st, flow, child=child):
                # entering an inner `for x in self._get_...(child, ...)`
                if isinstance(it_expr, ast.Call) and it_expr.args and \
                        src(it_expr.args[0]) == child and \
                        src(it_expr.func).startswith("self._get_"):
                    return [True]
                return [st]
            fl = Flow(transfer, branch, bind=bind)
            out = fl.run(loop.body, [False])
            # the iterable of an inner for is evaluated even when it yields
            # nothing: treat a `for ... in self._get_x(child)` statement at
            # the top level of the body as reaching the call
            top_calls = [s_ for s_ in loop.body if isinstance(s_, ast.For)
                         and isinstance(s_.iter, ast.Call) and s_.iter.args
                         and src(s_.iter.args[0]) == child and
                         src(s_.iter.func).startswith("self._get_")]
            ends = list(out.fall) + list(out.continues) + list(out.breaks) \
                + [st for st, _ in out.returns]
            text = "{}: for {} in {}".format(fi.node.name, src(tgt), it)
            exits = [x for x in walk_local(loop)
                     if isinstance(x, (ast.Continue, ast.Break, ast.Return))]
            reached = bool(ends) and (all(ends) or (top_calls and not [
                x for x in exits if x.lineno < top_calls[0].lineno]))
            if reached:
                chk.ok("C01-D7", fi, loop, text,
                       "`{}` handed on, on every path ({})".format(child,
                                                                   why))
            else:
                chk.fail("C01-D7", fi, loop, text,
                         "some path through the iteration skips `{}` "
                         "without handing it to the evaluator: {}".format(
                             child, why))


EXHAUSTIVE = ("Processor._get_nodes_by_search",
              "Processor._get_nodes_by_anchor",
              "Processor._get_nodes_by_index",
              "Processor._get_nodes_by_traversal",
              "Processor._get_nodes_by_match_all_unfiltered",
              "Processor._get_nodes_by_match_all_filtered")


def d8_exhaustive(chk: Check) -> None:
    """A segment selects *every* child that satisfies it: the loops that
    enumerate the children of the data run to exhaustion (an anchor name
    recurs on every alias; several keys can equal one typed term)."""
    prog = chk.prog
    chk.rule("C01-D8", "loops that enumerate the children of the data in "
             "the search / anchor / index / `*` / `**` handlers have no "
             "early exit", floor=15)
    chk.rule("C01-D4b", "no test of the search handler consults a raw "
             "comparison result without the inversion flag", floor=1)
    for q in EXHAUSTIVE:
        fi = prog.func(q)
        data = fi.params()[1]
        for loop, exits in inversion.exhausting_loops(fi, data):
            text = "{}: for {} in {}".format(fi.node.name, src(loop.target),
                                             src(loop.iter)[:30])
            if exits:
                chk.fail("C01-D8", fi, exits[0], text,
                         "`{}` at line {} ends the enumeration early: "
                         "children after the first hit are never offered"
                         .format(type(exits[0]).__name__.lower(),
                                 exits[0].lineno))
            else:
                chk.ok("C01-D8", fi, loop, text, "runs to exhaustion")
    fi = prog.func("Processor._get_nodes_by_search")
    lone = inversion.lone_match_tests(fi)
    if lone:
        for n in lone:
            chk.fail("C01-D4b", fi, n, "if " + src(n.test)[:60],
                     "the test decides on the comparison result alone: for "
                     "an inverted search the decision is the wrong way "
                     "round")
    else:
        chk.ok("C01-D4b", fi, fi.node, "tests of the search handler",
               "every test that reads a comparison result also reads the "
               "inversion flag")


def d4c_verdict_per_element(chk: Check, rid: str = "C01-D4c") -> None:
    """A match test inside an element loop judges a verdict computed for
    *that* element (rules/inversion.stale_verdicts): no path from the top
    of the loop body reaches the test without assigning the matched flag.
    Otherwise an element for which the inner (descendant) search finds
    nothing inherits the verdict of the element before it."""
    prog = chk.prog
    chk.rule(rid, "inside an element loop of the search handlers the "
             "matched flag is assigned for the element on every path to "
             "the test that judges it", floor=4)
    total = 0
    for q in ("Processor._get_nodes_by_search", "Searches.search_anchor",
              "KeywordSearches._has_concrete_child",
              "KeywordSearches._has_anchored_child"):
        fi = prog.func(q)
        bad, n = inversion.stale_verdicts(fi)
        total += n
        for site, flag in bad:
            chk.fail(rid, fi, site, "{}: test of `{}` in an element loop"
                     .format(fi.short, "matched flag"),
                     "some path through the loop body reaches `{}` without "
                     "assigning the flag for this element: the verdict of "
                     "the previous element is judged again (an element "
                     "without the searched attribute is selected when its "
                     "predecessor matched)".format(src(site.test)[:60]
                                                   if hasattr(site, "test")
                                                   else src(site)[:60]))
        for _ in range(n - len(bad)):
            chk.ok(rid, fi, fi.node, fi.short + ": in-loop match test",
                   "flag assigned on every path", False)


def d4d_verdict_is_a_comparison(chk: Check, rid: str = "C01-D4d") -> None:
    """rules/inversion.constant_verdicts: inside the element loops of the
    search handler a constant is assigned to the matched flag only as the
    reset directly before an inner search loop that can overwrite it."""
    prog = chk.prog
    chk.rule(rid, "no arm of an element loop of the search handler decides "
             "the verdict by a constant (other than the reset before an "
             "inner search loop)", floor=1)
    fi = prog.func("Processor._get_nodes_by_search")
    bad, n = inversion.constant_verdicts(fi)
    for a in bad:
        chk.fail(rid, fi, a, "{}: `{}` in an arm of its own".format(
            fi.short, src(a)),
            "the arm declares every element it takes \"not matched\" "
            "without comparing anything (NodeCoords wrappers of a slice, "
            "sets, ... are leaves to `node_is_leaf`): those elements drop "
            "out of the plain result and all enter the inverted one")
    for _ in range(n - len(bad)):
        chk.ok(rid, fi, fi.node, fi.short + ": reset before a search loop",
               "constant only as a reset", False)


def _iter_calls(fi: FuncInfo, suffix: str) -> List[ast.Call]:
    return [n for n in walk_local(fi.node) if isinstance(n, ast.Call)
            and src(n.func).endswith(suffix)]


def d2_drivers(chk: Check) -> None:
    prog = chk.prog
    chk.rule("C01-D2a", "exists(), required queries and set_value("
             "mustexist=True) iterate _get_required_nodes(self.data, path); "
             "optional queries iterate _get_optional_nodes(self.data, path, "
             "value)", floor=5)
    chk.rule("C01-D2b", "both drivers obtain candidates from one dispatcher "
             "call with identical argument roles, recurse with depth + 1 on "
             "the candidate's own coordinates and relay every result",
             floor=5)
    ex = prog.func("Processor.exists")
    gn = prog.func("Processor.get_nodes")
    sv = prog.func("Processor.set_value")
    for fi in (ex, gn, sv):
        chk.analysed(fi)
        ypath = fi.params()[1]
        req = _iter_calls(fi, "._get_required_nodes")
        opt = _iter_calls(fi, "._get_optional_nodes")
        for c in req + opt:
            good = len(c.args) >= 2 and src(c.args[0]) == "self.data" and \
                src(c.args[1]) == ypath and not c.keywords
            text = src(c)[:70]
            if not good:
                chk.fail("C01-D2a", fi, c, text,
                         "driver is not started on (self.data, the path) "
                         "with empty coordinates")
                continue
            # which branch?  mustexist true/false
            facts = [f for f in facts_at(c) if f.kind == "cond"
                     and isinstance(f.expr, ast.Name)]
            must = [f for f in facts if "mustexist" in f.expr.id]
            is_req = c in req
            if fi is ex:
                okb = is_req
            else:
                okb = bool(must) and must[0].pol == is_req
            if okb:
                chk.ok("C01-D2a", fi, c, text,
                       "{} driver under mustexist={}".format(
                           "required" if is_req else "optional", is_req))
            else:
                chk.fail("C01-D2a", fi, c, text,
                         "the {} driver is used on the mustexist={} path"
                         .format("required" if is_req else "optional",
                                 not is_req))
        if fi is ex and (opt or len(req) != 1):
            chk.fail("C01-D2a", fi, fi.node, "exists()",
                     "exists() must iterate exactly _get_required_nodes")
    # the two drivers
    rq = prog.func("Processor._get_required_nodes")
    op = prog.func("Processor._get_optional_nodes")
    shapes = []
    for fi in (rq, op):
        chk.analysed(fi)
        disp = _iter_calls(fi, "._get_nodes_by_path_segment")
        if len(disp) != 1:
            chk.fail("C01-D2b", fi, fi.node, "dispatcher call",
                     "expected exactly one dispatcher call, found {}".format(
                         len(disp)))
            continue
        c = disp[0]
        depth = [p for p in fi.params() if p == "depth"]
        roles = {k.arg: src(k.value) for k in c.keywords}
        shape = (src(c.args[0]) == fi.params()[1],
                 src(c.args[1]) == fi.params()[2],
                 len(c.args) > 2 and bool(depth) and
                 src(c.args[2]) == depth[0],
                 tuple(sorted(roles)))
        shapes.append(shape)
        from sa.coords import incoming_roles
        inc = incoming_roles(fi)
        same = all(roles.get(r) == inc.get(r) for r in (
            "parent", "parentref", "translated_path", "ancestry"))
        if all(shape[:3]) and same:
            chk.ok("C01-D2b", fi, c, src(c)[:60],
                   "dispatcher(data, path, depth, parent=, parentref=, "
                   "translated_path=, ancestry=) with the incoming roles")
        else:
            chk.fail("C01-D2b", fi, c, src(c)[:60],
                     "candidates are not requested as dispatcher(data, "
                     "path, depth, <incoming coordinates>)")
        # recursion with depth + 1 and relay
        loop = parent(c)
        recs = [r for r in walk_local(fi.node) if isinstance(r, ast.Call)
                and src(r.func) == "self." + fi.node.name and
                any(a is loop for a in ancestors(r))]
        good = bool(recs)
        for r in recs:
            am = arg_map(fi, r) or {}
            d = am.get("depth")
            if d is None or src(d).replace(" ", "") != "depth+1":
                good = False
            lp = parent(r)
            if not (isinstance(lp, ast.For) and lp.iter is r and any(
                    isinstance(y, ast.Yield) and
                    src(y.value) == src(lp.target)
                    for y in walk_local(lp))):
                good = False
            if any(isinstance(x, (ast.Break, ast.Continue, ast.If))
                   for s in (lp.body if isinstance(lp, ast.For) else [])
                   for x in walk_local(s)):
                good = False
        if good:
            chk.ok("C01-D2b", fi, loop, "{} recursive descent(s)".format(
                len(recs)), "depth + 1; every sub-result yielded")
        else:
            chk.fail("C01-D2b", fi, loop, "recursive descent",
                     "the driver does not recurse with depth + 1 and relay "
                     "every sub-result")
    if len(shapes) == 2 and shapes[0] == shapes[1]:
        chk.ok("C01-D2b", rq, None, "sibling drivers",
               "required and optional drivers call the dispatcher with the "
               "same argument shape")
    elif len(shapes) == 2:
        chk.fail("C01-D2b", rq, None, "sibling drivers",
                 "required and optional drivers call the dispatcher "
                 "differently: {} vs {}".format(shapes[0], shapes[1]))


def d3_notation(chk: Check) -> None:
    prog = chk.prog
    chk.rule("C01-D3", "in the evaluator a separator value is used only as "
             "an argument of escape_path_section / YAMLPath(...) (never in "
             "a condition, subscript or comparison)", floor=15)
    from rules.c02 import evaluator_functions
    for fi in evaluator_functions(prog) + [
            prog.func("Searches.search_matches")]:
        if any(isinstance(n, ast.Call) and src(n.func).endswith(".pop") and
               n.args and isinstance(n.args[0], ast.Constant) and
               n.args[0].value == "pathsep" for n in walk_local(fi.node)):
            continue   # API entry point: forces the notation of its own path
        for n in walk_local(fi.node):
            is_sep = (isinstance(n, ast.Attribute) and
                      n.attr in ("separator", "seperator")) or \
                (isinstance(n, ast.Name) and n.id == "pathsep" and
                 isinstance(n.ctx, ast.Load))
            if not is_sep:
                continue
            p = parent(n)
            text = src(p)[:70] if p is not None else src(n)
            if isinstance(p, ast.Call) and n in p.args and (
                    src(p.func).endswith("escape_path_section") or
                    src(p.func) == "YAMLPath"):
                chk.ok("C01-D3", fi, n, text,
                       "argument of " + src(p.func).split(".")[-1],
                       nontrivial=False)
            elif isinstance(p, ast.keyword):
                chk.ok("C01-D3", fi, n, text, "keyword argument", False)
            else:
                chk.fail("C01-D3", fi, n, text,
                         "the evaluator inspects the path separator: the "
                         "answer could differ between dot and slash "
                         "notation")


def d4_inversion(chk: Check) -> None:
    prog = chk.prog
    chk.rule("C01-D4", "every match test of the search handler is "
             "(matched XOR inverted)", floor=7)
    fi = prog.func("Processor._get_nodes_by_search")
    sites = inversion.match_sites(fi)
    for node, test, m, i in sites:
        ok = inversion.check_xor(test, m, i)
        text = "if " + src(test)
        if ok:
            chk.ok("C01-D4", fi, node, text,
                   "XOR over ({}, {})".format(m, i))
        else:
            chk.fail("C01-D4", fi, node, text,
                     "predicate over ({}, {}) is not XOR: inversion would "
                     "not select the complement".format(m, i))
    # every yield of a NodeCoords in the handler sits under such a test
    for y in walk_local(fi.node):
        if isinstance(y, ast.Yield) and isinstance(y.value, ast.Call) and \
                src(y.value.func) == "NodeCoords":
            guarded = any(a is s[0] for a in ancestors(y) for s in sites)
            if guarded:
                chk.ok("C01-D4", fi, y, "yield @{}".format(y.lineno),
                       "under a match/inversion test", False)
            else:
                chk.fail("C01-D4", fi, y, "yield " + src(y.value)[:50],
                         "a result is yielded without consulting the "
                         "match / inversion test")


def d5_haystack(chk: Check) -> None:
    prog = chk.prog
    chk.rule("C01-D5", "per container branch of the search handler the "
             "value compared and the node yielded are the documented ones "
             "(element; key name -> value; attribute value; descendant -> "
             "parent; set member; the scalar itself)", floor=8)
    fi = prog.func("Processor._get_nodes_by_search")
    chk.analysed(fi)
    data = fi.params()[1]
    terms = fi.params()[2]
    # roles
    names: Dict[str, str] = {}
    for n in walk_local(fi.node):
        if isinstance(n, ast.Assign) and isinstance(n.value, ast.Attribute) \
                and src(n.value.value) == terms:
            names[n.value.attr] = src(n.targets[0])
    meth, term, attr = names.get("method"), names.get("term"), \
        names.get("attribute")
    if not (meth and term and attr):
        raise AnalysisError("search term roles not found")
    calls = [c for c in walk_local(fi.node) if isinstance(c, ast.Call)
             and src(c.func).endswith("Searches.search_matches")]
    if len(calls) < 8:
        raise AnalysisError("only {} comparison calls in the search handler"
                            .format(len(calls)))
    for c in calls:
        a = [src(x) for x in c.args]
        text = src(c)[:70]
        if len(a) != 3 or a[0] != meth or a[1] != term:
            chk.fail("C01-D5", fi, c, text,
                     "comparison is not search_matches(<method>, <term>, "
                     "<value>): operand roles are swapped or replaced")
            continue
        hay = c.args[2]
        branch = _branch(c, data, attr)
        want = _expected_haystack(branch, hay, c, data, attr)
        if want is True:
            chk.ok("C01-D5", fi, c, "{}: {}".format(branch, a[2]),
                   "compares the documented value")
        else:
            chk.fail("C01-D5", fi, c, "{}: {}".format(branch, a[2]),
                     "in the {} branch the handler compares `{}`; the "
                     "documented haystack is {}".format(branch, a[2], want))
    # yielded node per branch
    for y in walk_local(fi.node):
        if not (isinstance(y, ast.Yield) and isinstance(y.value, ast.Call)
                and src(y.value.func) == "NodeCoords"):
            continue
        node_e = y.value.args[0]
        branch = _branch(y, data, attr)
        want = _expected_yield(branch, node_e, y, data, attr)
        text = "{}: yields {}".format(branch, src(node_e))
        if want is True:
            chk.ok("C01-D5", fi, y, text, "yields the documented node")
        else:
            chk.fail("C01-D5", fi, y, text,
                     "in the {} branch the handler yields `{}`; documented: "
                     "{}".format(branch, src(node_e), want))


def _branch(node: ast.AST, data: str, attr: str) -> str:
    kinds = ""
    sub = ""
    for f in facts_at(node):
        if f.kind != "cond":
            continue
        t = src(f.expr)
        if t.startswith("isinstance({},".format(data)):
            if f.pol and not kinds:
                kinds = "list" if "list" in t else \
                    "dict" if "dict" in t else "set" if "set" in t else ""
        e = f.expr
        if isinstance(e, ast.Compare) and src(e.left) == attr and \
                isinstance(e.comparators[0], ast.Constant) and \
                e.comparators[0].value == "." and f.pol:
            sub = "keys"
        if f.pol and isinstance(e, ast.Name):
            d = reaching_def(e.id, node)
            if d is not None and src(d).replace('"', "'") == \
                    "{} == '.'".format(attr):
                sub = "keys"
        if f.pol and isinstance(e, ast.Compare) and \
                isinstance(e.ops[0], ast.In) and src(e.left) == attr:
            sub = sub or "attr"
    if not kinds:
        neg = [src(f.expr) for f in facts_at(node)
               if f.kind == "cond" and not f.pol]
        if sum(1 for t in neg if t.startswith(
                "isinstance({},".format(data))) >= 3:
            return "scalar/-"
    if any(isinstance(a, ast.For) and "_get_required_nodes" in src(a.iter)
           for a in ancestors(node)):
        sub = "descendant"
    return "{}/{}".format(kinds or "?", sub or "-")


def _elem(expr: ast.AST, at: ast.AST, data: str) -> Optional[str]:
    """'elem' / 'key' / 'val' when expr is bound by a loop over data."""
    if isinstance(expr, ast.Name):
        lb = loop_binding(expr.id, at)
        if lb and src(lb[1]) == data:
            return {"enumerate": "elem", "iter": "elem", "items": "val",
                    "key": "key"}.get(lb[0])
    return None


def _expected_haystack(branch: str, hay: ast.AST, at: ast.AST, data: str,
                       attr: str):
    kind, sub = branch.split("/")
    h = src(hay)
    if sub == "descendant":
        return True if h.endswith(".node") and _elem_call(hay, at) else \
            "the descendant node (`<result>.node`)"
    if kind == "list":
        if sub == "keys":
            return True if _elem(hay, at, data) == "elem" else \
                "the list element itself"
        if sub == "attr":
            ok = isinstance(hay, ast.Subscript) and src(hay.slice) == attr \
                and _elem(hay.value, at, data) == "elem"
            return True if ok else "the element's attribute value"
        return True if _elem(hay, at, data) == "elem" else "the element"
    if kind == "dict":
        if sub == "keys":
            return True if _elem(hay, at, data) == "key" else \
                "the key's name"
        if sub == "attr":
            ok = h == "{}[{}]".format(data, attr)
            if isinstance(hay, ast.Name):
                d = reaching_def(hay.id, at)
                ok = d is not None and src(d) == "{}[{}]".format(data, attr)
            return True if ok else "the attribute's value data[attr]"
    if kind == "set":
        return True if _elem(hay, at, data) == "elem" else "the set member"
    if kind == "scalar":
        return True if h == data else "the value itself"
    return "unknown branch"


def _elem_call(hay: ast.AST, at: ast.AST) -> bool:
    if isinstance(hay, ast.Attribute) and isinstance(hay.value, ast.Name):
        lb = loop_binding(hay.value.id, at)
        return bool(lb) and "_get_required_nodes" in src(lb[1])
    return False


def _expected_yield(branch: str, node_e: ast.AST, at: ast.AST, data: str,
                    attr: str):
    kind, sub = branch.split("/")
    n = src(node_e)
    if kind == "list":
        return True if _elem(node_e, at, data) == "elem" else \
            "the matching list element"
    if kind == "dict":
        if sub == "keys":
            return True if _elem(node_e, at, data) == "val" else \
                "the value of the matching key"
        if sub == "attr":
            ok = n == "{}[{}]".format(data, attr)
            if isinstance(node_e, ast.Name):
                d = reaching_def(node_e.id, at)
                ok = d is not None and src(d) == "{}[{}]".format(data, attr)
            return True if ok else "the attribute's value"
        return True if n == data else "the hash itself (parent of the " \
            "matching descendant)"
    if kind == "set":
        return True if _elem(node_e, at, data) == "elem" else \
            "the matching member"
    if kind == "scalar":
        return True if n == data else "the value itself"
    return "unknown branch"


def d6_reference(chk: Check) -> None:
    chk.rule("C01-D6", "index and slice bounds are two-sided (decided by "
             "C15-D2a on the same sites)", floor=1)
    from rules import c15
    from sa import partial
    prog = chk.prog
    for name in ("Processor._get_nodes_by_index",
                 "Processor._get_nodes_by_key"):
        fi = prog.func(name)
        for site in partial.find_sites(fi):
            if site.kind != "subscript" or src(site.container) != \
                    fi.params()[1]:
                continue
            why = partial.discharge(site, prog)
            if why:
                chk.ok("C01-D6", fi, site.node, site.text, why)
            else:
                chk.fail("C01-D6", fi, site.node,
                         "subscript " + site.text,
                         "index into the document is not bounded on both "
                         "sides (or presence-tested): off-by-one selects "
                         "or crashes on the wrong element")


def d6b_guard_completeness(chk: Check) -> None:
    """An index guard must accept every valid index (-len <= i < len): a
    guard that is merely *safe* silently drops matches."""
    from sa.smalldomain import guards_for, index_guard_table
    prog = chk.prog
    chk.rule("C01-D6b", "index guards of the key / index / slice handlers "
             "accept exactly the valid indexes (evaluated for len 0..4 and "
             "every index -len-2..len+2)", floor=4)
    for name in ("Processor._get_nodes_by_index",
                 "Processor._get_nodes_by_key"):
        fi = prog.func(name)
        data = fi.params()[1]
        idx_vars = set()
        for n in walk_local(fi.node):
            if isinstance(n, ast.Subscript) and src(n.value) == data and \
                    isinstance(n.ctx, ast.Load) and \
                    isinstance(n.slice, ast.Name):
                idx_vars.add(n.slice.id)
        for iv in sorted(idx_vars):
            for node, guard, neg in guards_for(fi.node, data, iv):
                from sa.guards import terminates
                neg = terminates(node.body) != neg
                # an index computed from the requested one (normalised
                # positions): judge the guard for the *requested* index
                derived = None
                from sa.coords import reaching_def
                d = reaching_def(iv, node)
                if d is not None and not isinstance(d, ast.Call):
                    srcs = sorted({x.id for x in ast.walk(d)
                                   if isinstance(x, ast.Name)} -
                                  {data, iv, "len", "int", "abs"})
                    if len(srcs) == 1:
                        derived = (srcs[0], d)
                rej, acc, decided = index_guard_table(guard, data, iv, neg,
                                                      derived=derived)
                text = "{}{}".format("not " if neg else "", src(guard))
                if not decided:
                    chk.fail("C01-D6b", fi, node, text,
                             "index guard could not be evaluated over small "
                             "lengths (unsupported form)")
                elif rej or acc:
                    chk.fail("C01-D6b", fi, node, text,
                             "index guard rejects valid indexes {} / accepts "
                             "invalid ones {}".format(rej[:3], acc[:3]))
                else:
                    chk.ok("C01-D6b", fi, node, text,
                           "accepts exactly -len <= {} < len".format(iv))


def d11_filter_tests_yield_once(chk: Check) -> None:
    """`*` and `**` followed by another segment test each candidate with
    that next segment and hand the *candidate itself* on (the caller then
    applies the next segment to it).  The test is existential: one match of
    the next segment is enough, so the loop over the next segment's matches
    is left after the first yield.  Without the `break` the candidate is
    handed on once per match and every result below it appears that many
    times."""
    prog = chk.prog
    chk.rule("C01-D11", "a loop over the next segment's matches that yields "
             "the tested node itself (not the match) is left after the "
             "first yield", floor=3)
    n = 0
    for q in ("Processor._get_nodes_by_traversal",
              "Processor._get_nodes_by_match_all_filtered"):
        fi = prog.func(q)
        depth = fi.params()[3]
        for loop in walk_local(fi.node):
            if not (isinstance(loop, ast.For) and
                    isinstance(loop.iter, ast.Call) and
                    src(loop.iter.func).endswith("_get_nodes_by_path_segment")
                    and len(loop.iter.args) >= 3 and
                    src(loop.iter.args[2]) != depth):
                continue
            tnames = {x.id for x in ast.walk(loop.target)
                      if isinstance(x, ast.Name)}
            ys = [y for st in loop.body for y in ast.walk(st)
                  if isinstance(y, ast.Yield) and y.value is not None]
            subject_yields = []
            for y in ys:
                # names used as the *node* of the yielded record
                first = y.value.args[0] if isinstance(y.value, ast.Call) \
                    and y.value.args else y.value
                used = {x.id for x in ast.walk(first)
                        if isinstance(x, ast.Name)}
                if not (used & tnames):
                    subject_yields.append(y)
            if not subject_yields:
                continue
            n += 1
            text = "{}: test by {}".format(fi.short, src(loop.iter)[:50])
            last = loop.body[-1]
            if isinstance(last, (ast.Break, ast.Return)):
                chk.ok("C01-D11", fi, loop, text, "left after the first "
                       "match")
            else:
                chk.fail("C01-D11", fi, loop, text,
                         "the tested node is yielded once per match of the "
                         "next segment: the caller applies that segment to "
                         "each copy, so every result below the node is "
                         "reported several times")
    if n < 3:
        raise AnalysisError("filter-test loops not found ({})".format(n))


def d12_filtered_star_kinds(chk: Check) -> None:
    """`*` has two handlers: one for the last segment (every child) and one
    for `*` followed by a segment (every child with a match of that
    segment).  Both walk the children of the same kinds of container: a
    kind the filtered handler has no branch for yields nothing, so `s.*`
    finds the members of a set and `s.*[.^x]` finds none."""
    prog = chk.prog
    chk.rule("C01-D12", "the filtered `*` handler has a branch for every "
             "container kind the unfiltered one has", floor=3)
    def kinds(q: str) -> Set[str]:
        fi = prog.func(q)
        data = fi.params()[1]
        out: Set[str] = set()
        for n in walk_local(fi.node):
            if isinstance(n, ast.If) and isinstance(n.test, ast.Call) and \
                    src(n.test.func) == "isinstance" and \
                    src(n.test.args[0]) == data and any(
                        isinstance(x, (ast.For, ast.Yield))
                        for st in n.body for x in ast.walk(st)):
                spec = n.test.args[1]
                elts = spec.elts if isinstance(spec, ast.Tuple) else [spec]
                out |= {src(e) for e in elts}
        return out
    from sa.ladders import EXTERNAL_BASES
    un = kinds("Processor._get_nodes_by_match_all_unfiltered")
    fl = kinds("Processor._get_nodes_by_match_all_filtered")
    fi = prog.func("Processor._get_nodes_by_match_all_filtered")
    if len(un) < 3:
        raise AnalysisError("container branches of the unfiltered `*` "
                            "handler: {}".format(sorted(un)))
    for k in sorted(un):
        text = "filtered `*`: branch for {}".format(k)
        if k in fl or set(EXTERNAL_BASES.get(k, ())) & fl:
            chk.ok("C01-D12", fi, fi.node, text, "present")
        else:
            chk.fail("C01-D12", fi, fi.node, text,
                     "`*` followed by another segment has no branch for {}: "
                     "children of such a container are found by a final `*` "
                     "but never by `*` plus a filter".format(k))


def d13_filtered_traversal_recursion(chk: Check) -> None:
    """`**` followed by a segment offers every container *directly* to that
    segment (the caller then applies the segment and yields the matching
    children) and recurses into the children that can be containers
    themselves.  The members of a set are leaves: the unfiltered half of
    the handler yields them without recursing.  A filtered half that also
    recurses into them tests each member a second time, by itself, and a
    search on `.` reports it twice."""
    prog = chk.prog
    chk.rule("C01-D13", "the filtered half of the `**` handler recurses only "
             "into the kinds of container the unfiltered half recurses into",
             floor=2)
    fi = prog.func("Processor._get_nodes_by_traversal")
    data = fi.params()[1]
    me = fi.node.name

    def fam(k: str) -> str:
        from sa.ladders import EXTERNAL_BASES
        k = k.split(".")[-1]
        for b in (k,) + tuple(EXTERNAL_BASES.get(k, ())):
            if b in ("dict", "list", "set", "MutableSet"):
                return "set" if b == "MutableSet" else b
        return k

    def arms(stmts, recursing: bool):
        out = []
        for st in stmts:
            for n in ast.walk(st):
                if isinstance(n, ast.If) and isinstance(n.test, ast.Call) \
                        and src(n.test.func) == "isinstance" and \
                        src(n.test.args[0]) == data:
                    rec = any(isinstance(c, ast.Call) and
                              src(c.func).endswith("." + me)
                              for b in n.body for c in ast.walk(b))
                    spec = n.test.args[1]
                    elts = spec.elts if isinstance(spec, ast.Tuple) \
                        else [spec]
                    if rec == recursing:
                        out.append((n, {fam(src(e)) for e in elts}))
        return out

    split = None
    for st in fi.node.body:
        if isinstance(st, ast.If) and st.orelse and \
                arms(st.body, True) and arms(st.orelse, True):
            split = st
    if split is None:
        raise AnalysisError("unfiltered / filtered halves of the `**` "
                            "handler not found")
    allowed: Set[str] = set()
    for _, ks in arms(split.body, True):
        allowed |= ks
    if not {"dict", "list"} <= allowed:
        raise AnalysisError("recursing arms of the unfiltered `**` half: {}"
                            .format(sorted(allowed)))
    for n, ks in arms(split.orelse, True):
        text = "filtered `**`: recursion into {}".format("/".join(sorted(ks)))
        if ks <= allowed:
            chk.ok("C01-D13", fi, n, text, "a kind whose children can be "
                   "containers")
        else:
            chk.fail("C01-D13", fi, n, text,
                     "the members of {} are leaves (the unfiltered half "
                     "yields them without recursing); the container itself "
                     "is already offered to the next segment, so each "
                     "matching member is reported twice".format(
                         "/".join(sorted(ks - allowed))))


def d15_leaf_means_no_container(chk: Check) -> None:
    """`Nodes.node_is_leaf` answers "not a container" by listing the
    container classes.  ruamel's CommentedSet is *not* a subclass of the
    builtin set (it derives from MutableSet), so it has to be listed by
    name: otherwise every `!!set` counts as a scalar -- a tag request wraps
    the whole set in a TaggedScalar that cannot be dumped, and any handler
    that leaves early for leaves never looks at the members."""
    from sa.ladders import EXTERNAL_BASES
    prog = chk.prog
    chk.rule("C01-D15", "node_is_leaf names every container kind the "
             "evaluator has arms for, CommentedSet included (it is no "
             "subclass of set)", floor=3)
    fi = prog.func("Nodes.node_is_leaf")
    tests = [c for c in walk_local(fi.node) if isinstance(c, ast.Call) and
             src(c.func) == "isinstance" and len(c.args) == 2]
    if len(tests) != 1:
        raise AnalysisError("container test of node_is_leaf not found")
    spec = tests[0].args[1]
    named = {src(e).split(".")[-1] for e in
             (spec.elts if isinstance(spec, ast.Tuple) else [spec])}
    covered = set(named)
    for k, bases in EXTERNAL_BASES.items():
        if set(bases) & named:
            covered.add(k)
    for kind in ("CommentedMap", "CommentedSeq", "CommentedSet"):
        text = "node_is_leaf({})".format(kind)
        if kind in covered:
            chk.ok("C01-D15", fi, tests[0], text, "False: listed, or a "
                   "subclass of a listed class")
        else:
            chk.fail("C01-D15", fi, tests[0], text,
                     "{} is neither listed nor a subclass of {}: such a "
                     "container is treated as a scalar".format(
                         kind, sorted(named)))


def d4e_operator_consulted_for_every_element(chk: Check) -> None:
    """`[.OP term]` over an Array-of-Hashes: an element is selected when it
    has a key named like the term *or* when the comparison OP holds for it.
    Written as a conditional expression (`term in ele if is_aoh ... else
    search_matches(...)`) the comparison is skipped for every Hash element,
    so `users[.%admin]` finds nothing and `users[.!%admin]` everything."""
    prog = chk.prog
    chk.rule("C01-D4e", "no call of Searches.search_matches in the search "
             "handler is a branch of a conditional expression (the operator "
             "is consulted for every candidate)", floor=4)
    fi = prog.func("Processor._get_nodes_by_search")
    n = 0
    for c in walk_local(fi.node):
        if not (isinstance(c, ast.Call) and
                src(c.func).endswith("search_matches")):
            continue
        n += 1
        branch = None
        child = c
        for a in ancestors(c):
            if isinstance(a, ast.stmt):
                break
            if isinstance(a, ast.IfExp) and a.test is not child:
                branch = a
            child = a
        text = "search_matches(...) at an element test"
        if branch is not None:
            chk.fail("C01-D4e", fi, branch, text,
                     "the comparison is one branch of `{}`: for the "
                     "candidates that take the other branch the search "
                     "operator is never consulted".format(
                         src(branch)[:60]))
        else:
            chk.ok("C01-D4e", fi, c, text, "always evaluated", False)
    if n < 4:
        raise AnalysisError("search_matches calls: {}".format(n))


def d16_container_tests_name_concrete_kinds(chk: Check) -> None:
    """The evaluator tells containers from scalars with isinstance tests on
    concrete classes (list, dict, the ruamel classes).  The abstract
    classes of collections.abc are wider than they look: text is a
    Sequence, an Iterable and a Collection, so `isinstance(data, Sequence)`
    in an index arm lets `/*[0]` select the first *character* of every
    String sibling -- and a delete through that path is refused as an
    attempt on "the entire document"."""
    prog = chk.prog
    chk.rule("C01-D16", "no isinstance test of the evaluator names an "
             "abstract collection class that text satisfies (Sequence, "
             "Iterable, Collection, Container, Sized, Reversible)",
             floor=20)
    wide = {"Sequence", "Iterable", "Collection", "Container", "Sized",
            "Reversible", "Hashable"}
    n = 0
    for fi in prog.funcs_in("yamlpath/processor.py") + \
            prog.funcs_in("yamlpath/common/keywordsearches.py"):
        for c in walk_local(fi.node):
            if not (isinstance(c, ast.Call) and src(c.func) == "isinstance"
                    and len(c.args) == 2):
                continue
            n += 1
            spec = c.args[1]
            names = {src(e).split(".")[-1] for e in
                     (spec.elts if isinstance(spec, ast.Tuple) else [spec])}
            bad = names & wide
            if bad:
                chk.fail("C01-D16", fi, c, "{}: {}".format(
                    fi.short, src(c)[:50]),
                    "{} is satisfied by text: a String node is treated as "
                    "a container of characters".format(sorted(bad)))
            else:
                chk.ok("C01-D16", fi, c, "{}: {}".format(
                    fi.short, src(c)[:40]), "concrete classes", False)
    if n < 20:
        raise AnalysisError("isinstance tests examined: {}".format(n))


def d5b_scalars_have_no_attributes(chk: Check) -> None:
    """`[name=value]` on a scalar: a scalar has no attribute `name`, so the
    plain search does not select it (and the inverted one does).  Only the
    attribute `.` -- the node itself -- is compared with the term.  A scalar
    branch that ignores the attribute selects, under `**`, every scalar
    equal to the term whatever key it sits under."""
    prog = chk.prog
    chk.rule("C01-D5b", "the scalar branch of the search handler compares "
             "the node with the term only for the attribute `.`", floor=1)
    fi = prog.func("Processor._get_nodes_by_search")
    data = fi.params()[1]
    attr = None
    for a in walk_local(fi.node):
        if isinstance(a, ast.Assign) and isinstance(a.value, ast.Attribute) \
                and a.value.attr == "attribute":
            attr = src(a.targets[0])
    if attr is None:
        raise AnalysisError("attribute role of the search handler not found")
    sites = []
    for c in walk_local(fi.node):
        if isinstance(c, ast.Call) and \
                src(c.func).endswith("search_matches") and \
                len(c.args) == 3 and src(c.args[2]) == data:
            sites.append(c)
    if not sites:
        raise AnalysisError("scalar branch of the search handler not found")
    for c in sites:
        dot = lambda e: isinstance(e, ast.Compare) and len(e.ops) == 1 and \
            isinstance(e.ops[0], ast.Eq) and \
            {src(e.left), src(e.comparators[0])} == {attr, "'.'"}
        p_ = parent(c)
        conj = isinstance(p_, ast.BoolOp) and isinstance(p_.op, ast.And) and \
            any(dot(v) for v in p_.values)
        fact = any(f.kind == "cond" and f.pol and dot(f.expr)
                   for f in facts_at(c))
        text = "search_matches(method, term, {})".format(data)
        if conj or fact:
            chk.ok("C01-D5b", fi, c, text, "only for the attribute `.`")
        else:
            chk.fail("C01-D5b", fi, c, text,
                     "the node itself is compared with the term whatever "
                     "attribute the search names: `x[name=5]` selects the "
                     "scalar 5, and `/**[high=100.0]` selects any scalar "
                     "100.0 (the value of `low`, say)")


def d17_key_name_match_needs_an_array_of_hashes(chk: Check) -> None:
    """`[.=term]` over an Array selects an element by a key named like the
    term only when the Array *is* an Array-of-Hashes -- a question about the
    whole list, asked once (`node_is_aoh(data)`).  Asked per element
    (`isinstance(ele, dict) and term in ele`) a Hash sitting among scalars
    is selected by `mixed[.=alpha]` and dropped by `mixed[.!=alpha]`."""
    prog = chk.prog
    chk.rule("C01-D17", "a `term in <element>` key-name match of the search "
             "handler's list arm is conjoined with the whole-list "
             "Array-of-Hashes verdict", floor=1)
    fi = prog.func("Processor._get_nodes_by_search")
    chk.analysed(fi)
    data = fi.params()[1]
    aoh_flags = {src(a.targets[0]) for a in walk_local(fi.node)
                 if isinstance(a, ast.Assign) and
                 isinstance(a.value, ast.Call) and
                 src(a.value.func).endswith("node_is_aoh") and
                 a.value.args and src(a.value.args[0]) == data}
    n = 0
    for loop in walk_local(fi.node):
        if not isinstance(loop, ast.For):
            continue
        it = loop.iter
        if isinstance(it, ast.Call) and src(it.func) == "enumerate" and \
                it.args:
            it = it.args[0]
        if src(it) not in (data, "list({})".format(data)):
            continue
        tgt = loop.target
        ele = src(tgt.elts[1]) if isinstance(tgt, ast.Tuple) and \
            len(tgt.elts) == 2 else src(tgt)
        for c in walk_local(loop):
            if not (isinstance(c, ast.Compare) and len(c.ops) == 1 and
                    isinstance(c.ops[0], ast.In) and
                    src(c.comparators[0]) == ele):
                continue
            # only the key-name match of the `.` attribute: the left side
            # is the search term, not the attribute name
            if not any(isinstance(a, ast.BoolOp) for a in ancestors(c)):
                continue
            conj = set()
            child = c
            for a in ancestors(c):
                if isinstance(a, ast.stmt):
                    break
                if isinstance(a, ast.BoolOp) and isinstance(a.op, ast.And):
                    conj |= {src(v) for v in a.values if v is not child}
                child = a
            stmt_tests = {src(t) for t in _enclosing_tests(c)}
            # the key-name match is the alternative (`or`) to the operator
            alt = [a for a in ancestors(c)
                   if isinstance(a, ast.BoolOp) and isinstance(a.op, ast.Or)
                   and "search_matches" in src(a) and
                   a in list(ast.walk(enclosing_stmt(c)))]
            if not alt:
                continue
            n += 1
            text = "`{}` in the element loop over {}".format(src(c), data)
            if conj & aoh_flags or stmt_tests & aoh_flags:
                chk.ok("C01-D17", fi, c, text, "under the whole-list "
                       "verdict `{}`".format(sorted(aoh_flags)[0]))
            else:
                chk.fail("C01-D17", fi, c, text,
                         "an element matches by key name whatever the rest "
                         "of the list holds: a Hash among scalars is "
                         "selected by `[.=key]` and lost by `[.!=key]`, "
                         "which the Array-of-Hashes rule of the `.` search "
                         "excludes")
    # (no match site at all is left to the rule's floor: another rule may
    # already be reporting the edit that removed it)


def _enclosing_tests(node: ast.AST):
    child = node
    for a in ancestors(node):
        if isinstance(a, ast.If) and child in a.body:
            yield a.test
        child = a


def run(chk: Check) -> None:
    d6b_guard_completeness(chk)
    d13_filtered_traversal_recursion(chk)
    d15_leaf_means_no_container(chk)
    d4e_operator_consulted_for_every_element(chk)
    d16_container_tests_name_concrete_kinds(chk)
    d17_key_name_match_needs_an_array_of_hashes(chk)
    from rules.shared import merge_identity_rule
    merge_identity_rule(chk, "C01-D14", ("yamlpath/processor.py",), 3)
    d1_dispatch(chk)
    d1b_views(chk)
    d7_every_child(chk)
    d8_exhaustive(chk)
    d2_drivers(chk)
    d3_notation(chk)
    d4_inversion(chk)
    d4c_verdict_per_element(chk)
    d4d_verdict_is_a_comparison(chk)
    d11_filter_tests_yield_once(chk)
    d12_filtered_star_kinds(chk)
    d5b_scalars_have_no_attributes(chk)
    from rules.c08 import d12_quoted_text_is_literal
    d12_quoted_text_is_literal(chk, "C01-D9")
    d5_haystack(chk)
    d6_reference(chk)
