"""C04 -- a delete removes exactly the matched nodes.

Decided clauses (DESIGN.md section 4, C04):
  D1  gather then delete (the deletion call post-dominates the gathering
      loop and is not inside it);
  D2  descending order (reversed iteration over the gathered list);
  D3  deletion targets are the coordinates: every mutation in _delete_nodes
      acts on the current item's parent at its parentref (or, for a
      merge-key anchor, on the merge entry and the keys it contributed),
      under a presence / bounds guard;
  D4  root refusal: the fall-through branch raises
      NoDocumentYAMLPathException and nothing is mutated before it on that
      path;
  D5  partial operations of the delete path are guarded.
"""
from __future__ import annotations

import ast
from typing import Dict, List, Optional, Set

from sa import partial
from sa.coords import reaching_def
from sa.effects import Effects, mutation_sites
from sa.guards import facts_at, root_name
from sa.model import (AnalysisError, FuncInfo, Program, ancestors,
                      enclosing_stmt, parent, src, walk_local)
from sa.report import Check

META = {
    "explanation": (
        "Static decision over Processor.delete_nodes / _delete_nodes: the "
        "deletion call is outside and after the gathering loop; the "
        "gathered list is traversed through reversed(); every mutation "
        "site of _delete_nodes has the current item's `.parent` as "
        "receiver root and its `.parentref` (or, in the merge-key branch, "
        "a presence-tested key of the merged anchor) as key, each under a "
        "presence or bounds guard; the branch for a parent that is no "
        "container raises NoDocumentYAMLPathException with no mutation "
        "before it; subscripts on the delete path are discharged by guard "
        "facts.  Nothing is executed."),
    "declined": [
        "validity of the coordinates themselves (C02)",
    ],
    "assumptions": ["coordinates handed to the writer satisfy C02"],
    "trusted_base": ["ruamel CommentedMap.merge entries are (index, node)"],
}


def d1_d2(chk: Check) -> None:
    prog = chk.prog
    chk.rule("C04-D1", "delete_nodes gathers every match first; the "
             "deletion call comes after the gathering loop, not inside it",
             floor=1)
    chk.rule("C04-D2", "_delete_nodes traverses the gathered list in "
             "reverse (descending positions)", floor=1)
    fi = prog.func("Processor.delete_nodes")
    chk.analysed(fi)
    calls = [n for n in walk_local(fi.node) if isinstance(n, ast.Call) and
             src(n.func).endswith("._delete_nodes")]
    loops = [n for n in walk_local(fi.node) if isinstance(n, ast.For) and
             isinstance(n.iter, ast.Call) and any(
                 isinstance(c, ast.Call) and
                 isinstance(c.func, ast.Attribute) and c.func.attr == "append"
                 for c in walk_local(n))]
    if len(loops) != 1 or len(calls) != 1:
        raise AnalysisError("delete_nodes: gather loop / delete call not "
                            "found")
    loop, call = loops[0], calls[0]
    # the nodes to delete come from the *required* query on the document:
    # an optional-match query creates what it does not find
    chk.rule("C04-D1b", "the nodes to delete are gathered by the required-"
             "match query on the document root (a query that can create "
             "nodes must not feed a delete)", floor=1)
    from sa.model import resolve_call
    cands = resolve_call(prog, fi, loop.iter)
    cname = cands[0].short if len(cands) == 1 else src(loop.iter.func)
    a0 = src(loop.iter.args[0]) if loop.iter.args else ""
    if cname.endswith("_get_required_nodes") and a0 == "self.data":
        chk.ok("C04-D1b", fi, loop, "for ... in " + src(loop.iter)[:60],
               "required-match query on self.data")
    else:
        chk.fail("C04-D1b", fi, loop, "for ... in " + src(loop.iter)[:60],
                 "matches are gathered through `{}`, not the required-match "
                 "query on self.data: missing branches of a fanned-out path "
                 "are created (padding, empty maps) and then reported as "
                 "deleted".format(cname))
    inside = any(a is loop for a in ancestors(call))
    gathered = [c for c in walk_local(loop) if isinstance(c, ast.Call) and
                isinstance(c.func, ast.Attribute) and c.func.attr == "append"]
    early = [x for x in walk_local(loop)
             if isinstance(x, (ast.Break, ast.Continue, ast.If))]
    arg_ok = gathered and call.args and \
        src(call.args[0]) == src(gathered[0].func.value)  # type: ignore
    # ... and only when the gathering has *completed*: a deletion placed in
    # a `finally:` / `except:` block also runs when the query raised half way
    # (a refused root, a type mismatch further along the path), deleting
    # the matches found so far although the call as a whole failed
    cleanup = None
    for a in ancestors(call):
        pa = parent(a) if not isinstance(a, ast.Module) else None
        if isinstance(pa, ast.Try) and isinstance(a, ast.stmt) and \
                a in pa.finalbody:
            cleanup = "finally"
        if isinstance(a, ast.ExceptHandler):
            cleanup = "except"
    if cleanup:
        chk.fail("C04-D1", fi, call, src(call),
                 "the deletion runs in a `{}:` block: when the query raises "
                 "after some matches (or the caller abandons the generator) "
                 "the nodes gathered so far are deleted although the "
                 "operation failed -- a refused or impossible delete must "
                 "change nothing".format(cleanup))
    elif not inside and call.lineno > loop.lineno and arg_ok and not early:
        chk.ok("C04-D1", fi, call, src(call),
               "called once after the loop that appends every match to "
               "`{}`".format(src(call.args[0])))
    else:
        chk.fail("C04-D1", fi, call, src(call),
                 "deletion is interleaved with gathering (or not every "
                 "match is gathered): deleting while the query generator "
                 "is live shifts the positions of later matches")
    dn = prog.func("Processor._delete_nodes")
    chk.analysed(dn)
    p = dn.params()[1]
    tops = [n for n in dn.node.body if isinstance(n, ast.For)]
    if len(tops) != 1:
        raise AnalysisError("_delete_nodes main loop not found")
    it = src(tops[0].iter).replace(" ", "")
    if it in ("reversed({})".format(p), "{}[::-1]".format(p)):
        chk.ok("C04-D2", dn, tops[0], "for ... in " + src(tops[0].iter),
               "descending order of discovery")
    else:
        chk.fail("C04-D2", dn, tops[0], "for ... in " + src(tops[0].iter),
                 "nodes are not deleted in reverse order: removing an "
                 "earlier list element shifts the index of later matches")


def d3_d4(chk: Check) -> None:
    prog = chk.prog
    chk.rule("C04-D3", "every mutation in _delete_nodes removes the entry at "
             "the current item's (parent, parentref) -- or the merge entry "
             "and keys contributed by a merge-key anchor -- under a "
             "presence / bounds guard", floor=4)
    chk.rule("C04-D4", "a parent that is no container ends in "
             "NoDocumentYAMLPathException with no mutation on that path",
             floor=1)
    dn = prog.func("Processor._delete_nodes")
    loop = [n for n in dn.node.body if isinstance(n, ast.For)][0]
    item = src(loop.target)
    # role discovery: locals bound to <item>.parent / .parentref
    roles: Dict[str, str] = {}
    for n in walk_local(loop):
        if isinstance(n, ast.Assign) and isinstance(n.value, ast.Attribute) \
                and src(n.value.value) == item:
            roles[n.value.attr] = src(n.targets[0])
    par, ref = roles.get("parent"), roles.get("parentref")
    if not par or not ref:
        raise AnalysisError("_delete_nodes: parent/parentref roles missing")
    # the coordinates are the *recorded* ones: the locals holding them are
    # bound once per item and never adjusted (an adjustment computed from
    # the raw positions of other records mixes negative and non-negative
    # indexes of one list)
    for role in (par, ref):
        stores = [x for x in walk_local(loop)
                  if isinstance(x, ast.Name) and x.id == role and
                  isinstance(x.ctx, ast.Store)]
        if len(stores) > 1:
            chk.fail("C04-D3", dn, stores[1],
                     "`{}` re-bound in the deletion loop".format(role),
                     "the position deleted is no longer the one recorded "
                     "for the match: an adjustment by the raw positions of "
                     "earlier deletions treats a negative index as lying "
                     "before every non-negative one, so `(l[1])+(l[-1])` "
                     "removes other elements than the two matched")
    ef = Effects(prog)
    rec = _deletion_record(dn, loop, item, par, ref)
    for site in mutation_sites(dn):
        cls, _ = ef.classify(site)
        if cls in ("fresh", "kwargs", "nondoc"):
            continue
        if rec is not None and src(site.receiver) == rec and \
                site.how == ".append()":
            # the function's own record of what it has deleted (C04-D10)
            continue
        text = "{} on {}".format(site.how, src(site.receiver))
        recv_root = root_name(site.receiver)
        facts = [f for f in facts_at(site.node) if f.kind == "cond"]
        in_merge = any(isinstance(a, ast.For) and
                       src(a.iter) in (par + ".merge",
                                       "enumerate({}.merge)".format(par))
                       for a in ancestors(site.node))
        key = None
        if isinstance(site.node, ast.Subscript):
            key = src(site.node.slice)
        elif isinstance(site.node, ast.Call) and site.node.args:
            key = src(site.node.args[0])
        problems: List[str] = []
        if recv_root != par:
            problems.append("receiver `{}` is not the item's parent `{}`"
                            .format(src(site.receiver), par))
        if src(site.receiver) == par:
            if key != ref and not in_merge:
                problems.append("removes key `{}` instead of the item's "
                                "parentref `{}`".format(key, ref))
            if site.how == "del[]":
                guard = _guarded(facts, par, key or "") or (
                    in_merge and _tested_in_enclosing_if(site.node, par,
                                                         key or ""))
                if not guard:
                    problems.append("not guarded by a presence or bounds "
                                    "test on `{}`".format(key))
                if in_merge and key != ref:
                    # a key contributed by the merged hash may be removed
                    # only while the parent still *inherits* it: its value
                    # here equals the merged hash's value for that key
                    p_if = parent(enclosing_stmt(site.node))
                    t = src(p_if.test).replace(" ", "") \
                        if isinstance(p_if, ast.If) else ""
                    if "{}[{}]==".format(par, key) not in t and \
                            "=={}[{}]".format(par, key) not in t:
                        problems.append(
                            "a key of the merged hash is removed from the "
                            "parent without testing that the parent's value "
                            "is the inherited one: keys the parent "
                            "overrides itself are deleted too")
        elif src(site.receiver) == par + ".merge":
            if not in_merge:
                problems.append("merge list edited outside the merge-key "
                                "branch")
            if site.how == "del[]":
                # the position deleted is a position *of the merge list*
                # (enumerate), not a field of its entries: an entry is
                # (position of the << key in the hash, merged node)
                from sa.coords import loop_binding
                lb = loop_binding(key or "", site.node)
                if not (lb is not None and lb[0] == "index" and
                        src(lb[1]) == par + ".merge"):
                    problems.append(
                        "`{}` is not the enumeration index of `{}.merge`: "
                        "with several merged anchors (`<<: [*a, *b]`) "
                        "another reference is removed".format(key, par))
        if site.how not in ("del[]", ".discard()"):
            problems.append("unexpected mutation kind `{}`".format(site.how))
        if problems:
            chk.fail("C04-D3", dn, site.node, text, "; ".join(problems))
        else:
            chk.ok("C04-D3", dn, site.node, text,
                   "acts on ({}, {}){}".format(
                       par, key, " in the merge-key branch" if in_merge
                       else ""))
    # D4: the final else of the parent-kind ladder
    raises = [n for n in walk_local(loop) if isinstance(n, ast.Raise)]
    ok = False
    for r in raises:
        if "NoDocumentYAMLPathException" not in src(r.exc):
            continue
        p = parent(r)
        if isinstance(p, ast.If) and r in p.orelse:
            # negated tests on the way must cover map / seq / set parents
            negs = " ".join(src(f.expr) for f in facts_at(r)
                            if f.kind == "cond" and not f.pol)
            if all(k in negs for k in ("CommentedMap", "CommentedSeq",
                                       "CommentedSet")):
                ok = True
                chk.ok("C04-D4", dn, r, "raise NoDocumentYAMLPathException",
                       "fall-through of the parent-kind ladder; no "
                       "statement precedes it in the branch")
                if len(p.orelse) != 1:
                    ok = False
    if not ok:
        chk.fail("C04-D4", dn, loop, "root refusal",
                 "deleting a node whose parent is no container (the "
                 "document root) is not refused with "
                 "NoDocumentYAMLPathException")


def _tested_in_enclosing_if(node: ast.AST, cont: str, key: str) -> bool:
    """`if key in cont and ...:` directly around the statement (the fact is
    killed for the generic engine because the loop edits `cont`)."""
    p = parent(enclosing_stmt(node))
    return isinstance(p, ast.If) and \
        "{} in {}".format(key, cont) in src(p.test)


def _guarded(facts, cont: str, key: str) -> Optional[str]:
    for f in facts:
        e = f.expr
        if not f.pol or not isinstance(e, ast.Compare) or len(e.ops) != 1:
            continue
        if isinstance(e.ops[0], ast.In) and src(e.left) == key and \
                src(e.comparators[0]) == cont:
            return repr(f)
        t = src(e).replace(" ", "")
        if t in ("len({})>{}".format(cont, key),
                 "{}<len({})".format(key, cont)):
            return repr(f)
    for f in facts:
        e = f.expr
        if f.pol and isinstance(e, ast.Compare) and len(e.ops) == 2:
            if src(e.comparators[0]) == key and \
                    "len({})".format(cont) in src(e):
                return repr(f)
    return None


def d5_partial(chk: Check) -> None:
    prog = chk.prog
    chk.rule("C04-D5", "subscripts and pops on the delete path are "
             "discharged by guard facts", floor=4)
    names = ["Processor._delete_nodes", "Processor.delete_nodes",
             "Processor.delete_gathered_nodes"]
    # helpers of the delete path (the refusal pre-pass, C04-D4b)
    dn0 = prog.func("Processor._delete_nodes")
    for c in walk_local(dn0.node):
        if isinstance(c, ast.Call) and src(c.func).startswith("self._"):
            q = "Processor." + src(c.func)[5:]
            try:
                prog.func(q)
            except Exception:  # pylint: disable=broad-except
                continue
            if q not in names:
                names.append(q)
    for name in names:
        fi = prog.func(name)
        for site in partial.find_sites(fi):
            if site.kind == "del":
                continue    # D3
            why = partial.discharge(site, prog)
            if why is None and site.kind == "subscript":
                why = _pair(site)
            text = "{} {}".format(site.kind, site.text)
            if why:
                chk.ok("C04-D5", fi, site.node, text, why)
            else:
                chk.fail("C04-D5", fi, site.node, text,
                         "`{}` may raise {}: no dominating guard".format(
                             site.text, "/".join(site.exc)),
                         {"facts": [repr(f) for f in
                                    facts_at(site.node)][:8]})


def _pair(site: partial.Site) -> Optional[str]:
    node = site.node
    # <coords>.path_segment[0|1]: a path segment is a (type, attributes)
    # pair (C14 INV-SEGMENT-PAIR) unless the coordinates carry none, which
    # the enclosing `... is None or ...` rules out before the subscript
    if isinstance(node, ast.Subscript) and \
            isinstance(node.value, ast.Attribute) and \
            node.value.attr == "path_segment" and \
            isinstance(node.slice, ast.Constant) and \
            node.slice.value in (0, 1):
        for a in ancestors(node):
            if isinstance(a, ast.BoolOp) and isinstance(a.op, ast.Or) and \
                    any(src(v).replace(" ", "") ==
                        src(node.value) + "isNone" for v in a.values[:-1]):
                return "segment pair; `{} is None` short-circuits " \
                       "first".format(src(node.value))
            if isinstance(a, ast.stmt):
                break
    if isinstance(node, ast.Subscript) and \
            isinstance(node.value, ast.Subscript) and \
            "ancestry" in src(node.value.value) and \
            isinstance(node.slice, ast.Constant) and \
            node.slice.value in (0, 1):
        return "ancestry entries are (parent, parentref) pairs (C02/C15 " \
               "INV-ANC-PAIR); inner subscript checked separately"
    return None


def d6_always_acts(chk: Check) -> None:
    """Every path through the handling of one gathered item removes
    something, recurses, raises, or is excused by a failed presence /
    bounds test on the item's own coordinates; and a bounds guard never
    rejects a valid index."""
    from sa.flow import Flow
    from sa.peval import Const, PEval
    prog = chk.prog
    chk.rule("C04-D6", "every matched item is acted upon on every path "
             "(delete / recurse / refuse), unless its own coordinates fail "
             "the presence or bounds test", floor=1)
    chk.rule("C04-D7", "the bounds guard of a list deletion accepts every "
             "valid index (-len <= i < len) and rejects i >= len", floor=1)
    dn = prog.func("Processor._delete_nodes")
    loop = [n for n in dn.node.body if isinstance(n, ast.For)][0]
    item = src(loop.target)
    roles: Dict[str, str] = {}
    for n in walk_local(loop):
        if isinstance(n, ast.Assign) and isinstance(n.value, ast.Attribute) \
                and src(n.value.value) == item:
            roles[n.value.attr] = src(n.targets[0])
    par, ref = roles["parent"], roles["parentref"]

    def is_presence(test: ast.AST) -> bool:
        t = src(test).replace(" ", "")
        return t == "{}in{}".format(ref, par) or (
            "len({})".format(par) in t and ref in t and
            isinstance(test, ast.Compare))

    def transfer(stmt: ast.stmt, st, flow):
        acted, excused = st
        for n in walk_local(stmt):
            if isinstance(n, ast.Call) and \
                    src(n.func).endswith("._delete_nodes"):
                acted = True
            if isinstance(n, ast.Subscript) and \
                    isinstance(n.ctx, ast.Del) and \
                    (src(n.value) == par or
                     src(n.value).startswith(par + ".")):
                acted = True
            if isinstance(n, ast.Call) and \
                    isinstance(n.func, ast.Attribute) and \
                    src(n.func.value) == par and \
                    n.func.attr in ("discard", "remove", "pop"):
                acted = True
        return [(acted, excused)]

    rec = _deletion_record(dn, loop, item, par, ref)

    def branch(test: ast.AST, st, flow):
        acted, excused = st
        if _is_gone_test(test, rec, par, ref):
            # the node at these coordinates was deleted for an earlier
            # match of the same node (C04-D10 proves the record sound)
            return [(acted, True)], [st]
        if is_presence(test):
            return [st], [(acted, True)]
        if isinstance(test, ast.BoolOp) and isinstance(test.op, ast.And) \
                and any(is_presence(v) for v in test.values):
            return [st], [(acted, True)]
        return [st], [st]
    flow = Flow(transfer, branch)
    out = flow.run(loop.body, [(False, False)])
    ends = set(out.fall) | set(out.continues)
    bad = [s for s in ends if not s[0] and not s[1]]
    if bad:
        chk.fail("C04-D6", dn, loop, "per-item handling",
                 "some path through the handling of a gathered node neither "
                 "deletes, recurses nor refuses although its coordinates "
                 "are present: the matched node silently survives")
    else:
        chk.ok("C04-D6", dn, loop, "per-item handling",
               "{} end states, all acted or excused by a failed presence "
               "test".format(len(ends)))
    # D7: the list bounds guard
    pe = PEval()
    found = False
    for n in walk_local(loop):
        if isinstance(n, ast.If) and isinstance(n.test, ast.Compare) and \
                "len({})".format(par) in src(n.test) and ref in src(n.test):
            found = True
            problems = []
            for ln in range(0, 5):
                for i in range(-ln, ln + 3):
                    t = pe.truth(n.test, {"len({})".format(par): Const(ln),
                                          ref: Const(i)})
                    valid = -ln <= i < ln
                    if valid and t is not True:
                        problems.append("len={} index={} rejected".format(
                            ln, i))
                    if i >= ln and t is not False:
                        problems.append("len={} index={} accepted".format(
                            ln, i))
            if problems:
                chk.fail("C04-D7", dn, n, "if " + src(n.test),
                         "bounds guard is wrong for: " + ", ".join(
                             problems[:4]))
            else:
                chk.ok("C04-D7", dn, n, "if " + src(n.test),
                       "evaluated for len 0..4 and every index -len..len+2")
    if not found:
        chk.fail("C04-D7", dn, loop, "list deletion bounds guard",
                 "no test relating the item's index to len({}) guards the "
                 "list deletion".format(par))


def d9_negative_and_empty(chk: Check) -> None:
    """Three ways in which the list branch of _delete_nodes can remove a
    node that was not matched (or raise IndexError), all visible in the
    shape of the code:

    a. its bounds guard accepts an index below -len (IndexError);
    b. it deletes at the recorded position as given: a *negative* position
       is relative to the end of the list, so it names another element once
       an element to its right has been deleted (the reverse-order pass
       protects non-negative positions only);
    c. a virtual result (a list of coordinates, e.g. a slice) that is empty
       fails the "list of NodeCoords" test and is handled as a real node at
       the virtual result's own (parent, parentref)."""
    from sa.peval import Const, PEval
    prog = chk.prog
    chk.rule("C04-D9a", "the list deletion guard rejects every index below "
             "-len (small-domain evaluation)", floor=1)
    chk.rule("C04-D9b", "a position used for a list deletion is known to be "
             "non-negative (tested or normalised) when it is used", floor=1)
    chk.rule("C04-D9c", "a virtual result handed out with a real (parent, "
             "parentref) is never empty", floor=1)
    dn = prog.func("Processor._delete_nodes")
    loop = [n for n in dn.node.body if isinstance(n, ast.For)][0]
    item = src(loop.target)
    roles: Dict[str, str] = {}
    for n in walk_local(loop):
        if isinstance(n, ast.Assign) and isinstance(n.value, ast.Attribute) \
                and src(n.value.value) == item:
            roles[n.value.attr] = src(n.targets[0])
    par, ref = roles["parent"], roles["parentref"]
    pe = PEval()
    dels = [n for n in walk_local(loop) if isinstance(n, ast.Subscript) and
            isinstance(n.ctx, ast.Del) and src(n.value) == par and
            src(n.slice) == ref and any(
                isinstance(a, ast.If) and "CommentedSeq" in src(a.test)
                for a in ancestors(n))]
    if not dels:
        # the list branch no longer deletes by position: C04-D3's business
        chk.ok("C04-D9a", dn, loop, "no positional list deletion", "", False)
        chk.ok("C04-D9b", dn, loop, "no positional list deletion", "", False)
    for d in dels:
        guards = [f for f in facts_at(d) if f.kind == "cond" and
                  "len({})".format(par) in src(f.expr) and ref in src(f.expr)]
        text = "list deletion at the recorded position"
        # a
        bad = []
        for ln in range(0, 4):
            for i in range(-ln - 3, -ln):
                env = {"len({})".format(par): Const(ln), ref: Const(i)}
                ok = True
                for g in guards:
                    t = pe.truth(g.expr, env)
                    if t is None:
                        ok = None
                        break
                    if t != g.pol:
                        ok = False
                if ok is not False:
                    bad.append("len={} index={}".format(ln, i))
        if bad:
            chk.fail("C04-D9a", dn, d, text + " below -len",
                     "the guards {} let the deletion run for {}: "
                     "IndexError instead of leaving the list alone".format(
                         [repr(g) for g in guards], ", ".join(bad[:3])))
        else:
            chk.ok("C04-D9a", dn, d, text + " below -len",
                   "rejected for len 0..3")
        # b
        nonneg = any(
            g.pol and isinstance(g.expr, ast.Compare) and
            src(g.expr).replace(" ", "") in (
                "{}>=0".format(ref), "0<={}".format(ref),
                "0<={}<len({})".format(ref, par))
            for g in facts_at(d) if g.kind == "cond")
        normalised = any(
            isinstance(a, ast.Assign) and src(a.targets[0]) == ref and
            "len({})".format(par) in src(a.value)
            for a in walk_local(loop))
        if nonneg or normalised:
            chk.ok("C04-D9b", dn, d, text + " sign",
                   "position known non-negative")
        else:
            chk.fail("C04-D9b", dn, d, text + " sign",
                     "the position is used as recorded; a negative one is "
                     "relative to the end of the list and names a different "
                     "element after a deletion to its right (matches are "
                     "processed in reverse gather order, which keeps only "
                     "non-negative positions valid)")
    # c: producers of virtual results
    n_prod = 0
    for fi in prog.funcs_in("yamlpath/processor.py"):
        for c in walk_local(fi.node):
            if not (isinstance(c, ast.Call) and src(c.func) == "NodeCoords"
                    and len(c.args) >= 3 and isinstance(c.args[0], ast.Name)):
                continue
            lst = c.args[0].id
            appends = [x for x in walk_local(fi.node)
                       if isinstance(x, ast.Call) and
                       isinstance(x.func, ast.Attribute) and
                       x.func.attr == "append" and src(x.func.value) == lst
                       and x.args and isinstance(x.args[0], ast.Call) and
                       src(x.args[0].func) == "NodeCoords"]
            if not appends:
                continue
            n_prod += 1
            text = "{}: virtual result (list of coordinates) handed out " \
                "with a real parentref".format(fi.short)
            guarded = any(
                f.kind == "cond" and f.pol and (
                    src(f.expr) == lst or
                    src(f.expr).replace(" ", "") in (
                        "len({})>0".format(lst), "len({})>=1".format(lst)))
                for f in facts_at(c))
            real = src(c.args[2]) not in ("None",)
            if guarded or not real:
                chk.ok("C04-D9c", fi, c, text, "not empty when handed out")
            else:
                chk.fail("C04-D9c", fi, c, text,
                         "`{}` may be empty here: the consumer's test for a "
                         "list of coordinates (len > 0 and element 0 is a "
                         "NodeCoords) fails, and the empty virtual result is "
                         "deleted as if it were the node at ({}, {})".format(
                             lst, src(c.args[1]), src(c.args[2])))
    if n_prod == 0:
        raise AnalysisError("no producer of virtual results found")


def d5b_empty_list_is_a_node(chk: Check) -> None:
    """The first dispatch test of _delete_nodes separates virtual results
    (lists of coordinates) from real nodes.  Folded over sample node values:
    an *empty* list -- a real node the path matched -- must not be taken
    for a virtual result (nothing would be deleted), and a list of plain
    values must not either."""
    from sa.peval import Const, PEval
    prog = chk.prog
    chk.rule("C04-D5b", "the virtual-result test of _delete_nodes is false "
             "for an empty list and for a list of plain values", floor=2)
    dn = prog.func("Processor._delete_nodes")
    loop = [n for n in dn.node.body if isinstance(n, ast.For)][0]
    item = src(loop.target)
    node_v = None
    for n in walk_local(loop):
        if isinstance(n, ast.Assign) and isinstance(n.value, ast.Attribute) \
                and src(n.value.value) == item and n.value.attr == "node":
            node_v = src(n.targets[0])
    tests = [n for n in loop.body if isinstance(n, ast.If) and any(
        isinstance(c, ast.Call) and src(c.func).endswith("._delete_nodes")
        for s_ in n.body for c in ast.walk(s_))]
    if node_v is None or len(tests) != 1:
        raise AnalysisError("virtual-result test of _delete_nodes not found")
    test = tests[0].test
    pe = PEval()
    for sample, label in (([], "an empty list"), (["x"], "a list of values")):
        env = {node_v: Const(sample), "len({})".format(node_v):
               Const(len(sample))}
        if sample:
            env["{}[0]".format(node_v)] = Const(sample[0])
        t = pe.truth(test, env)
        text = "node = {!r}".format(sample)
        if t is False:
            chk.ok("C04-D5b", dn, tests[0], text,
                   "{} is handled as the real node it is".format(label))
        elif t is True:
            chk.fail("C04-D5b", dn, tests[0], text,
                     "{} passes the test for a list of coordinates: the "
                     "recursion over its (no) members deletes nothing and "
                     "the matched node survives".format(label))
        else:
            # e.g. `node[0]` read without a length test: the test itself
            # raises for an empty list, which is C04-D5's finding
            chk.ok("C04-D5b", dn, tests[0], text,
                   "not decided by folding (left to the partial-operation "
                   "rule C04-D5)", False)


def d2b_ascending_gather(chk: Check) -> None:
    """_delete_nodes deletes in reverse *gather* order, which is descending
    position order only if every producer hands out the matches of one list
    in ascending position order.  The producers that enumerate a list
    append in loop order -- except where a result collection receives the
    contents of another one in the middle of the enumeration."""
    prog = chk.prog
    chk.rule("C04-D2b", "collections of matches that are yielded for one "
             "list are filled in enumeration order (append in the loop, no "
             "extend() from another collection inside it)", floor=2)
    n = 0
    for q in ("KeywordSearches.min", "KeywordSearches.max",
              "KeywordSearches.unique", "KeywordSearches.distinct"):
        fi = prog.func(q)
        data = fi.params()[0]
        for loop in walk_local(fi.node):
            if not (isinstance(loop, ast.For) and
                    src(loop.iter) == "enumerate({})".format(data)):
                continue
            n += 1
            ext = [c for c in walk_local(loop) if isinstance(c, ast.Call)
                   and isinstance(c.func, ast.Attribute) and
                   c.func.attr in ("extend", "insert") and c.args]
            text = "{}: for ... in enumerate({})".format(fi.node.name, data)
            if ext:
                chk.fail("C04-D2b", fi, ext[0],
                         "{}: yielded collection extended inside the "
                         "enumeration".format(fi.node.name),
                         "earlier matches are moved behind later ones in the "
                         "collection that is yielded for the inverted "
                         "keyword: the positions are then not ascending, and "
                         "the reverse-order deletion removes other elements")
            else:
                chk.ok("C04-D2b", fi, loop, text, "append order = position "
                       "order")
    if n < 4:
        raise AnalysisError("list loops of the keyword handlers not found")



def _deletion_record(dn: FuncInfo, loop: ast.For, item: str, par: str,
                     ref: str) -> Optional[str]:
    """Name of the parameter in which _delete_nodes records the coordinates
    it has deleted so far (a list, fresh per outermost call), or None."""
    args = dn.node.args
    names = [a.arg for a in args.args]
    defaults = dict(zip(reversed(names), reversed(args.defaults)))
    for nm, dv in defaults.items():
        if not (isinstance(dv, ast.Constant) and dv.value is None):
            continue
        fresh = False
        for n in dn.node.body:
            if isinstance(n, ast.If) and \
                    src(n.test).replace(" ", "") == nm + "isNone" and \
                    n.body and isinstance(n.body[0], ast.Assign) \
                    and src(n.body[0].targets[0]) == nm and \
                    src(n.body[0].value) in ("[]", "list()"):
                fresh = True
        if fresh:
            return nm
    return None


def _is_gone_test(test: ast.AST, rec: Optional[str], par: str, ref: str
                  ) -> bool:
    """`any(par is g.parent and ref == g.parentref for g in rec)`."""
    if rec is None or not (isinstance(test, ast.Call) and
                           src(test.func) == "any" and len(test.args) == 1
                           and isinstance(test.args[0], ast.GeneratorExp)):
        return False
    ge = test.args[0]
    if len(ge.generators) != 1 or ge.generators[0].ifs or \
            src(ge.generators[0].iter) != rec:
        return False
    g = src(ge.generators[0].target)
    e = ge.elt
    if not (isinstance(e, ast.BoolOp) and isinstance(e.op, ast.And) and
            len(e.values) == 2):
        return False
    parts = {src(v).replace(" ", "") for v in e.values}
    ident = {"{}is{}.parent".format(par, g), "{}.parentis{}".format(g, par)}
    equal = {"{}=={}.parentref".format(ref, g),
             "{}.parentref=={}".format(g, ref)}
    return bool(parts & ident) and bool(parts & equal)


def d10_at_most_once(chk: Check) -> None:
    """One node can be matched more than once: by two sub-paths of a
    collector, or because its container is reachable through an alias as
    well.  Both matches carry the same (parent object, parentref).  A second
    `del parent[i]` / discard at those coordinates removes whichever node
    has taken the place of the first (or raises KeyError from a set), so
    every deleting arm must (a) be reached only when no recorded deletion
    has the same parent object and parentref, and (b) record its item
    before deleting; the record is shared with the recursive calls that
    unpack virtual results and is fresh for each outermost call."""
    prog = chk.prog
    chk.rule("C04-D10", "a node matched more than once is deleted once: "
             "every deleting arm of _delete_nodes is reached only when no "
             "recorded deletion has the same parent object and parentref, "
             "records its item first, and the record is forwarded to the "
             "recursive calls", floor=4)
    dn = prog.func("Processor._delete_nodes")
    loop = [n for n in dn.node.body if isinstance(n, ast.For)][0]
    item = src(loop.target)
    roles: Dict[str, str] = {}
    for n in walk_local(loop):
        if isinstance(n, ast.Assign) and isinstance(n.value, ast.Attribute) \
                and src(n.value.value) == item:
            roles[n.value.attr] = src(n.targets[0])
    par, ref = roles["parent"], roles["parentref"]
    rec = _deletion_record(dn, loop, item, par, ref)
    # deleting sites
    sites = []
    for n in walk_local(loop):
        if isinstance(n, ast.Subscript) and isinstance(n.ctx, ast.Del) and \
                src(n.value) == par:
            sites.append(n)
        if isinstance(n, ast.Call) and isinstance(n.func, ast.Attribute) \
                and src(n.func.value) == par and \
                n.func.attr in ("discard", "remove", "pop"):
            sites.append(n)
    if len(sites) < 3:
        raise AnalysisError("_delete_nodes: deleting sites not found")
    if rec is None:
        chk.fail("C04-D10", dn, loop, "record of deleted coordinates",
                 "_delete_nodes keeps no record of the coordinates it has "
                 "deleted: an element matched twice (two sub-paths of a "
                 "collector, or a container reachable through an alias) is "
                 "deleted at the same position twice, which removes the "
                 "element that follows it")
        return
    # top-level ladder arms of the loop body
    for site in sites:
        text = "{}: `{}`".format("deleting arm", src(enclosing_stmt(site))
                                 [:50])
        # the ladder arm's earlier siblings include the already-gone test
        # (facts about the record are killed by the append that follows,
        # so this is read off the ladder itself)
        neg = []
        for a in ancestors(site):
            if a is loop:
                break
            if isinstance(a, ast.If):
                cur2: ast.AST = a
                while isinstance(parent(cur2), ast.If) and \
                        cur2 in parent(cur2).orelse and \
                        len(parent(cur2).orelse) == 1:
                    cur2 = parent(cur2)
                    if _is_gone_test(cur2.test, rec, par, ref):
                        neg.append(cur2)
        # the arm: outermost statement list below the loop that holds the
        # site and belongs to an If of the loop body's ladder
        chain = [a for a in ancestors(site)]
        arm_body: Optional[List[ast.stmt]] = None
        top_stmt: Optional[ast.AST] = None
        prev: ast.AST = site
        for a in chain:
            if a is loop:
                break
            if isinstance(a, ast.If) and (
                    parent(a) is loop or (isinstance(parent(a), ast.If) and
                                          a in parent(a).orelse)):
                # is this If part of the loop's top-level ladder?
                cur: ast.AST = a
                while isinstance(parent(cur), ast.If) and \
                        cur in parent(cur).orelse:
                    cur = parent(cur)
                if parent(cur) is loop:
                    arm_body = a.body if prev in a.body else a.orelse
                    top_stmt = prev
                    break
            prev = a
        recorded = False
        if arm_body is not None and top_stmt in arm_body:
            for st in arm_body[:arm_body.index(top_stmt)]:
                if isinstance(st, ast.Expr) and \
                        isinstance(st.value, ast.Call) and \
                        src(st.value.func) == rec + ".append" and \
                        len(st.value.args) == 1 and \
                        src(st.value.args[0]) == item:
                    recorded = True
        problems = []
        if not neg:
            problems.append("reached without testing that no recorded "
                            "deletion has the same parent object and "
                            "parentref")
        if not recorded:
            problems.append("the item is not recorded in `{}` before the "
                            "deletion".format(rec))
        if problems:
            chk.fail("C04-D10", dn, site, text, "; ".join(problems) +
                     ": a node matched twice is deleted twice (the second "
                     "deletion removes its neighbour)")
        else:
            chk.ok("C04-D10", dn, site, text,
                   "after `not any(same parent object and parentref in "
                   "{})` and `{}.append({})`".format(rec, rec, item))
    # recursion shares the record
    for c in walk_local(dn.node):
        if isinstance(c, ast.Call) and src(c.func).endswith("._delete_nodes"):
            passed = (len(c.args) >= 2 and src(c.args[1]) == rec) or any(
                k.arg == rec and src(k.value) == rec for k in c.keywords)
            text = "recursive call `{}`".format(src(c)[:50])
            if passed:
                chk.ok("C04-D10", dn, c, text, "shares the record")
            else:
                chk.fail("C04-D10", dn, c, text,
                         "the record of deleted coordinates is not handed "
                         "to the recursive call: repeats inside a virtual "
                         "result are not recognised")
    # only items are recorded, and only by append
    for n in walk_local(dn.node):
        if isinstance(n, ast.Call) and isinstance(n.func, ast.Attribute) \
                and src(n.func.value) == rec and n.func.attr != "append":
            chk.fail("C04-D10", dn, n, "`{}`".format(src(n)[:50]),
                     "the record of deleted coordinates is changed other "
                     "than by appending the current item")


def d4b_refusal_before_any_deletion(chk: Check) -> None:
    """"Deleting the document root is refused ... and changes nothing."
    The refusal inside the deleting loop comes too late when other nodes
    were gathered with the root (`(/)+(/b)`: `b` is gone before the root's
    turn).  The outermost call therefore inspects everything it was given
    *before* the loop: a pre-pass that raises for a leaf whose parent is no
    container, descends into virtual results by the same two tests as the
    loop, and knows the same container kinds as the loop's ladder."""
    prog = chk.prog
    chk.rule("C04-D4b", "the outermost _delete_nodes call runs a refusal "
             "pre-pass over all gathered nodes before its deleting loop; "
             "the pre-pass agrees with the loop on virtual results and on "
             "the container kinds", floor=3)
    dn = prog.func("Processor._delete_nodes")
    loop = [n for n in dn.node.body if isinstance(n, ast.For)][0]
    nodes_par = dn.params()[1]
    pre = None
    for st in dn.node.body:
        if st is loop:
            break
        for c in ast.walk(st):
            if isinstance(c, ast.Call) and src(c.func).startswith("self._") \
                    and c.args and src(c.args[0]) == nodes_par and \
                    not src(c.func).endswith("._delete_nodes"):
                try:
                    cand = prog.func("Processor." + src(c.func)[5:])
                except Exception:  # pylint: disable=broad-except
                    continue
                if any(isinstance(r, ast.Raise) and
                       "NoDocumentYAMLPathException" in src(r)
                       for r in walk_local(cand.node)):
                    pre = (c, cand)
    if pre is None:
        chk.fail("C04-D4b", dn, loop, "refusal pre-pass",
                 "nothing inspects the gathered nodes before the deleting "
                 "loop: when the root is gathered together with other nodes "
                 "those are deleted before the refusal is raised")
        return
    call, pf = pre
    # reached on the outermost call (under `<record> is None`), any depth
    rec = _deletion_record(dn, loop, "", "", "")
    facts = [f for f in facts_at(call) if f.kind == "cond"]
    outer_only = [f for f in facts if not (
        f.pol and rec is not None and
        src(f.expr).replace(" ", "") == rec + "isNone")]
    if outer_only:
        chk.fail("C04-D4b", dn, call, "pre-pass call",
                 "the pre-pass is conditional on {}".format(
                     repr(outer_only[0])[:60]))
    else:
        chk.ok("C04-D4b", dn, call, "pre-pass call",
               "before the loop, on the outermost call")
    # same virtual-result tests as the loop (normalised on the item name)
    def virtual_tests(fn: ast.AST, item_hint: str) -> List[str]:
        out = []
        for n in walk_local(fn):
            if isinstance(n, ast.If) and "NodeCoords" in src(n.test) and \
                    "isinstance" in src(n.test):
                out.append(src(n.test))
        return sorted(out)
    lt = virtual_tests(loop, "")
    pt = virtual_tests(pf.node, "")
    if lt and lt == pt:
        chk.ok("C04-D4b", pf, pf.node, "virtual-result tests of the pre-pass",
               "identical to the loop's: {}".format(len(pt)))
    else:
        chk.fail("C04-D4b", pf, pf.node, "virtual-result tests of the "
                 "pre-pass", "the pre-pass unpacks virtual results by other "
                 "tests than the loop ({} vs {}): a root hidden in a result "
                 "the pre-pass does not open is met by the loop only"
                 .format(pt, lt))
    # container kinds: every class named by the loop's parent-kind ladder
    # is accepted by the pre-pass
    def kinds(fn: ast.AST, what: str) -> set:
        ks = set()
        for n in walk_local(fn):
            if isinstance(n, ast.Call) and src(n.func) == "isinstance" and \
                    len(n.args) == 2 and what in src(n.args[0]) and \
                    isinstance(n.args[1], ast.Tuple):
                ks |= {src(e) for e in n.args[1].elts}
        return ks
    from sa.ladders import EXTERNAL_BASES
    lk, pk = kinds(loop, "parent"), kinds(pf.node, "parent")
    missing = sorted(k for k in lk if k not in pk and
                     not (set(EXTERNAL_BASES.get(k, ())) & pk))
    if lk and not missing:
        chk.ok("C04-D4b", pf, pf.node, "container kinds of the pre-pass",
               "covers {}".format(sorted(lk)))
    else:
        chk.fail("C04-D4b", pf, pf.node, "container kinds of the pre-pass",
                 "the loop deletes from {} but the pre-pass does not accept "
                 "{}: deleting a member of such a container is refused as "
                 "if it were the root".format(sorted(lk), missing))


def d3b_merge_arm_needs_anchor_segment(chk: Check) -> None:
    """Inside a hash the same text can name two things: a key, and -- as an
    anchor segment `[&name]` -- a `<<: *name` reference.  The coordinates
    of both carry the text as parentref, so only the *segment type* of the
    match tells them apart.  The arm of _delete_nodes that removes a merge
    reference (and the keys it contributed) is entered only for a match
    made by an ANCHOR segment; a KEY (or `*`) match of a key spelled like
    the anchor deletes that key."""
    prog = chk.prog
    chk.rule("C04-D3b", "the merge-reference arm of _delete_nodes is "
             "entered only for a match made by an ANCHOR segment", floor=1)
    dn = prog.func("Processor._delete_nodes")
    loop = [n for n in dn.node.body if isinstance(n, ast.For)][0]
    item = src(loop.target)
    merges = [n for n in walk_local(loop) if isinstance(n, ast.For) and
              ".merge" in src(n.iter)]
    if not merges:
        raise AnalysisError("merge-reference arm of _delete_nodes not found")
    arm = merges[0]
    from sa.coords import reaching_def
    texts = []
    for f in facts_at(arm):
        if f.kind != "cond" or not f.pol:
            continue
        texts.append(src(f.expr))
        if isinstance(f.expr, ast.Name):
            d = reaching_def(f.expr.id, arm)
            if d is not None:
                texts.append(src(d))
    ok = any("PathSegmentTypes.ANCHOR" in t and
             "{}.path_segment".format(item) in t for t in texts)
    text = "merge-reference arm (for ... in {})".format(src(arm.iter)[:30])
    if ok:
        chk.ok("C04-D3b", dn, arm, text,
               "only for `{}.path_segment[0] is PathSegmentTypes.ANCHOR` "
               "(or coordinates without a segment)".format(item))
    else:
        chk.fail("C04-D3b", dn, arm, text,
                 "the arm is chosen by the spelling of parentref alone: "
                 "deleting the *key* `name` of a hash that also merges "
                 "`&name` removes the merge reference (and the inherited "
                 "keys) and keeps the key")


def d13_gathered_order_is_kept(chk: Check) -> None:
    """_delete_nodes walks the list it is given from the end (C04-D2), which
    is right for matches in the order the query found them.  The public
    entry points hand the gathered list on *as it is*.  Re-ordering it --
    by the text of the paths, for instance, where `[10]` sorts before `[2]`
    -- makes the reverse walk delete a lower index before a higher one of
    the same list, so an unmatched element goes and a matched one stays."""
    prog = chk.prog
    chk.rule("C04-D13", "the public delete entry points pass the gathered "
             "list to _delete_nodes unchanged (a bare name; no sorted / "
             "reversed / rebuilt list)", floor=2)
    n = 0
    for q in ("Processor.delete_nodes", "Processor.delete_gathered_nodes"):
        fi = prog.func(q)
        for c in walk_local(fi.node):
            if not (isinstance(c, ast.Call) and
                    src(c.func).endswith("._delete_nodes")):
                continue
            n += 1
            arg = c.args[0] if c.args else None
            text = "{}: {}".format(fi.short, src(c)[:60])
            rebinds = []
            if isinstance(arg, ast.Name):
                rebinds = [a for a in walk_local(fi.node)
                           if isinstance(a, ast.Assign) and
                           src(a.targets[0]) == arg.id and
                           not isinstance(a.value, (ast.List,))]
            if isinstance(arg, ast.Name) and not rebinds:
                chk.ok("C04-D13", fi, c, text, "the list as gathered")
            else:
                chk.fail("C04-D13", fi, c, text,
                         "the gathered matches are re-ordered or rebuilt "
                         "before deletion: the reverse walk of "
                         "_delete_nodes is only sound for the order of "
                         "discovery (a text sort puts `[10]` before `[2]`)")
    if n < 2:
        raise AnalysisError("_delete_nodes calls of the entry points: {}"
                            .format(n))


def run(chk: Check) -> None:
    d1_d2(chk)
    d3_d4(chk)
    d3b_merge_arm_needs_anchor_segment(chk)
    d4b_refusal_before_any_deletion(chk)
    d5_partial(chk)
    d6_always_acts(chk)
    d5b_empty_list_is_a_node(chk)
    d9_negative_and_empty(chk)
    d10_at_most_once(chk)
    from rules.shared import shared_state_rule
    shared_state_rule(chk, "C04-D11", ("yamlpath/processor.py",), 30)
    from rules.shared import merge_identity_rule
    merge_identity_rule(chk, "C04-D12", ("yamlpath/processor.py",), 3)
    d13_gathered_order_is_kept(chk)
    from rules.shared import passthrough_of_existing_coordinates_rule
    passthrough_of_existing_coordinates_rule(
        chk, "C04-D14", ("KeywordSearches.unique",
                         "KeywordSearches.distinct"), 2)
    d2b_ascending_gather(chk)
    from rules.c06 import falsy_rule
    falsy_rule(chk, "C04-D8", "yamlpath/processor.py", 30,
               doc_exprs={"self.data", "<.node>"})
