"""C04 -- a delete removes exactly the matched nodes.

Decided clauses (DESIGN.md section 4, C04):
  D1  gather then delete (the deletion call post-dominates the gathering
      loop and is not inside it);
  D2  descending order (reversed iteration over the gathered list);
  D3  deletion targets are the coordinates: every mutation in _delete_nodes
      acts on the current item's parent at its parentref (or, for a
      merge-key anchor, on the merge entry and the keys it contributed),
      under a presence / bounds guard;
  D4  root refusal: the fall-through branch raises
      NoDocumentYAMLPathException and nothing is mutated before it on that
      path;
  D5  partial operations of the delete path are guarded.
"""
from __future__ import annotations

import ast
from typing import Dict, List, Optional, Set

from sa import partial
from sa.coords import reaching_def
from sa.effects import Effects, mutation_sites
from sa.guards import facts_at, root_name
from sa.model import (AnalysisError, FuncInfo, Program, ancestors,
                      enclosing_stmt, parent, src, walk_local)
from sa.report import Check

META = {
    "explanation": (
        "Static decision over Processor.delete_nodes / _delete_nodes: the "
        "deletion call is outside and after the gathering loop; the "
        "gathered list is traversed through reversed(); every mutation "
        "site of _delete_nodes has the current item's `.parent` as "
        "receiver root and its `.parentref` (or, in the merge-key branch, "
        "a presence-tested key of the merged anchor) as key, each under a "
        "presence or bounds guard; the branch for a parent that is no "
        "container raises NoDocumentYAMLPathException with no mutation "
        "before it; subscripts on the delete path are discharged by guard "
        "facts.  Nothing is executed."),
    "declined": [
        "exactly-the-matched-set when one node is matched more than once "
        "(a second `del parent[i]` removes a different element: run-time)",
        "validity of the coordinates themselves (C02)",
    ],
    "assumptions": ["coordinates handed to the writer satisfy C02"],
    "trusted_base": ["ruamel CommentedMap.merge entries are (index, node)"],
}


def d1_d2(chk: Check) -> None:
    prog = chk.prog
    chk.rule("C04-D1", "delete_nodes gathers every match first; the "
             "deletion call comes after the gathering loop, not inside it",
             floor=1)
    chk.rule("C04-D2", "_delete_nodes traverses the gathered list in "
             "reverse (descending positions)", floor=1)
    fi = prog.func("Processor.delete_nodes")
    chk.analysed(fi)
    calls = [n for n in walk_local(fi.node) if isinstance(n, ast.Call) and
             src(n.func).endswith("._delete_nodes")]
    loops = [n for n in fi.node.body if isinstance(n, ast.For) and
             isinstance(n.iter, ast.Call) and any(
                 isinstance(c, ast.Call) and
                 isinstance(c.func, ast.Attribute) and c.func.attr == "append"
                 for c in walk_local(n))]
    if len(loops) != 1 or len(calls) != 1:
        raise AnalysisError("delete_nodes: gather loop / delete call not "
                            "found")
    loop, call = loops[0], calls[0]
    # the nodes to delete come from the *required* query on the document:
    # an optional-match query creates what it does not find
    chk.rule("C04-D1b", "the nodes to delete are gathered by the required-"
             "match query on the document root (a query that can create "
             "nodes must not feed a delete)", floor=1)
    from sa.model import resolve_call
    cands = resolve_call(prog, fi, loop.iter)
    cname = cands[0].short if len(cands) == 1 else src(loop.iter.func)
    a0 = src(loop.iter.args[0]) if loop.iter.args else ""
    if cname.endswith("_get_required_nodes") and a0 == "self.data":
        chk.ok("C04-D1b", fi, loop, "for ... in " + src(loop.iter)[:60],
               "required-match query on self.data")
    else:
        chk.fail("C04-D1b", fi, loop, "for ... in " + src(loop.iter)[:60],
                 "matches are gathered through `{}`, not the required-match "
                 "query on self.data: missing branches of a fanned-out path "
                 "are created (padding, empty maps) and then reported as "
                 "deleted".format(cname))
    inside = any(a is loop for a in ancestors(call))
    gathered = [c for c in walk_local(loop) if isinstance(c, ast.Call) and
                isinstance(c.func, ast.Attribute) and c.func.attr == "append"]
    early = [x for x in walk_local(loop)
             if isinstance(x, (ast.Break, ast.Continue, ast.If))]
    arg_ok = gathered and call.args and \
        src(call.args[0]) == src(gathered[0].func.value)  # type: ignore
    if not inside and call.lineno > loop.lineno and arg_ok and not early:
        chk.ok("C04-D1", fi, call, src(call),
               "called once after the loop that appends every match to "
               "`{}`".format(src(call.args[0])))
    else:
        chk.fail("C04-D1", fi, call, src(call),
                 "deletion is interleaved with gathering (or not every "
                 "match is gathered): deleting while the query generator "
                 "is live shifts the positions of later matches")
    dn = prog.func("Processor._delete_nodes")
    chk.analysed(dn)
    p = dn.params()[1]
    tops = [n for n in dn.node.body if isinstance(n, ast.For)]
    if len(tops) != 1:
        raise AnalysisError("_delete_nodes main loop not found")
    it = src(tops[0].iter).replace(" ", "")
    if it in ("reversed({})".format(p), "{}[::-1]".format(p)):
        chk.ok("C04-D2", dn, tops[0], "for ... in " + src(tops[0].iter),
               "descending order of discovery")
    else:
        chk.fail("C04-D2", dn, tops[0], "for ... in " + src(tops[0].iter),
                 "nodes are not deleted in reverse order: removing an "
                 "earlier list element shifts the index of later matches")


def d3_d4(chk: Check) -> None:
    prog = chk.prog
    chk.rule("C04-D3", "every mutation in _delete_nodes removes the entry at "
             "the current item's (parent, parentref) -- or the merge entry "
             "and keys contributed by a merge-key anchor -- under a "
             "presence / bounds guard", floor=4)
    chk.rule("C04-D4", "a parent that is no container ends in "
             "NoDocumentYAMLPathException with no mutation on that path",
             floor=1)
    dn = prog.func("Processor._delete_nodes")
    loop = [n for n in dn.node.body if isinstance(n, ast.For)][0]
    item = src(loop.target)
    # role discovery: locals bound to <item>.parent / .parentref
    roles: Dict[str, str] = {}
    for n in walk_local(loop):
        if isinstance(n, ast.Assign) and isinstance(n.value, ast.Attribute) \
                and src(n.value.value) == item:
            roles[n.value.attr] = src(n.targets[0])
    par, ref = roles.get("parent"), roles.get("parentref")
    if not par or not ref:
        raise AnalysisError("_delete_nodes: parent/parentref roles missing")
    ef = Effects(prog)
    for site in mutation_sites(dn):
        cls, _ = ef.classify(site)
        if cls in ("fresh", "kwargs", "nondoc"):
            continue
        text = "{} on {}".format(site.how, src(site.receiver))
        recv_root = root_name(site.receiver)
        facts = [f for f in facts_at(site.node) if f.kind == "cond"]
        in_merge = any(isinstance(a, ast.For) and
                       src(a.iter) == par + ".merge"
                       for a in ancestors(site.node))
        key = None
        if isinstance(site.node, ast.Subscript):
            key = src(site.node.slice)
        elif isinstance(site.node, ast.Call) and site.node.args:
            key = src(site.node.args[0])
        problems: List[str] = []
        if recv_root != par:
            problems.append("receiver `{}` is not the item's parent `{}`"
                            .format(src(site.receiver), par))
        if src(site.receiver) == par:
            if key != ref and not in_merge:
                problems.append("removes key `{}` instead of the item's "
                                "parentref `{}`".format(key, ref))
            if site.how == "del[]":
                guard = _guarded(facts, par, key or "") or (
                    in_merge and _tested_in_enclosing_if(site.node, par,
                                                         key or ""))
                if not guard:
                    problems.append("not guarded by a presence or bounds "
                                    "test on `{}`".format(key))
        elif src(site.receiver) == par + ".merge":
            if not in_merge:
                problems.append("merge list edited outside the merge-key "
                                "branch")
        if site.how not in ("del[]", ".discard()"):
            problems.append("unexpected mutation kind `{}`".format(site.how))
        if problems:
            chk.fail("C04-D3", dn, site.node, text, "; ".join(problems))
        else:
            chk.ok("C04-D3", dn, site.node, text,
                   "acts on ({}, {}){}".format(
                       par, key, " in the merge-key branch" if in_merge
                       else ""))
    # D4: the final else of the parent-kind ladder
    raises = [n for n in walk_local(loop) if isinstance(n, ast.Raise)]
    ok = False
    for r in raises:
        if "NoDocumentYAMLPathException" not in src(r.exc):
            continue
        p = parent(r)
        if isinstance(p, ast.If) and r in p.orelse:
            # negated tests on the way must cover map / seq / set parents
            negs = " ".join(src(f.expr) for f in facts_at(r)
                            if f.kind == "cond" and not f.pol)
            if all(k in negs for k in ("CommentedMap", "CommentedSeq",
                                       "CommentedSet")):
                ok = True
                chk.ok("C04-D4", dn, r, "raise NoDocumentYAMLPathException",
                       "fall-through of the parent-kind ladder; no "
                       "statement precedes it in the branch")
                if len(p.orelse) != 1:
                    ok = False
    if not ok:
        chk.fail("C04-D4", dn, loop, "root refusal",
                 "deleting a node whose parent is no container (the "
                 "document root) is not refused with "
                 "NoDocumentYAMLPathException")


def _tested_in_enclosing_if(node: ast.AST, cont: str, key: str) -> bool:
    """`if key in cont and ...:` directly around the statement (the fact is
    killed for the generic engine because the loop edits `cont`)."""
    p = parent(enclosing_stmt(node))
    return isinstance(p, ast.If) and \
        "{} in {}".format(key, cont) in src(p.test)


def _guarded(facts, cont: str, key: str) -> Optional[str]:
    for f in facts:
        e = f.expr
        if not f.pol or not isinstance(e, ast.Compare) or len(e.ops) != 1:
            continue
        if isinstance(e.ops[0], ast.In) and src(e.left) == key and \
                src(e.comparators[0]) == cont:
            return repr(f)
        t = src(e).replace(" ", "")
        if t in ("len({})>{}".format(cont, key),
                 "{}<len({})".format(key, cont)):
            return repr(f)
    for f in facts:
        e = f.expr
        if f.pol and isinstance(e, ast.Compare) and len(e.ops) == 2:
            if src(e.comparators[0]) == key and \
                    "len({})".format(cont) in src(e):
                return repr(f)
    return None


def d5_partial(chk: Check) -> None:
    prog = chk.prog
    chk.rule("C04-D5", "subscripts and pops on the delete path are "
             "discharged by guard facts", floor=4)
    for name in ("Processor._delete_nodes", "Processor.delete_nodes",
                 "Processor.delete_gathered_nodes"):
        fi = prog.func(name)
        for site in partial.find_sites(fi):
            if site.kind == "del":
                continue    # D3
            why = partial.discharge(site, prog)
            if why is None and site.kind == "subscript":
                why = _pair(site)
            text = "{} {}".format(site.kind, site.text)
            if why:
                chk.ok("C04-D5", fi, site.node, text, why)
            else:
                chk.fail("C04-D5", fi, site.node, text,
                         "`{}` may raise {}: no dominating guard".format(
                             site.text, "/".join(site.exc)),
                         {"facts": [repr(f) for f in
                                    facts_at(site.node)][:8]})


def _pair(site: partial.Site) -> Optional[str]:
    node = site.node
    if isinstance(node, ast.Subscript) and \
            isinstance(node.value, ast.Subscript) and \
            "ancestry" in src(node.value.value) and \
            isinstance(node.slice, ast.Constant) and \
            node.slice.value in (0, 1):
        return "ancestry entries are (parent, parentref) pairs (C02/C15 " \
               "INV-ANC-PAIR); inner subscript checked separately"
    return None


def d6_always_acts(chk: Check) -> None:
    """Every path through the handling of one gathered item removes
    something, recurses, raises, or is excused by a failed presence /
    bounds test on the item's own coordinates; and a bounds guard never
    rejects a valid index."""
    from sa.flow import Flow
    from sa.peval import Const, PEval
    prog = chk.prog
    chk.rule("C04-D6", "every matched item is acted upon on every path "
             "(delete / recurse / refuse), unless its own coordinates fail "
             "the presence or bounds test", floor=1)
    chk.rule("C04-D7", "the bounds guard of a list deletion accepts every "
             "valid index (-len <= i < len) and rejects i >= len", floor=1)
    dn = prog.func("Processor._delete_nodes")
    loop = [n for n in dn.node.body if isinstance(n, ast.For)][0]
    item = src(loop.target)
    roles: Dict[str, str] = {}
    for n in walk_local(loop):
        if isinstance(n, ast.Assign) and isinstance(n.value, ast.Attribute) \
                and src(n.value.value) == item:
            roles[n.value.attr] = src(n.targets[0])
    par, ref = roles["parent"], roles["parentref"]

    def is_presence(test: ast.AST) -> bool:
        t = src(test).replace(" ", "")
        return t == "{}in{}".format(ref, par) or (
            "len({})".format(par) in t and ref in t and
            isinstance(test, ast.Compare))

    def transfer(stmt: ast.stmt, st, flow):
        acted, excused = st
        for n in walk_local(stmt):
            if isinstance(n, ast.Call) and \
                    src(n.func).endswith("._delete_nodes"):
                acted = True
            if isinstance(n, ast.Subscript) and \
                    isinstance(n.ctx, ast.Del) and \
                    (src(n.value) == par or
                     src(n.value).startswith(par + ".")):
                acted = True
            if isinstance(n, ast.Call) and \
                    isinstance(n.func, ast.Attribute) and \
                    src(n.func.value) == par and \
                    n.func.attr in ("discard", "remove", "pop"):
                acted = True
        return [(acted, excused)]

    def branch(test: ast.AST, st, flow):
        acted, excused = st
        if is_presence(test):
            return [st], [(acted, True)]
        if isinstance(test, ast.BoolOp) and isinstance(test.op, ast.And) \
                and any(is_presence(v) for v in test.values):
            return [st], [(acted, True)]
        return [st], [st]
    flow = Flow(transfer, branch)
    out = flow.run(loop.body, [(False, False)])
    ends = set(out.fall) | set(out.continues)
    bad = [s for s in ends if not s[0] and not s[1]]
    if bad:
        chk.fail("C04-D6", dn, loop, "per-item handling",
                 "some path through the handling of a gathered node neither "
                 "deletes, recurses nor refuses although its coordinates "
                 "are present: the matched node silently survives")
    else:
        chk.ok("C04-D6", dn, loop, "per-item handling",
               "{} end states, all acted or excused by a failed presence "
               "test".format(len(ends)))
    # D7: the list bounds guard
    pe = PEval()
    found = False
    for n in walk_local(loop):
        if isinstance(n, ast.If) and isinstance(n.test, ast.Compare) and \
                "len({})".format(par) in src(n.test) and ref in src(n.test):
            found = True
            problems = []
            for ln in range(0, 5):
                for i in range(-ln, ln + 3):
                    t = pe.truth(n.test, {"len({})".format(par): Const(ln),
                                          ref: Const(i)})
                    valid = -ln <= i < ln
                    if valid and t is not True:
                        problems.append("len={} index={} rejected".format(
                            ln, i))
                    if i >= ln and t is not False:
                        problems.append("len={} index={} accepted".format(
                            ln, i))
            if problems:
                chk.fail("C04-D7", dn, n, "if " + src(n.test),
                         "bounds guard is wrong for: " + ", ".join(
                             problems[:4]))
            else:
                chk.ok("C04-D7", dn, n, "if " + src(n.test),
                       "evaluated for len 0..4 and every index -len..len+2")
    if not found:
        chk.fail("C04-D7", dn, loop, "list deletion bounds guard",
                 "no test relating the item's index to len({}) guards the "
                 "list deletion".format(par))


def run(chk: Check) -> None:
    d1_d2(chk)
    d3_d4(chk)
    d5_partial(chk)
    d6_always_acts(chk)
    from rules.c06 import falsy_rule
    falsy_rule(chk, "C04-D8", "yamlpath/processor.py", 30,
               doc_exprs={"self.data", "<.node>"})
