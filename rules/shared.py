"""Rules shared by several properties (each property applies them to the
files it is anchored in, under its own rule id)."""
from __future__ import annotations

import ast
from typing import Iterable

from sa.model import AnalysisError, set_parents, src
from sa.report import Check
from sa.sharedstate import mutable_defaults, shared_class_containers

_POSITIVE = '''
class Sample:
    found = []
    NAMES = ("a", "b")

    def __init__(self):
        self.other = []

    def run(self, item, seen=[], opts=()):
        seen.append(item)
        self.found.append(item)
        return seen
'''


def _self_test() -> None:
    from sa.model import ClassInfo, FuncInfo, ModuleInfo
    mod = ModuleInfo("sample.py", "sample", _POSITIVE)
    cnode = mod.tree.body[0]
    ci = ClassInfo("sample.Sample", cnode, mod)
    for st in cnode.body:
        if isinstance(st, ast.FunctionDef):
            ci.methods[st.name] = FuncInfo("sample.Sample." + st.name, st,
                                           mod, ci, None)
    md = mutable_defaults(ci.methods["run"])
    sc = shared_class_containers(ci)
    if [p.arg for p, _ in md] != ["seen"] or [n for _, n in sc] != ["found"]:
        raise AnalysisError("shared-state detector lost its positive sample: "
                            "{} {}".format(md, sc))


def shared_state_rule(chk: Check, rid: str, relpaths: Iterable[str],
                      floor: int) -> None:
    """No state outlives the call or the instance it belongs to
    (sa/sharedstate.py): a result of one query / delete / comparison /
    file must not be visible to the next."""
    prog = chk.prog
    relpaths = list(relpaths)
    chk.rule(rid, "no function of {} has a mutable default argument that "
             "it changes or hands on, and no class keeps per-instance "
             "results in a class-level container".format(
                 ", ".join(r.split("/")[-1] for r in relpaths)),
             floor=floor)
    _self_test()
    for fi in prog.functions.values():
        if fi.module.relpath not in relpaths:
            continue
        bad = mutable_defaults(fi)
        for p, d in bad:
            chk.fail(rid, fi, p, "{}: parameter default is a shared "
                     "container".format(fi.short),
                     "`{}={}` is created once, when the function is "
                     "defined; the function changes it or hands it on, so "
                     "what one call records is still there for the next "
                     "call (another query, document or file)".format(
                         p.arg, src(d)))
        if not bad:
            chk.ok(rid, fi, fi.node, fi.short, "no shared default", False)
    for ci in prog.classes.values():
        if ci.module.relpath not in relpaths:
            continue
        anyfi = next(iter(ci.methods.values()), None)
        for st, name in shared_class_containers(ci):
            chk.fail(rid, anyfi, st, "{}: class-level container `{}`".format(
                ci.name, name),
                "`{}` is bound once in the class body and filled through "
                "`self.{}`; __init__ never re-binds it, so all instances "
                "share one container".format(src(st)[:50], name))


def readonly_lookups_rule(chk: Check, rid: str, relpaths: Iterable[str],
                          floor: int) -> None:
    """Code that only *looks something up* in a document it does not own
    (the per-path rules of a comparison / merge configuration, against the
    incoming document) queries with the literal `mustexist=True`.  The
    default of `Processor.get_nodes` is the optional-match mode, which
    creates what it does not find: a rule path that is absent from the
    document would be written into it before the comparison or merge runs
    (identical documents then differ; the caller's document is altered)."""
    prog = chk.prog
    relpaths = list(relpaths)
    chk.rule(rid, "every get_nodes() lookup in {} is a required-match query "
             "(literal mustexist=True)".format(
                 ", ".join(r.split("/")[-1] for r in relpaths)), floor=floor)
    from sa.model import walk_local
    for fi in prog.functions.values():
        if fi.module.relpath not in relpaths:
            continue
        for c in walk_local(fi.node):
            if not (isinstance(c, ast.Call) and
                    isinstance(c.func, ast.Attribute) and
                    c.func.attr == "get_nodes"):
                continue
            kw = {k.arg: k.value for k in c.keywords}
            m = kw.get("mustexist")
            text = "{}: `{}`".format(fi.short, src(c)[:50])
            if isinstance(m, ast.Constant) and m.value is True:
                chk.ok(rid, fi, c, text, "required-match query")
            else:
                chk.fail(rid, fi, c, text,
                         "the lookup runs in the optional-match mode "
                         "(mustexist {}): a path that matches nothing is "
                         "*created* in the document that is only being "
                         "consulted".format(
                             "= " + src(m) if m is not None else "omitted"))


def _kwargs_reads(prog, fi, seen=None):
    """(names the callee accepts through its **kwargs, open?) -- `open`
    when the catch-all is handed on to something that cannot be resolved."""
    from sa.model import resolve_call, walk_local
    seen = seen or set()
    if fi.qual in seen:
        return set(), False
    seen = seen | {fi.qual}
    kw = fi.node.args.kwarg.arg if fi.node.args.kwarg else None
    names = set()
    opened = False
    if kw is None:
        return names, opened
    for n in walk_local(fi.node):
        if isinstance(n, ast.Call) and isinstance(n.func, ast.Attribute) and \
                src(n.func.value) == kw and \
                n.func.attr in ("pop", "get", "setdefault") and n.args:
            if isinstance(n.args[0], ast.Constant):
                names.add(n.args[0].value)
            else:
                opened = True
        elif isinstance(n, ast.Subscript) and src(n.value) == kw:
            if isinstance(n.slice, ast.Constant):
                names.add(n.slice.value)
            else:
                opened = True
        elif isinstance(n, ast.Compare) and len(n.ops) == 1 and \
                isinstance(n.ops[0], (ast.In, ast.NotIn)) and \
                src(n.comparators[0]) == kw and \
                isinstance(n.left, ast.Constant):
            names.add(n.left.value)
        elif isinstance(n, ast.Call) and any(
                k.arg is None and src(k.value) == kw for k in n.keywords):
            cands = resolve_call(prog, fi, n)
            if not cands:
                opened = True
            for c in cands:
                sub, op = _kwargs_reads(prog, c, seen)
                names |= sub | {a.arg for a in c.node.args.args +
                                c.node.args.kwonlyargs}
                opened = opened or op
        elif isinstance(n, ast.Name) and n.id == kw and \
                isinstance(n.ctx, ast.Load):
            p = getattr(n, "_parent", None)
            # any other use of the dict as a whole (iteration, passing it
            # as a plain argument): cannot tell what is read
            from sa.model import parent as _parent_of
            par = _parent_of(n)
            if not (isinstance(par, ast.Attribute) or
                    isinstance(par, ast.Subscript) or
                    isinstance(par, ast.keyword) or
                    isinstance(par, ast.Compare)):
                opened = True
    return names, opened


def keyword_coupling_rule(chk: Check, rid: str, relpaths: Iterable[str],
                          floor: int) -> None:
    """A keyword argument handed to a function that takes `**kwargs` is
    only an instruction if the callee reads a key of that spelling.  A
    keyword nobody reads is dropped without a sound, and the callee acts on
    its default instead (`must_exist=True` passed, `"mustexist"` popped: the
    required-match query silently becomes a node-creating one)."""
    from sa.model import resolve_call, walk_local
    prog = chk.prog
    relpaths = list(relpaths)
    chk.rule(rid, "every keyword passed into a **kwargs catch-all from {} "
             "is read by the callee (popped / looked up under the same "
             "spelling, or forwarded to a function that takes it)".format(
                 ", ".join(r.split("/")[-1] for r in relpaths)), floor=floor)
    for fi in prog.functions.values():
        if fi.module.relpath not in relpaths:
            continue
        for c in walk_local(fi.node):
            if not isinstance(c, ast.Call) or not c.keywords:
                continue
            cands = [x for x in resolve_call(prog, fi, c)
                     if x.node.args.kwarg is not None]
            if not cands:
                continue
            passed = [k.arg for k in c.keywords if k.arg is not None]
            for callee in cands:
                named = {a.arg for a in callee.node.args.args +
                         callee.node.args.kwonlyargs +
                         callee.node.args.posonlyargs}
                reads, opened = _kwargs_reads(prog, callee)
                text = "{} -> {}".format(fi.short, callee.short)
                lost = [k for k in passed if k not in named and
                        k not in reads]
                if lost and not opened:
                    chk.fail(rid, fi, c, text,
                             "keyword(s) {} fall into `**{}` of {} and are "
                             "never read there (it reads {}): the callee "
                             "silently uses its defaults".format(
                                 ", ".join("`" + k + "`" for k in lost),
                                 callee.node.args.kwarg.arg, callee.short,
                                 sorted(map(str, reads))))
                else:
                    chk.ok(rid, fi, c, text, "{} keyword(s), all read{}"
                           .format(len(passed), " (catch-all handed on)"
                                   if opened else ""))


def shared_dest_defaults_rule(chk: Check, rid: str, relpaths: Iterable[str],
                              floor: int) -> None:
    """argparse fills a destination shared by several options from the
    *first* action that declares it; a `default=` on a later action is
    never used.  The default of such a destination is therefore declared
    with `parser.set_defaults(<dest>=...)` (or on the first action).  A
    default moved onto "the option documented as the default" silently
    becomes None, and the tool runs in whatever mode None happens to select.
    """
    from sa.model import walk_local
    prog = chk.prog
    relpaths = list(relpaths)
    chk.rule(rid, "every option destination shared by several options of a "
             "tool gets its default from set_defaults() or from the first "
             "option declared for it", floor=floor)
    for fi in prog.functions.values():
        if fi.module.relpath not in relpaths:
            continue
        adds = [c for c in walk_local(fi.node) if isinstance(c, ast.Call) and
                isinstance(c.func, ast.Attribute) and
                c.func.attr == "add_argument"]
        if not adds:
            continue
        adds.sort(key=lambda c: (c.lineno, c.col_offset))
        by_dest = {}
        for c in adds:
            kw = {k.arg: k.value for k in c.keywords}
            d = kw.get("dest")
            if isinstance(d, ast.Constant):
                by_dest.setdefault(d.value, []).append((c, kw))
        setdef = set()
        for c in walk_local(fi.node):
            if isinstance(c, ast.Call) and \
                    isinstance(c.func, ast.Attribute) and \
                    c.func.attr == "set_defaults":
                setdef |= {k.arg for k in c.keywords if k.arg}
        for dest, acts in sorted(by_dest.items()):
            if len(acts) < 2:
                continue
            text = "{}: destination `{}` of {} options".format(
                fi.short, dest, len(acts))
            late = [c for c, kw in acts[1:] if "default" in kw]
            first_has = "default" in acts[0][1]
            if late:
                chk.fail(rid, fi, late[0], text,
                         "a later option of the group carries `default=`: "
                         "argparse takes the default of a shared "
                         "destination from the first option declared for "
                         "it, so this one is never used")
            elif dest in setdef or first_has:
                chk.ok(rid, fi, acts[0][0], text,
                       "default from {}".format(
                           "set_defaults()" if dest in setdef
                           else "the first option"))
            else:
                chk.fail(rid, fi, acts[0][0], text,
                         "no default is declared for the shared "
                         "destination: without any of the options the tool "
                         "sees None")


def merge_identity_rule(chk: Check, rid: str, relpaths: Iterable[str],
                        floor: int) -> None:
    """The entries of a ruamel mapping's `.merge` list are (position, node)
    pairs whose node *is* the anchored Hash the `<<:` refers to.  Which
    anchor a reference names is therefore a question of identity: two
    Hashes with equal content (`a: &a {k: 1}`, `b: &b {k: 1}`) are still two
    anchors, and `==` between a merged node and an anchored node takes one
    for the other -- `h[&b]` matches a hash that merges only `*a`, and
    deleting it removes `<<: *a`."""
    from sa.model import walk_local
    prog = chk.prog
    chk.rule(rid, "a node taken from a `.merge` list is compared with other "
             "nodes by identity (`is`), never by equality", floor=floor)
    n = 0
    for rel in relpaths:
        for fi in prog.funcs_in(rel):
            # names that hold a merged node
            merged = set()
            for st in walk_local(fi.node):
                # a `for` statement or the generator of a comprehension
                # (`any(ref is node for (_, ref) in x.merge)`)
                if isinstance(st, (ast.For, ast.comprehension)):
                    it = st.iter
                    if isinstance(it, ast.Call) and \
                            src(it.func) == "enumerate" and it.args:
                        it = it.args[0]
                        tgt = st.target.elts[1] if isinstance(
                            st.target, ast.Tuple) and \
                            len(st.target.elts) == 2 else None
                    else:
                        tgt = st.target
                    ok_iter = (isinstance(it, ast.Attribute) and
                               it.attr == "merge") or \
                        (isinstance(it, ast.Name) and any(
                            isinstance(a, ast.Assign) and
                            src(a.targets[0]) == it.id and
                            ".merge" in src(a.value)
                            for a in walk_local(fi.node)))
                    if not ok_iter or tgt is None:
                        continue
                    if isinstance(tgt, ast.Tuple) and len(tgt.elts) == 2:
                        merged.add(src(tgt.elts[1]))
                    elif isinstance(tgt, ast.Name):
                        merged.add(tgt.id + "[1]")
                        for a in walk_local(fi.node):
                            if isinstance(a, ast.Assign) and \
                                    src(a.value) == tgt.id + "[1]":
                                merged.add(src(a.targets[0]))
            if not merged:
                continue
            for c in walk_local(fi.node):
                if not (isinstance(c, ast.Compare) and len(c.ops) == 1):
                    continue
                sides = {src(c.left), src(c.comparators[0])}
                if not (sides & merged):
                    continue
                if isinstance(c.ops[0], (ast.In, ast.NotIn)):
                    continue
                n += 1
                text = "{}: {}".format(fi.short, src(c))
                if isinstance(c.ops[0], (ast.Is, ast.IsNot)):
                    chk.ok(rid, fi, c, text, "identity")
                else:
                    chk.fail(rid, fi, c, text,
                             "a merged node is matched by equality: a hash "
                             "that merges `*a` is taken to reference every "
                             "anchored hash with the same content, so an "
                             "Anchor segment / deletion / report names a "
                             "reference that is not there")


def effects_not_shortcircuited_rule(chk: Check, rid: str,
                                    relpaths: Iterable[str],
                                    prefixes: Iterable[str],
                                    floor: int) -> None:
    """A call that *does* something (merges, inserts, deletes) must run
    whenever its statement runs.  As a later operand of `or` / `and`, as a
    branch of a conditional expression, or inside a comprehension filter it
    runs only for some values of what stands before it -- `done = done or
    self._insert(...)` performs the first insertion and silently skips all
    the following ones."""
    from sa.model import ancestors, parent, walk_local
    prog = chk.prog
    prefixes = tuple(prefixes)
    chk.rule(rid, "calls of the working routines ({}) are never a later "
             "operand of a short-circuit operator or a branch of a "
             "conditional expression".format(", ".join(
                 p + "*" for p in prefixes)), floor=floor)
    n = 0
    for rel in relpaths:
        for fi in prog.funcs_in(rel):
            for c in walk_local(fi.node):
                if not (isinstance(c, ast.Call) and
                        isinstance(c.func, ast.Attribute) and
                        c.func.attr.startswith(prefixes)):
                    continue
                n += 1
                why = None
                child = c
                for a in ancestors(c):
                    if isinstance(a, ast.stmt):
                        break
                    if isinstance(a, ast.BoolOp) and a.values[0] is not child:
                        why = "a later operand of `{}`".format(
                            "or" if isinstance(a.op, ast.Or) else "and")
                    elif isinstance(a, ast.IfExp) and a.test is not child:
                        why = "a branch of a conditional expression"
                    elif isinstance(a, ast.comprehension) and \
                            child in a.ifs[1:]:
                        why = "a later filter of a comprehension"
                    child = a
                text = "{}: {}(...)".format(fi.short, c.func.attr)
                if why:
                    chk.fail(rid, fi, c, text,
                             "the call is {}: it is skipped whenever the "
                             "operands before it already decide the "
                             "expression, so the work it stands for (an "
                             "insertion at a further merge target, say) "
                             "silently does not happen".format(why))
                else:
                    chk.ok(rid, fi, c, text, "runs whenever its statement "
                           "runs")
    if n < floor:
        raise AnalysisError("working-routine calls found: {}".format(n))


def _doc_names(fi):
    """Locals of ``fi`` that (may) hold document keys / values: parameters
    annotated as document data, and everything computed from them."""
    from rules.c06 import _doc_params
    from sa.model import walk_local
    doc = set(_doc_params(fi))
    for extra in ("data", "lhs", "rhs", "haystack", "parent", "node"):
        if extra in fi.params():
            doc.add(extra)

    def mentions(e) -> bool:
        for x in ast.walk(e):
            if isinstance(x, ast.Name) and x.id in doc:
                return True
            if isinstance(x, ast.Attribute) and x.attr in (
                    "parentref", "node", "unwrapped_node"):
                return True
        return False
    for _ in range(5):
        before = len(doc)
        for n in walk_local(fi.node):
            if isinstance(n, (ast.Assign, ast.AnnAssign)) and \
                    n.value is not None and mentions(n.value):
                tg = n.targets if isinstance(n, ast.Assign) else [n.target]
                for t in tg:
                    for x in ast.walk(t):
                        if isinstance(x, ast.Name) and \
                                isinstance(x.ctx, ast.Store):
                            doc.add(x.id)
            elif isinstance(n, (ast.For, ast.comprehension)) and \
                    mentions(n.iter):
                for x in ast.walk(n.target):
                    if isinstance(x, ast.Name):
                        doc.add(x.id)
        if len(doc) == before:
            break
    return doc, mentions


def implicit_ordering_rule(chk: Check, rid: str, funcs, floor: int) -> None:
    """`sorted()`, `.sort()`, `min()` and `max()` compare the elements with
    `<`.  The keys of a Hash, the members of a set and the scalars of a
    document can be of any mix of types (int and str keys, a null member),
    for which `<` raises TypeError.  Ordering them is safe only through a
    key function that maps every element to one kind (`key=str`)."""
    from sa.model import walk_local
    chk.rule(rid, "no implicit ordering (sorted / sort / min / max) of "
             "document keys, members or values except through a key "
             "function that turns each into text or a number", floor=floor)
    sample = ast.parse(
        "def f(self, data: Any):\n"
        "    for k in sorted(data):\n        pass\n"
        "    for k in sorted(data, key=str):\n        pass\n")
    from sa.model import set_parents
    set_parents(sample)

    class _S:
        node = sample.body[0]

        @staticmethod
        def params():
            return ["self", "data"]
    hits = _ordering_sites(_S)
    if [bool(w) for _, _, w in hits] != [True, False]:
        raise AnalysisError("implicit-ordering detector lost its positive "
                            "sample")
    n = 0
    for fi in funcs:
        sites = _ordering_sites(fi)
        n += 1
        bad = [(c, t, w) for c, t, w in sites if w]
        if not bad:
            chk.ok(rid, fi, fi.node, "{}: {} ordering call(s)".format(
                fi.short, len(sites)), "none orders document values", False)
        for c, text, why in bad:
            chk.fail(rid, fi, c, "{}: {}".format(fi.short, text), why)
    if n < floor:
        raise AnalysisError("functions examined: {}".format(n))


def _ordering_sites(fi):
    from sa.model import walk_local
    doc, mentions = _doc_names(fi)
    out = []
    for c in walk_local(fi.node):
        if not isinstance(c, ast.Call):
            continue
        operand = None
        if isinstance(c.func, ast.Name) and \
                c.func.id in ("sorted", "min", "max") and c.args:
            if c.func.id != "sorted" and len(c.args) > 1:
                operand = ast.Tuple(elts=list(c.args), ctx=ast.Load())
            else:
                operand = c.args[0]
        elif isinstance(c.func, ast.Attribute) and c.func.attr == "sort" \
                and not c.args:
            operand = c.func.value
        if operand is None:
            continue
        key = next((k.value for k in c.keywords if k.arg == "key"), None)
        text = src(c)[:70]
        why = None
        if key is None:
            if mentions(operand):
                why = ("orders document values with `<`: a Hash with an "
                       "int and a str key, a set with a null member, or a "
                       "list of mixed scalars raises TypeError")
        else:
            body = key.body if isinstance(key, ast.Lambda) else key
            safe = (isinstance(body, ast.Name) and
                    body.id in ("str", "repr", "len", "id")) or \
                (isinstance(body, ast.Call) and
                 isinstance(body.func, ast.Name) and
                 body.func.id in ("str", "repr", "len", "id", "int",
                                  "float")) or \
                isinstance(body, (ast.List, ast.ListComp, ast.Constant))
            if not safe and (mentions(operand) or mentions(body)):
                why = ("the key function `{}` hands document keys / values "
                       "to `<` as they are: keys of mixed type (int and "
                       "str, null and str) raise TypeError".format(
                           src(key)[:50]))
        out.append((c, text, why))
    return out


def late_binding_rule(chk: Check, rid: str, relpaths: Iterable[str],
                      floor: int) -> None:
    """A lambda (or nested def) reads the variables of the enclosing
    function *when it is called*, not when it is created.  One created in a
    loop and kept for later (appended to a list, stored) sees, for every
    iteration, the values of the last one: deferred per-item work is done
    N times for the last item and never for the others."""
    from sa.model import ancestors, parent, walk_local
    prog = chk.prog
    chk.rule(rid, "no lambda / nested function created in a loop and kept "
             "for later refers to a variable that the loop re-binds",
             floor=floor)
    sample = ast.parse(
        "def f(items):\n    later = []\n    for it in items:\n"
        "        x = it.v\n        later.append(lambda: use(x))\n"
        "        now = sorted(items, key=lambda i: i.k + x)\n"
        "    return later\n")
    from sa.model import set_parents
    set_parents(sample)
    if len(_late_bound(sample.body[0])) != 1:
        raise AnalysisError("late-binding detector lost its positive sample")
    n = 0
    for rel in relpaths:
        for fi in prog.funcs_in(rel):
            n += 1
            hits = _late_bound(fi.node)
            if not hits:
                chk.ok(rid, fi, fi.node, fi.short, "no deferred closure "
                       "over a loop variable", False)
            for lam, names in hits:
                chk.fail(rid, fi, lam, "{}: `{}`".format(
                    fi.short, src(lam)[:60]),
                    "the closure is kept for later and reads {} when it is "
                    "finally called: every kept closure then sees the "
                    "values of the last iteration (work deferred for the "
                    "first items is done on the last one instead)".format(
                        sorted(names)))
    if n < floor:
        raise AnalysisError("functions examined: {}".format(n))


def _late_bound(fn):
    from sa.model import ancestors, parent
    out = []
    for lam in ast.walk(fn):
        if not isinstance(lam, (ast.Lambda, ast.FunctionDef)) or lam is fn:
            continue
        loops = [a for a in ancestors(lam)
                 if isinstance(a, (ast.For, ast.While))]
        if not loops:
            continue
        loop = loops[0]
        # consumed on the spot: called directly, or handed to a call that
        # runs it before returning (key= / map / filter / sorted ...)
        p_ = parent(lam)
        if isinstance(lam, ast.Lambda):
            if isinstance(p_, ast.Call) and p_.func is lam:
                continue
            if isinstance(p_, ast.keyword) and p_.arg == "key":
                continue
            if isinstance(p_, ast.Call) and isinstance(p_.func, ast.Name) \
                    and p_.func.id in ("map", "filter", "sorted", "min",
                                       "max", "any", "all", "next"):
                continue
        rebound = set()
        for x in ast.walk(loop):
            if isinstance(x, ast.Name) and isinstance(x.ctx, ast.Store):
                rebound.add(x.id)
        args = lam.args
        own = {a.arg for a in args.posonlyargs + args.args + args.kwonlyargs}
        if args.vararg:
            own.add(args.vararg.arg)
        if args.kwarg:
            own.add(args.kwarg.arg)
        body = [lam.body] if isinstance(lam, ast.Lambda) else lam.body
        used = set()
        for b in body:
            for x in ast.walk(b):
                if isinstance(x, ast.Name) and isinstance(x.ctx, ast.Load):
                    used.add(x.id)
                elif isinstance(x, ast.Name) and \
                        isinstance(x.ctx, ast.Store):
                    own.add(x.id)
        late = (used - own) & rebound
        if late:
            out.append((lam, late))
    return out


def no_copies_of_document_nodes_rule(chk: Check, rid: str,
                                     relpaths: Iterable[str],
                                     floor: int) -> None:
    """The merger moves right-hand nodes into the left document *by
    reference*.  That is what keeps an anchored node the one object all of
    its aliases refer to, and what lets `merge_with` recognise "the target
    is the right-hand document itself".  A copy (`deepcopy`, `copy()`) of a
    right-hand node duplicates every anchored node inside it: the anchor is
    then defined twice in the result, which dumps but does not load."""
    from sa.model import walk_local
    prog = chk.prog
    chk.rule(rid, "no routine of the merger copies a document node "
             "(deepcopy / copy): nodes are inserted by reference",
             floor=floor)
    n = 0
    for rel in relpaths:
        for fi in prog.funcs_in(rel):
            n += 1
            doc, mentions = _doc_names(fi)
            bad = []
            for c in walk_local(fi.node):
                if not isinstance(c, ast.Call):
                    continue
                f = src(c.func)
                if f.split(".")[-1] in ("deepcopy", "copy") and (
                        (c.args and mentions(c.args[0])) or
                        (isinstance(c.func, ast.Attribute) and not c.args
                         and mentions(c.func.value))):
                    from sa.model import parent as _parent
                    pa = _parent(c)
                    if isinstance(pa, ast.Assign) and pa in fi.node.body \
                            and len(pa.targets) == 1 and c.args and \
                            src(pa.targets[0]) == src(c.args[0]) and \
                            src(c.args[0]) in fi.params():
                        # the whole operand is replaced by its copy before
                        # anything looks at it: sharing inside the copy is
                        # preserved and no identity has been taken yet
                        continue
                    bad.append(c)
            if not bad:
                chk.ok(rid, fi, fi.node, fi.short, "no copy of a document "
                       "node", False)
            for c in bad:
                chk.fail(rid, fi, c, "{}: `{}`".format(fi.short,
                                                        src(c)[:50]),
                         "a copy of a document node is merged instead of "
                         "the node: anchored scalars inside it now exist "
                         "twice (`&name` defined twice in the output, which "
                         "the loader refuses), and identity tests on the "
                         "node (`target is rhs`) no longer hold")
    if n < floor:
        raise AnalysisError("functions examined: {}".format(n))


def _first_use(stmts, name):
    """'load' / 'store' / None: how ``name`` is first touched in the
    statements (source order)."""
    nodes = []
    for st in stmts:
        for x in ast.walk(st):
            if isinstance(x, ast.Name) and x.id == name:
                nodes.append(x)
            elif isinstance(x, ast.arg) and x.arg == name:
                return None     # a nested scope re-declares it
    if not nodes:
        return None
    # in `a = f(a)` the right side is evaluated first
    def order(x):
        st = x
        from sa.model import parent
        while not isinstance(st, ast.stmt):
            st = parent(st)
        late = isinstance(st, (ast.Assign, ast.AnnAssign, ast.AugAssign)) \
            and isinstance(x.ctx, ast.Store)
        return (st.lineno, 1 if late else 0, x.lineno, x.col_offset)
    first = min(nodes, key=order)
    return "load" if isinstance(first.ctx, ast.Load) else "store"


def loop_shadowing_sites(fn):
    """Inner loops (and comprehension-free `for` targets) that re-bind a
    name which is bound outside the loop and read again afterwards."""
    from sa.model import parent
    out = []
    params = {a.arg for a in fn.args.posonlyargs + fn.args.args +
              fn.args.kwonlyargs}
    for loop in ast.walk(fn):
        if not isinstance(loop, ast.For) or loop is fn:
            continue
        names = {x.id for x in ast.walk(loop.target)
                 if isinstance(x, ast.Name)}
        # bound before this loop, outside it?
        outer_bound = set(params)
        for x in ast.walk(fn):
            if isinstance(x, ast.Name) and isinstance(x.ctx, ast.Store) and \
                    x.lineno < loop.lineno and not any(
                        a is loop for a in _anc(x)):
                outer_bound.add(x.id)
        for name in sorted(names & outer_bound):
            if name.startswith("_"):
                continue
            # statements after the loop, block by block outwards
            cur = loop
            verdict = None
            while verdict is None and cur is not fn:
                blk = parent(cur)
                for field in ("body", "orelse", "finalbody", "handlers"):
                    seq = getattr(blk, field, None)
                    if isinstance(seq, list) and cur in seq:
                        rest = seq[seq.index(cur) + 1:]
                        fu = _first_use(rest, name)
                        if fu is not None:
                            verdict = fu
                        elif isinstance(blk, (ast.For, ast.While)) and \
                                field == "body":
                            # wraps around to the next iteration
                            tn = {x.id for x in ast.walk(blk.target)
                                  if isinstance(x, ast.Name)} \
                                if isinstance(blk, ast.For) else set()
                            if name in tn:
                                verdict = "store"
                            else:
                                before = seq[:seq.index(cur)]
                                fu = _first_use(before, name)
                                if fu is not None:
                                    verdict = fu
                cur = blk
            if verdict == "load":
                out.append((loop, name))
    return out


def _anc(node):
    from sa.model import ancestors
    return ancestors(node)


def loop_shadowing_rule(chk: Check, rid: str, relpaths: Iterable[str],
                        floor: int) -> None:
    """A `for` target is an ordinary assignment: it does not get a scope of
    its own.  An inner loop that uses, as its target, a name the
    surrounding code has bound and goes on reading afterwards leaves that
    name holding the last item of the inner loop -- e.g. the de-duplication
    loop of yaml-paths re-using `expression`: every result recorded after
    the first is attributed to a path instead of the search expression."""
    prog = chk.prog
    chk.rule(rid, "no loop re-binds, as its target, a name that is bound "
             "outside the loop and read again after it", floor=floor)
    sample = ast.parse(
        "def f(exprs, seen):\n    for expression in exprs:\n"
        "        for (expression, p) in seen:\n            pass\n"
        "        seen.append((expression, 1))\n"
        "    for k in exprs:\n        pass\n"
        "    for k in seen:\n        pass\n")
    from sa.model import set_parents
    set_parents(sample)
    got = loop_shadowing_sites(sample.body[0])
    if [nm for _, nm in got] != ["expression"]:
        raise AnalysisError("loop-shadowing detector lost its positive "
                            "sample: {}".format([nm for _, nm in got]))
    n = 0
    for rel in relpaths:
        for fi in prog.funcs_in(rel):
            n += 1
            hits = loop_shadowing_sites(fi.node)
            if not hits:
                chk.ok(rid, fi, fi.node, fi.short, "no shadowing loop "
                       "target", False)
            for loop, name in hits:
                chk.fail(rid, fi, loop, "{}: `for {} in ...`".format(
                    fi.short, src(loop.target)),
                    "the loop re-binds `{}`, which is bound outside the "
                    "loop and read again after it: that later read sees "
                    "the last item of this loop".format(name))
    if n < floor:
        raise AnalysisError("functions examined: {}".format(n))


def no_jump_out_of_finally_rule(chk: Check, rid: str,
                                relpaths: Iterable[str], floor: int) -> None:
    """A `return`, `break` or `continue` inside a `finally:` block discards
    whatever exception is in flight -- including the SystemExit that
    `log.critical(msg, code)` raises to end a failed run.  The tool then
    carries on as if nothing had happened: it writes the file, makes the
    backup and exits 0."""
    from sa.model import walk_local
    prog = chk.prog
    chk.rule(rid, "no return / break / continue inside a `finally:` block "
             "(it would swallow the exit of a failed run)", floor=floor)
    n = 0
    for rel in relpaths:
        for fi in prog.funcs_in(rel):
            n += 1
            bad = []
            for t in walk_local(fi.node):
                if not isinstance(t, ast.Try):
                    continue
                for st in t.finalbody:
                    for x in ast.walk(st):
                        if isinstance(x, ast.Return):
                            bad.append(x)
                        elif isinstance(x, (ast.Break, ast.Continue)):
                            # only when the loop it leaves is outside the
                            # finally block
                            from sa.model import ancestors
                            inner = False
                            for a in ancestors(x):
                                if a is st or a is t:
                                    break
                                if isinstance(a, (ast.For, ast.While)):
                                    inner = True
                                    break
                            if not inner:
                                bad.append(x)
            if not bad:
                chk.ok(rid, fi, fi.node, fi.short, "no jump out of a "
                       "finally block", False)
            for x in bad:
                chk.fail(rid, fi, x, "{}: `{}` in finally".format(
                    fi.short, src(x)[:40]),
                    "leaving a `finally:` block with `{}` drops the "
                    "exception in flight: after log.critical(...) (which "
                    "raises SystemExit) the run continues, the target file "
                    "is rewritten, the backup appears and the exit status "
                    "is 0".format(type(x).__name__.lower()))
    if n < floor:
        raise AnalysisError("functions examined: {}".format(n))


_GENERATOR_METHODS = {"non_merged_items"}
_CONSUMERS = {"list", "tuple", "sorted", "set", "frozenset", "sum", "any",
              "all", "min", "max", "enumerate", "dict", "len", "zip", "map",
              "filter", "reversed", "next", "deque"}


def _generator_names(prog, fi):
    """Locals of ``fi`` bound to a generator object (a call of a generator
    function of the program, of a known generator method, or a generator
    expression)."""
    from sa.model import resolve_call, walk_local
    out = {}
    for a in walk_local(fi.node):
        if not (isinstance(a, ast.Assign) and len(a.targets) == 1 and
                isinstance(a.targets[0], ast.Name)):
            continue
        v = a.value
        gen = False
        if isinstance(v, ast.GeneratorExp):
            gen = True
        elif isinstance(v, ast.Call):
            if isinstance(v.func, ast.Attribute) and \
                    v.func.attr in _GENERATOR_METHODS:
                gen = True
            else:
                try:
                    cands = resolve_call(prog, fi, v)
                except Exception:  # pylint: disable=broad-except
                    cands = []
                if cands and all(any(isinstance(y, (ast.Yield, ast.YieldFrom))
                                     for y in walk_local(c.node))
                                 for c in cands):
                    gen = True
        if gen:
            out.setdefault(a.targets[0].id, []).append(a)
    return out


def _consumptions(fi, name):
    from sa.model import parent, walk_local
    uses = []
    for n in walk_local(fi.node):
        if not (isinstance(n, ast.Name) and n.id == name and
                isinstance(n.ctx, ast.Load)):
            continue
        p_ = parent(n)
        if isinstance(p_, (ast.For, ast.comprehension)) and p_.iter is n:
            uses.append(n)
        elif isinstance(p_, ast.Call) and n in p_.args and \
                isinstance(p_.func, ast.Name) and p_.func.id in _CONSUMERS:
            uses.append(n)
        elif isinstance(p_, ast.Starred):
            uses.append(n)
        elif isinstance(p_, ast.YieldFrom):
            uses.append(n)
    return uses


def single_consumption_rule(chk: Check, rid: str, relpaths: Iterable[str],
                            floor: int) -> None:
    """A generator can be walked once.  A second consumer -- typically a
    `len(list(gen))` or `list(gen)` slipped into a log statement -- leaves
    nothing for the loop that does the work: it runs zero times, silently.
    (`.format()` arguments are evaluated even when the debug level is
    off.)"""
    from sa.model import ancestors, set_parents, walk_local
    prog = chk.prog
    chk.rule(rid, "a local bound to a generator is consumed at most once on "
             "any path (for / list() / len(list()) / sorted() ...)",
             floor=floor)
    n = 0
    for rel in relpaths:
        for fi in prog.funcs_in(rel):
            n += 1
            gens = _generator_names(prog, fi)
            bad = []
            for name, defs in gens.items():
                uses = sorted(_consumptions(fi, name),
                              key=lambda u: (u.lineno, u.col_offset))
                for i, u1 in enumerate(uses):
                    for u2 in uses[i + 1:]:
                        # a re-binding between the two gives a new object
                        if any(u1.lineno < d.lineno <= u2.lineno and
                               not _exclusive(d, u1) for d in defs) or any(
                                isinstance(x, ast.Name) and x.id == name and
                                isinstance(x.ctx, ast.Store) and
                                u1.lineno < x.lineno <= u2.lineno
                                for x in walk_local(fi.node)):
                            continue
                        if _exclusive(u1, u2):
                            continue
                        bad.append((name, u1, u2))
            if not bad:
                chk.ok(rid, fi, fi.node, "{}: {} generator local(s)".format(
                    fi.short, len(gens)), "each consumed at most once",
                    bool(gens))
            for name, u1, u2 in bad[:1]:
                chk.fail(rid, fi, u2, "{}: `{}` consumed at lines {} and {}"
                         .format(fi.short, name, u1.lineno, u2.lineno),
                         "`{}` is a generator: the first consumer (line {}) "
                         "exhausts it, so the second (line {}) sees nothing "
                         "-- the loop that was to handle the items runs "
                         "zero times and the run still ends normally".format(
                             name, u1.lineno, u2.lineno))
    if n < floor:
        raise AnalysisError("functions examined: {}".format(n))


def _exclusive(a, b) -> bool:
    """a and b sit in different arms of one if statement."""
    from sa.model import ancestors, parent
    def arms(x):
        out = {}
        child = x
        for anc in ancestors(x):
            if isinstance(anc, ast.If):
                if any(child is s or _contains(s, child) for s in anc.body):
                    out[id(anc)] = "body"
                elif any(child is s or _contains(s, child)
                         for s in anc.orelse):
                    out[id(anc)] = "orelse"
            child = anc
        return out
    aa, ab = arms(a), arms(b)
    return any(k in ab and ab[k] != v for k, v in aa.items())


def _contains(root, node) -> bool:
    return any(x is node for x in ast.walk(root))


def config_parser_read_only_rule(chk: Check, rid: str, floor: int) -> None:
    """One MergerConfig / DifferConfig object serves a whole run: its
    `prepare()` is called for every document (pair), each time reading the
    same parsed configuration file.  That ConfigParser is filled once, by
    the loader; afterwards it is only read.  An entry removed "because it
    matched nothing in this document" is gone for every later document of
    the run, which is then merged or compared with the default policy."""
    from sa.model import walk_local
    prog = chk.prog
    chk.rule(rid, "the ConfigParser of the configuration classes is changed "
             "only by their loader (no remove_option / set / clear ... on "
             "it from prepare() and its helpers)", floor=floor)
    mutators = {"remove_option", "remove_section", "set", "add_section",
                "clear", "pop", "popitem", "update", "read_dict",
                "read_string", "setdefault", "__setitem__", "__delitem__"}
    n = 0
    for cls in ("MergerConfig", "DifferConfig"):
        ci = prog.class_by_name(cls)
        for m in ci.methods.values():
            n += 1
            bad = []
            if m.node.name != "_load_config":
                for c in walk_local(m.node):
                    if isinstance(c, ast.Call) and \
                            isinstance(c.func, ast.Attribute) and \
                            c.func.attr in mutators and \
                            src(c.func.value) in ("self.config", "config"):
                        bad.append(c)
                    elif isinstance(c, (ast.Delete, ast.Assign)):
                        tg = c.targets
                        for t in tg:
                            if isinstance(t, ast.Subscript) and \
                                    src(t.value).startswith("self.config"):
                                bad.append(c)
            if bad:
                chk.fail(rid, m, bad[0], "{}.{}: `{}`".format(
                    cls, m.node.name, src(bad[0])[:50]),
                    "the shared configuration is edited while a document "
                    "is being prepared: the change outlives this document, "
                    "so a rule that did not apply to an earlier document of "
                    "the stream is missing for a later one that it does "
                    "apply to")
            else:
                chk.ok(rid, m, m.node, "{}.{}".format(cls, m.node.name),
                       "reads only", False)
    if n < floor:
        raise AnalysisError("configuration methods examined: {}".format(n))


def _optional_groups(pattern: str):
    """Numbers of the capture groups of ``pattern`` that may stay unmatched
    (inside a `?` / `*` / `{0,..}` repeat or an alternation branch)."""
    import re._parser as sre  # type: ignore
    import re._constants as sc  # type: ignore
    out = set()

    def walk(items, optional):
        for op, av in items:
            if op is sc.SUBPATTERN:
                group, _, _, sub = av
                if group and optional:
                    out.add(group)
                walk(sub, optional)
            elif op in (sc.MAX_REPEAT, sc.MIN_REPEAT, sc.POSSESSIVE_REPEAT):
                lo, _, sub = av
                walk(sub, optional or lo == 0)
            elif op is sc.BRANCH:
                for alt in av[1]:
                    walk(alt, True)
            elif op in (sc.ASSERT, sc.ASSERT_NOT):
                walk(av[1], optional)
            elif op is sc.GROUPREF_EXISTS:
                walk(av[1], True)
                if av[2]:
                    walk(av[2], True)
    try:
        walk(sre.parse(pattern), False)
    except Exception:  # pylint: disable=broad-except
        return None
    return out


def optional_groups_rule(chk: Check, rid: str, relpaths: Iterable[str],
                         floor: int) -> None:
    """A capture group inside an optional part of a regular expression
    yields None when that part is absent.  Handing it to int() / float()
    without a None test raises TypeError for exactly the inputs the
    optional part was added for (`-8`, `+05` as a time-zone offset)."""
    from sa.guards import facts_at
    from sa.model import walk_local
    prog = chk.prog
    chk.rule(rid, "a capture group that may stay unmatched reaches int() / "
             "float() only under a None test", floor=floor)
    sample = _optional_groups(r'([+\-]?)(\d{1,2})(?::?(\d{2}))?')
    if sample != {3}:
        raise AnalysisError("optional-group detector lost its positive "
                            "sample: {}".format(sample))
    n = 0
    for rel in relpaths:
        for fi in prog.funcs_in(rel):
            pats = {}
            for a in walk_local(fi.node):
                if isinstance(a, ast.Assign) and isinstance(a.value, ast.Call) \
                        and src(a.value.func) in ("re.compile",) and \
                        a.value.args and \
                        isinstance(a.value.args[0], ast.Constant) and \
                        isinstance(a.value.args[0].value, str):
                    pats[src(a.targets[0])] = a.value.args[0].value
            if not pats:
                continue
            matches = {}
            for a in walk_local(fi.node):
                if isinstance(a, ast.Assign) and isinstance(a.value, ast.Call) \
                        and isinstance(a.value.func, ast.Attribute) and \
                        a.value.func.attr in ("match", "search", "fullmatch") \
                        and src(a.value.func.value) in pats:
                    matches[src(a.targets[0])] = pats[src(a.value.func.value)]
            groupvars = {}
            for a in walk_local(fi.node):
                if not isinstance(a, ast.Assign):
                    continue
                v = a.value
                if isinstance(v, ast.Call) and \
                        isinstance(v.func, ast.Attribute) and \
                        src(v.func.value) in matches:
                    opt = _optional_groups(matches[src(v.func.value)])
                    if opt is None:
                        continue
                    if v.func.attr == "groups" and \
                            isinstance(a.targets[0], ast.Tuple):
                        for i, t in enumerate(a.targets[0].elts, 1):
                            if isinstance(t, ast.Name) and i in opt:
                                groupvars[t.id] = i
                    elif v.func.attr == "group" and v.args and \
                            isinstance(v.args[0], ast.Constant) and \
                            v.args[0].value in opt and \
                            isinstance(a.targets[0], ast.Name):
                        groupvars[a.targets[0].id] = v.args[0].value
            n += 1
            bad = []
            for c in walk_local(fi.node):
                if isinstance(c, ast.Call) and isinstance(c.func, ast.Name) \
                        and c.func.id in ("int", "float") and c.args and \
                        isinstance(c.args[0], ast.Name) and \
                        c.args[0].id in groupvars:
                    name = c.args[0].id
                    guarded = any(
                        f.kind == "cond" and (
                            (f.pol and src(f.expr) in (
                                name, name + " is not None")) or
                            (not f.pol and src(f.expr) in (
                                "not " + name, name + " is None")))
                        for f in facts_at(c))
                    if not guarded:
                        bad.append((c, name))
            if bad:
                c, name = bad[0]
                chk.fail(rid, fi, c, "{}: {}".format(fi.short, src(c)),
                         "`{}` is group {} of a pattern in which that group "
                         "is optional: it is None when the optional part is "
                         "absent, and {}(None) raises TypeError".format(
                             name, groupvars[name], c.func.id))
            else:
                chk.ok(rid, fi, fi.node, "{}: {} pattern(s)".format(
                    fi.short, len(pats)), "no optional group reaches a "
                    "numeric conversion unguarded")
    if n < floor:
        raise AnalysisError("functions with constant patterns: {}".format(n))


def generator_calls_consumed_rule(chk: Check, rid: str,
                                  relpaths: Iterable[str], floor: int) -> None:
    """Calling a generator function only *creates* the generator; nothing in
    its body runs until someone iterates it.  As a bare statement
    (`yield_children(...)` where `yield from yield_children(...)` or a
    `for ... yield` was meant) the call is a silent no-op: the paths it
    would have reported are simply missing."""
    from sa.model import resolve_call, walk_local
    prog = chk.prog
    chk.rule(rid, "no call of a generator function of the program stands as "
             "a bare statement (its result discarded)", floor=floor)
    n = 0
    for rel in relpaths:
        for fi in prog.funcs_in(rel):
            n += 1
            bad = []
            for st in walk_local(fi.node):
                if not (isinstance(st, ast.Expr) and
                        isinstance(st.value, ast.Call)):
                    continue
                try:
                    cands = resolve_call(prog, fi, st.value)
                except Exception:  # pylint: disable=broad-except
                    cands = []
                if cands and all(any(isinstance(y, (ast.Yield, ast.YieldFrom))
                                     for y in walk_local(c.node))
                                 for c in cands):
                    bad.append(st)
            if bad:
                chk.fail(rid, fi, bad[0], "{}: `{}`".format(
                    fi.short, src(bad[0].value)[:50]),
                    "the generator is created and dropped: none of its "
                    "code runs, so whatever it was to yield (the leaf "
                    "paths of an expanded match) never appears")
            else:
                chk.ok(rid, fi, fi.node, fi.short, "every generator call is "
                       "iterated", False)
    if n < floor:
        raise AnalysisError("functions examined: {}".format(n))


_MATCH_MAKERS = ("match", "search", "fullmatch")
_MATCH_USES = ("group", "groups", "groupdict", "start", "end", "span",
               "expand", "lastindex", "lastgroup", "string", "re", "pos",
               "endpos", "regs")


def match_result_deref_sites(fn: ast.AST):
    """`<x>.match(...).group(...)` style reads: an attribute of a match
    object taken directly from the call that may have returned None, and
    names bound to such a call whose attribute is read with no None /
    truth test of the name anywhere in the function."""
    from sa.model import walk_local
    out = []
    bound = {}
    for n in walk_local(fn):
        if isinstance(n, ast.Attribute) and n.attr in _MATCH_USES and \
                isinstance(n.value, ast.Call) and \
                isinstance(n.value.func, ast.Attribute) and \
                n.value.func.attr in _MATCH_MAKERS:
            out.append(n)
        if isinstance(n, ast.Assign) and len(n.targets) == 1 and \
                isinstance(n.targets[0], ast.Name) and \
                isinstance(n.value, ast.Call) and \
                isinstance(n.value.func, ast.Attribute) and \
                n.value.func.attr in _MATCH_MAKERS and \
                (src(n.value.func.value) == "re" or
                 "re.compile" in src(n.value.func.value)):
            bound[n.targets[0].id] = n
    for name in bound:
        tested = False
        uses = []
        for n in walk_local(fn):
            if isinstance(n, (ast.If, ast.While, ast.IfExp, ast.Assert)) and \
                    any(isinstance(x, ast.Name) and x.id == name
                        for x in ast.walk(n.test)):
                tested = True
            if isinstance(n, ast.BoolOp) and any(
                    isinstance(x, ast.Name) and x.id == name
                    for v in n.values[:-1] for x in ast.walk(v)):
                tested = True
            if isinstance(n, ast.Attribute) and n.attr in _MATCH_USES and \
                    isinstance(n.value, ast.Name) and n.value.id == name:
                uses.append(n)
        if uses and not tested:
            out.extend(uses[:1])
    return out


def match_result_deref_rule(chk: Check, rid: str, funcs, floor: int) -> None:
    """`re.match()` / `.search()` / `.fullmatch()` answer None for text the
    pattern does not cover (`.` stops at a line feed, `$` before a trailing
    one, an anchor in the wrong place).  Reading `.group()` off the call
    itself turns such text into an AttributeError -- a foreign exception
    for what may be perfectly good input."""
    chk.rule(rid, "the result of a regex match / search is never "
             "dereferenced without a None test", floor=floor)
    pos = ast.parse("def f(t):\n    return re.match('a', t).group(0)\n")
    if len(match_result_deref_sites(pos.body[0])) != 1:
        raise AnalysisError("optional-dereference detector lost its "
                            "positive sample")
    n = 0
    for fi in funcs:
        n += 1
        bad = match_result_deref_sites(fi.node)
        if bad:
            chk.fail(rid, fi, bad[0], "{}: `{}`".format(
                fi.short, src(bad[0])[:60]),
                "the match may be None (no pattern covers every text: "
                "line feeds, anchors), and `.{}` of None is an "
                "AttributeError".format(bad[0].attr))
        else:
            chk.ok(rid, fi, fi.node, fi.short, "no match result is read "
                   "without a test", False)
    if n < floor:
        raise AnalysisError("functions examined: {}".format(n))


def passthrough_of_existing_coordinates_rule(chk: Check, rid: str,
                                             quals, floor: int) -> None:
    """unique() / distinct() may be handed a *virtual* list (the result of a
    slice or a Collector) whose elements already are NodeCoords carrying
    their real place in the document.  Such an element must be handed on as
    it is.  Wrapped again -- NodeCoords(element, <the virtual list>, <its
    position there>) -- the value read is the same, but a delete or set
    through the result edits the throw-away list and the document stays as
    it was."""
    from sa.model import ancestors, walk_local
    prog = chk.prog
    chk.rule(rid, "in the list arms of unique() / distinct() an element "
             "that already is a NodeCoords is passed through: every "
             "NodeCoords(...) built with the data list as parent stands "
             "under `not isinstance(<element>, NodeCoords)`", floor=floor)
    n = 0
    for q in quals:
        fi = prog.func(q)
        chk.analysed(fi)
        data = fi.params()[0]
        for loop in walk_local(fi.node):
            if not (isinstance(loop, ast.For) and
                    isinstance(loop.iter, ast.Call) and
                    src(loop.iter.func) == "enumerate" and loop.iter.args
                    and src(loop.iter.args[0]) == data and
                    isinstance(loop.target, ast.Tuple)):
                continue
            ele = src(loop.target.elts[1])
            for c in walk_local(loop):
                if not (isinstance(c, ast.Call) and
                        src(c.func) == "NodeCoords" and len(c.args) >= 3
                        and src(c.args[1]) == data):
                    continue
                n += 1
                guarded = False
                child = c
                for a in ancestors(c):
                    if isinstance(a, ast.IfExp) and child is a.orelse and \
                            src(a.test) == "isinstance({}, NodeCoords)"\
                            .format(ele):
                        guarded = True
                    if isinstance(a, ast.If) and \
                            src(a.test).replace(" ", "") in (
                                "notisinstance({},NodeCoords)".format(ele),):
                        guarded = guarded or child in a.body
                    if isinstance(a, ast.If) and src(a.test) == \
                            "isinstance({}, NodeCoords)".format(ele):
                        guarded = guarded or child in a.orelse
                    child = a
                text = "{}: NodeCoords({}, {}, ...)".format(
                    fi.short, src(c.args[0]), data)
                if guarded:
                    chk.ok(rid, fi, c, text, "only for an element that is "
                           "not yet a NodeCoords")
                else:
                    chk.fail(rid, fi, c, text,
                             "an element that already carries its document "
                             "coordinates is wrapped again with the "
                             "(possibly virtual) list as parent: "
                             "`recs[1:4][unique(kind)]` still reads the "
                             "right records, but deleting or setting "
                             "through the result changes a temporary list")
    if n < floor:
        raise AnalysisError("{}: {} construction site(s) found".format(
            rid, n))


def modulo_by_length_rule(chk: Check, rid: str, funcs, floor: int) -> None:
    """`i % len(x)` / `i // len(x)` divides by zero for an empty x.  The
    evaluator meets empty Arrays as a matter of course (a slice that
    matched nothing still yields its coordinates), so the divisor needs a
    non-emptiness fact in front of it."""
    from sa import partial
    from sa.model import walk_local
    chk.rule(rid, "no division / modulo by a len() without a non-emptiness "
             "fact", floor=floor)
    pos = ast.parse("def f(i, x):\n    return i % len(x)\n")
    hits = [b for b in ast.walk(pos) if isinstance(b, ast.BinOp) and
            isinstance(b.op, (ast.Mod, ast.FloorDiv, ast.Div)) and
            isinstance(b.right, ast.Call) and src(b.right.func) == "len"]
    if len(hits) != 1:
        raise AnalysisError("modulo detector lost its positive sample")
    n = 0
    for fi in funcs:
        n += 1
        bad = None
        for b in walk_local(fi.node):
            if not (isinstance(b, ast.BinOp) and
                    isinstance(b.op, (ast.Mod, ast.FloorDiv, ast.Div)) and
                    isinstance(b.right, ast.Call) and
                    src(b.right.func) == "len" and b.right.args):
                continue
            if isinstance(b.left, (ast.Constant, ast.JoinedStr)) and \
                    isinstance(getattr(b.left, "value", None), str):
                continue        # "text" % value
            need = {src(b.right): 1, "": -1}
            if partial.ge0(partial._xfacts(b, fi), need) is None:
                bad = b
                break
        if bad is not None:
            chk.fail(rid, fi, bad, "{}: `{}`".format(fi.short, src(bad)),
                     "`{}` may be 0 (an empty Array is ordinary document "
                     "data): ZeroDivisionError, a foreign exception"
                     .format(src(bad.right)))
        else:
            chk.ok(rid, fi, fi.node, fi.short, "no unguarded division by a "
                   "length", False)
    if n < floor:
        raise AnalysisError("functions examined: {}".format(n))


def attribute_after_augmented_rebinding_rule(chk: Check, rid: str,
                                             relpaths: Iterable[str],
                                             floor: int) -> None:
    """`x += delta` on an immutable object (a datetime) binds `x` to a NEW
    object.  Private state that the old object carried (`x._yaml`) is not on
    the new one -- or is there with default content.  A function that reads
    `x.<attr>` both before and after such a re-binding reads two different
    objects; the state must be taken into a local before."""
    from sa.model import walk_local
    prog = chk.prog
    chk.rule(rid, "no attribute of a name is read after an augmented "
             "assignment re-bound that name, when the same attribute was "
             "read before it", floor=floor)
    n = 0
    for rel in relpaths:
        for fi in prog.funcs_in(rel):
            n += 1
            bad = None
            for aug in walk_local(fi.node):
                if not (isinstance(aug, ast.AugAssign) and
                        isinstance(aug.target, ast.Name)):
                    continue
                name = aug.target.id
                before = {a.attr for a in walk_local(fi.node)
                          if isinstance(a, ast.Attribute) and
                          isinstance(a.value, ast.Name) and
                          a.value.id == name and
                          (a.lineno, a.col_offset) <=
                          (aug.lineno, aug.col_offset + 10 ** 6)
                          and a.lineno <= aug.lineno}
                after = [a for a in walk_local(fi.node)
                         if isinstance(a, ast.Attribute) and
                         isinstance(a.value, ast.Name) and
                         a.value.id == name and a.lineno > aug.lineno and
                         a.attr in before and a.attr.startswith("_")]
                if after:
                    bad = after[0]
                    break
            if bad is not None:
                chk.fail(rid, fi, bad, "{}: `{}` after `{} {}= ...`".format(
                    fi.short, src(bad), name, "+"),
                    "`{}` was re-bound by the augmented assignment: the "
                    "object read here is a new one and does not carry the "
                    "private state (`{}`) of the node that was loaded -- a "
                    "time-zone suffix is lost and the value written is "
                    "another instant".format(name, bad.attr))
            else:
                chk.ok(rid, fi, fi.node, fi.short, "private state is read "
                       "from one object", False)
    if n < floor:
        raise AnalysisError("functions examined: {}".format(n))
