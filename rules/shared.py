"""Rules shared by several properties (each property applies them to the
files it is anchored in, under its own rule id)."""
from __future__ import annotations

import ast
from typing import Iterable

from sa.model import AnalysisError, set_parents, src
from sa.report import Check
from sa.sharedstate import mutable_defaults, shared_class_containers

_POSITIVE = '''
class Sample:
    found = []
    NAMES = ("a", "b")

    def __init__(self):
        self.other = []

    def run(self, item, seen=[], opts=()):
        seen.append(item)
        self.found.append(item)
        return seen
'''


def _self_test() -> None:
    from sa.model import ClassInfo, FuncInfo, ModuleInfo
    mod = ModuleInfo("sample.py", "sample", _POSITIVE)
    cnode = mod.tree.body[0]
    ci = ClassInfo("sample.Sample", cnode, mod)
    for st in cnode.body:
        if isinstance(st, ast.FunctionDef):
            ci.methods[st.name] = FuncInfo("sample.Sample." + st.name, st,
                                           mod, ci, None)
    md = mutable_defaults(ci.methods["run"])
    sc = shared_class_containers(ci)
    if [p.arg for p, _ in md] != ["seen"] or [n for _, n in sc] != ["found"]:
        raise AnalysisError("shared-state detector lost its positive sample: "
                            "{} {}".format(md, sc))


def shared_state_rule(chk: Check, rid: str, relpaths: Iterable[str],
                      floor: int) -> None:
    """No state outlives the call or the instance it belongs to
    (sa/sharedstate.py): a result of one query / delete / comparison /
    file must not be visible to the next."""
    prog = chk.prog
    relpaths = list(relpaths)
    chk.rule(rid, "no function of {} has a mutable default argument that "
             "it changes or hands on, and no class keeps per-instance "
             "results in a class-level container".format(
                 ", ".join(r.split("/")[-1] for r in relpaths)),
             floor=floor)
    _self_test()
    for fi in prog.functions.values():
        if fi.module.relpath not in relpaths:
            continue
        bad = mutable_defaults(fi)
        for p, d in bad:
            chk.fail(rid, fi, p, "{}: parameter default is a shared "
                     "container".format(fi.short),
                     "`{}={}` is created once, when the function is "
                     "defined; the function changes it or hands it on, so "
                     "what one call records is still there for the next "
                     "call (another query, document or file)".format(
                         p.arg, src(d)))
        if not bad:
            chk.ok(rid, fi, fi.node, fi.short, "no shared default", False)
    for ci in prog.classes.values():
        if ci.module.relpath not in relpaths:
            continue
        anyfi = next(iter(ci.methods.values()), None)
        for st, name in shared_class_containers(ci):
            chk.fail(rid, anyfi, st, "{}: class-level container `{}`".format(
                ci.name, name),
                "`{}` is bound once in the class body and filled through "
                "`self.{}`; __init__ never re-binds it, so all instances "
                "share one container".format(src(st)[:50], name))


def readonly_lookups_rule(chk: Check, rid: str, relpaths: Iterable[str],
                          floor: int) -> None:
    """Code that only *looks something up* in a document it does not own
    (the per-path rules of a comparison / merge configuration, against the
    incoming document) queries with the literal `mustexist=True`.  The
    default of `Processor.get_nodes` is the optional-match mode, which
    creates what it does not find: a rule path that is absent from the
    document would be written into it before the comparison or merge runs
    (identical documents then differ; the caller's document is altered)."""
    prog = chk.prog
    relpaths = list(relpaths)
    chk.rule(rid, "every get_nodes() lookup in {} is a required-match query "
             "(literal mustexist=True)".format(
                 ", ".join(r.split("/")[-1] for r in relpaths)), floor=floor)
    from sa.model import walk_local
    for fi in prog.functions.values():
        if fi.module.relpath not in relpaths:
            continue
        for c in walk_local(fi.node):
            if not (isinstance(c, ast.Call) and
                    isinstance(c.func, ast.Attribute) and
                    c.func.attr == "get_nodes"):
                continue
            kw = {k.arg: k.value for k in c.keywords}
            m = kw.get("mustexist")
            text = "{}: `{}`".format(fi.short, src(c)[:50])
            if isinstance(m, ast.Constant) and m.value is True:
                chk.ok(rid, fi, c, text, "required-match query")
            else:
                chk.fail(rid, fi, c, text,
                         "the lookup runs in the optional-match mode "
                         "(mustexist {}): a path that matches nothing is "
                         "*created* in the document that is only being "
                         "consulted".format(
                             "= " + src(m) if m is not None else "omitted"))


def _kwargs_reads(prog, fi, seen=None):
    """(names the callee accepts through its **kwargs, open?) -- `open`
    when the catch-all is handed on to something that cannot be resolved."""
    from sa.model import resolve_call, walk_local
    seen = seen or set()
    if fi.qual in seen:
        return set(), False
    seen = seen | {fi.qual}
    kw = fi.node.args.kwarg.arg if fi.node.args.kwarg else None
    names = set()
    opened = False
    if kw is None:
        return names, opened
    for n in walk_local(fi.node):
        if isinstance(n, ast.Call) and isinstance(n.func, ast.Attribute) and \
                src(n.func.value) == kw and \
                n.func.attr in ("pop", "get", "setdefault") and n.args:
            if isinstance(n.args[0], ast.Constant):
                names.add(n.args[0].value)
            else:
                opened = True
        elif isinstance(n, ast.Subscript) and src(n.value) == kw:
            if isinstance(n.slice, ast.Constant):
                names.add(n.slice.value)
            else:
                opened = True
        elif isinstance(n, ast.Compare) and len(n.ops) == 1 and \
                isinstance(n.ops[0], (ast.In, ast.NotIn)) and \
                src(n.comparators[0]) == kw and \
                isinstance(n.left, ast.Constant):
            names.add(n.left.value)
        elif isinstance(n, ast.Call) and any(
                k.arg is None and src(k.value) == kw for k in n.keywords):
            cands = resolve_call(prog, fi, n)
            if not cands:
                opened = True
            for c in cands:
                sub, op = _kwargs_reads(prog, c, seen)
                names |= sub | {a.arg for a in c.node.args.args +
                                c.node.args.kwonlyargs}
                opened = opened or op
        elif isinstance(n, ast.Name) and n.id == kw and \
                isinstance(n.ctx, ast.Load):
            p = getattr(n, "_parent", None)
            # any other use of the dict as a whole (iteration, passing it
            # as a plain argument): cannot tell what is read
            from sa.model import parent as _parent_of
            par = _parent_of(n)
            if not (isinstance(par, ast.Attribute) or
                    isinstance(par, ast.Subscript) or
                    isinstance(par, ast.keyword) or
                    isinstance(par, ast.Compare)):
                opened = True
    return names, opened


def keyword_coupling_rule(chk: Check, rid: str, relpaths: Iterable[str],
                          floor: int) -> None:
    """A keyword argument handed to a function that takes `**kwargs` is
    only an instruction if the callee reads a key of that spelling.  A
    keyword nobody reads is dropped without a sound, and the callee acts on
    its default instead (`must_exist=True` passed, `"mustexist"` popped: the
    required-match query silently becomes a node-creating one)."""
    from sa.model import resolve_call, walk_local
    prog = chk.prog
    relpaths = list(relpaths)
    chk.rule(rid, "every keyword passed into a **kwargs catch-all from {} "
             "is read by the callee (popped / looked up under the same "
             "spelling, or forwarded to a function that takes it)".format(
                 ", ".join(r.split("/")[-1] for r in relpaths)), floor=floor)
    for fi in prog.functions.values():
        if fi.module.relpath not in relpaths:
            continue
        for c in walk_local(fi.node):
            if not isinstance(c, ast.Call) or not c.keywords:
                continue
            cands = [x for x in resolve_call(prog, fi, c)
                     if x.node.args.kwarg is not None]
            if not cands:
                continue
            passed = [k.arg for k in c.keywords if k.arg is not None]
            for callee in cands:
                named = {a.arg for a in callee.node.args.args +
                         callee.node.args.kwonlyargs +
                         callee.node.args.posonlyargs}
                reads, opened = _kwargs_reads(prog, callee)
                text = "{} -> {}".format(fi.short, callee.short)
                lost = [k for k in passed if k not in named and
                        k not in reads]
                if lost and not opened:
                    chk.fail(rid, fi, c, text,
                             "keyword(s) {} fall into `**{}` of {} and are "
                             "never read there (it reads {}): the callee "
                             "silently uses its defaults".format(
                                 ", ".join("`" + k + "`" for k in lost),
                                 callee.node.args.kwarg.arg, callee.short,
                                 sorted(map(str, reads))))
                else:
                    chk.ok(rid, fi, c, text, "{} keyword(s), all read{}"
                           .format(len(passed), " (catch-all handed on)"
                                   if opened else ""))


def shared_dest_defaults_rule(chk: Check, rid: str, relpaths: Iterable[str],
                              floor: int) -> None:
    """argparse fills a destination shared by several options from the
    *first* action that declares it; a `default=` on a later action is
    never used.  The default of such a destination is therefore declared
    with `parser.set_defaults(<dest>=...)` (or on the first action).  A
    default moved onto "the option documented as the default" silently
    becomes None, and the tool runs in whatever mode None happens to select.
    """
    from sa.model import walk_local
    prog = chk.prog
    relpaths = list(relpaths)
    chk.rule(rid, "every option destination shared by several options of a "
             "tool gets its default from set_defaults() or from the first "
             "option declared for it", floor=floor)
    for fi in prog.functions.values():
        if fi.module.relpath not in relpaths:
            continue
        adds = [c for c in walk_local(fi.node) if isinstance(c, ast.Call) and
                isinstance(c.func, ast.Attribute) and
                c.func.attr == "add_argument"]
        if not adds:
            continue
        adds.sort(key=lambda c: (c.lineno, c.col_offset))
        by_dest = {}
        for c in adds:
            kw = {k.arg: k.value for k in c.keywords}
            d = kw.get("dest")
            if isinstance(d, ast.Constant):
                by_dest.setdefault(d.value, []).append((c, kw))
        setdef = set()
        for c in walk_local(fi.node):
            if isinstance(c, ast.Call) and \
                    isinstance(c.func, ast.Attribute) and \
                    c.func.attr == "set_defaults":
                setdef |= {k.arg for k in c.keywords if k.arg}
        for dest, acts in sorted(by_dest.items()):
            if len(acts) < 2:
                continue
            text = "{}: destination `{}` of {} options".format(
                fi.short, dest, len(acts))
            late = [c for c, kw in acts[1:] if "default" in kw]
            first_has = "default" in acts[0][1]
            if late:
                chk.fail(rid, fi, late[0], text,
                         "a later option of the group carries `default=`: "
                         "argparse takes the default of a shared "
                         "destination from the first option declared for "
                         "it, so this one is never used")
            elif dest in setdef or first_has:
                chk.ok(rid, fi, acts[0][0], text,
                       "default from {}".format(
                           "set_defaults()" if dest in setdef
                           else "the first option"))
            else:
                chk.fail(rid, fi, acts[0][0], text,
                         "no default is declared for the shared "
                         "destination: without any of the options the tool "
                         "sees None")
