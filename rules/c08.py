"""C08 -- path text and parsed segments round-trip.

Decided clauses (DESIGN.md section 4, C08):
  D1  operator automaton of the parser (extracted by partial evaluation of
      the bracket branch per character and prior state) against the enums'
      own __str__ tables: every search operator, collector operator and
      keyword the writer can emit is read back as the same member;
  D2  stringifier exhaustiveness and uniform separator handling;
  D3  escape agreement per lexical context (key, search term, regular
      expression);
  D4  equality through one common notation.
"""
from __future__ import annotations

import ast
from typing import Any, Dict, List, Optional, Set, Tuple

from rules.c02 import escape_alphabet, parser_roles
from rules.c14 import enum_str_table
from sa.guards import facts_at
from sa.model import (AnalysisError, FuncInfo, Program, ancestors, parent,
                      src, walk_local)
from sa.peval import Const, Enum, Kind, PEval, show
from sa.report import Check

META = {
    "explanation": (
        "Static decision of the writer/reader agreement of YAML Paths: the "
        "parser's loop body is specialised (partial evaluation) for the "
        "state 'inside one bracket' and each operator character, with each "
        "possible prior operator state, giving the transition table of the "
        "operator automaton; the symbol that PathSearchMethods.__str__ "
        "emits for each member (extracted from the enum's own ladder) is "
        "fed through that table and must end in the same member; the same "
        "for the three collector operators and for the keyword table; the "
        "stringifier is specialised per segment kind and must emit "
        "non-empty text with identical separator handling for KEY / "
        "MATCH_ALL / TRAVERSE; the characters the writer escapes in key "
        "context are a subset of the escaping routine's alphabet and the "
        "reader's escape branch precedes every character-specific branch; "
        "search terms have their spaces escaped; the regular-expression "
        "context is checked for a writer escape the reader cannot undo; "
        "__eq__ renders both operands with one forced separator.  Nothing "
        "is executed."),
    "declined": [
        "text -> segments -> text identity over all segment sequences, "
        "fixed point of the canonical string, append/pop inverse (string "
        "arithmetic on run-time text)",
    ],
    "assumptions": ["the parser processes one character per loop iteration "
                    "with the flags modelled by role discovery"],
    "trusted_base": ["Enum member identity"],
}


def _bracket_env(roles: Dict[str, Any], sep: str) -> Dict[str, Any]:
    env: Dict[str, Any] = {
        roles["sep"]: Const(sep),
        "len({})".format(roles["stack"]): Const(1),
        "{}[-1]".format(roles["stack"]): Const("["),
        "strip_escapes": Const(True),
    }
    for b in roles["boolish"]:
        env[b] = Const(False)
    for nm in roles["none_init"]:
        env[nm] = Const(None)
    for nm in roles["zero_init"]:
        env[nm] = Const(0)
    return env


def _method_var(fi: FuncInfo) -> str:
    for n in walk_local(fi.node):
        if isinstance(n, ast.Assign) and isinstance(n.value, ast.Attribute) \
                and src(n.value.value) == "PathSearchMethods" and \
                isinstance(n.targets[0], ast.Name):
            return n.targets[0].id
    raise AnalysisError("search method variable not found in the parser")


def _type_var(fi: FuncInfo) -> str:
    for n in walk_local(fi.node):
        if isinstance(n, ast.Assign) and isinstance(n.value, ast.Attribute) \
                and src(n.value) == "PathSegmentTypes.SEARCH" and \
                isinstance(n.targets[0], ast.Name):
            return n.targets[0].id
    raise AnalysisError("segment type variable not found in the parser")


def _text_var(roles: Dict[str, Any]) -> str:
    loop = roles["loop"]
    last = [s for s in loop.body if isinstance(s, ast.AugAssign) and
            src(s.value) == roles["char"]]
    if not last:
        raise AnalysisError("segment text accumulator not found")
    return src(last[-1].target)


def step(pe: PEval, roles: Dict[str, Any], mvar: str, tvar: str, idv: str,
         state: Optional[str], have_text: bool, ch: str,
         inverted_var: Optional[str] = None, inverted: bool = False
         ) -> Tuple[str, Optional[str], bool, List[ast.stmt]]:
    """One transition of the operator automaton.  Returns (outcome, new
    state, text consumed?, residual); outcome in {'ok', 'raise',
    'undecided', 'plain'}."""
    env = _bracket_env(roles, "/")
    env[roles["char"]] = Const(ch)
    env[mvar] = Enum("PathSearchMethods", state) if state else Const(None)
    env[tvar] = Enum("PathSegmentTypes", "SEARCH" if state else "INDEX")
    env[idv] = Const("x" if have_text else "")
    if inverted_var:
        env[inverted_var] = Const(inverted)
    res = pe.specialise(roles["loop"].body, env)
    new_state = state
    consumed = False
    for s in res:
        if isinstance(s, ast.If):
            return "undecided", state, False, res
        if isinstance(s, ast.Raise):
            return "raise", state, False, res
        if isinstance(s, ast.Assign) and src(s.targets[0]) == mvar:
            v = s.value
            if isinstance(v, ast.Attribute) and \
                    src(v.value) == "PathSearchMethods":
                new_state = v.attr
        if isinstance(s, ast.Assign) and src(s.targets[0]) == idv and \
                isinstance(s.value, ast.Constant) and s.value.value == "":
            consumed = True
        if isinstance(s, ast.AugAssign) and src(s.target) == idv:
            return "plain", state, False, res
        if isinstance(s, ast.Continue):
            break
    return "ok", new_state, consumed, res


def d1_automaton(chk: Check) -> None:
    prog = chk.prog
    chk.rule("C08-D1a", "each search operator symbol written by "
             "PathSearchMethods.__str__ drives the parser's operator "
             "automaton to the same member", floor=9)
    chk.rule("C08-D1b", "each collector operator symbol is read back as "
             "the same member", floor=3)
    chk.rule("C08-D1c", "each keyword is written as its lower-cased member "
             "name, which is what the parser's lookup relies on", floor=7)
    roles = parser_roles(prog)
    fi = roles["fi"]
    chk.analysed(fi)
    mvar, tvar, idv = _method_var(fi), _type_var(fi), _text_var(roles)
    pe = PEval(enum_classes={"PathSegmentTypes", "PathSearchMethods",
                             "PathSearchKeywords", "CollectorOperators"})
    table = enum_str_table(prog, "PathSearchMethods")
    if len(table) != 9:
        raise AnalysisError("operator table has {} entries".format(
            len(table)))
    symbols = sorted(table.values())
    if len(set(symbols)) != len(symbols):
        chk.fail("C08-D1a", fi, None, "operator symbols",
                 "two search operators share one symbol: {}".format(symbols))
    for member, sym in sorted(table.items()):
        state: Optional[str] = None
        have_text = True
        trace: List[str] = []
        problem = None
        if not sym:
            problem = "member has no symbol"
        for ch in sym:
            outcome, state, consumed, res = step(
                pe, roles, mvar, tvar, idv, state, have_text, ch)
            trace.append("{!r}->{}".format(ch, state if outcome == "ok"
                                           else outcome))
            if outcome != "ok":
                problem = "character {!r} of the symbol {!r} is {} by the " \
                    "parser".format(ch, sym, {
                        "raise": "rejected", "undecided": "not decided",
                        "plain": "read as plain text"}[outcome])
                break
            if consumed:
                have_text = False
        cell = "{} = {!r}".format(member, sym)
        if problem is None and state == member:
            chk.ok("C08-D1a", fi, None, cell,
                   "automaton: " + " ".join(trace))
        else:
            chk.fail("C08-D1a", fi, None, cell,
                     problem or "the symbol {!r} written for {} is read back "
                     "as {} ({})".format(sym, member, state,
                                         " ".join(trace)))
    # collector operators
    ctable = enum_str_table(prog, "CollectorOperators")
    cvar = None
    for n in walk_local(fi.node):
        if isinstance(n, ast.Assign) and isinstance(n.value, ast.Attribute) \
                and src(n.value) == "CollectorOperators.ADDITION":
            cvar = src(n.targets[0])
    seek = None
    best = None
    for n in walk_local(roles["loop"]):
        if isinstance(n, ast.If) and cvar and isinstance(n.test, ast.BoolOp) \
                and any(isinstance(x, ast.Assign) and
                        src(x.targets[0]) == cvar
                        for b in n.body for x in ast.walk(b)):
            span = (n.end_lineno or n.lineno) - n.lineno
            if best is None or span < best[0]:
                names = [src(v) for v in n.test.values
                         if isinstance(v, ast.Name)]
                if names:
                    best = (span, names[0])
    if best is not None:
        seek = best[1]
    if cvar is None or seek is None:
        raise AnalysisError("collector operator roles not found")
    for member, sym in sorted(ctable.items()):
        if member == "NONE":
            continue
        env = _bracket_env(roles, "/")
        env["len({})".format(roles["stack"])] = Const(0)
        env.pop("{}[-1]".format(roles["stack"]), None)
        env[roles["char"]] = Const(sym)
        env[seek] = Const(True)
        res = pe.specialise(roles["loop"].body, env, pinned=[])
        got = None
        for s in res:
            if isinstance(s, ast.Assign) and src(s.targets[0]) == cvar and \
                    isinstance(s.value, ast.Attribute):
                got = s.value.attr
        cell = "{} = {!r}".format(member, sym)
        if got == member:
            chk.ok("C08-D1b", fi, None, cell, "read back as " + got)
        else:
            chk.fail("C08-D1b", fi, None, cell,
                     "collector operator {!r} written for {} is read back "
                     "as {}".format(sym, member, got),
                     {"residual": show(res)[:300]})
    # keywords
    ktable = enum_str_table(prog, "PathSearchKeywords")
    kci = prog.class_by_name("PathSearchKeywords")
    kfi = kci.methods["__str__"]
    for member, text in sorted(ktable.items()):
        if text == member.lower():
            chk.ok("C08-D1c", kfi, None, "{} = {!r}".format(member, text),
                   "lower-cased member name")
        else:
            chk.fail("C08-D1c", kfi, None, "{} = {!r}".format(member, text),
                     "keyword {} is written as {!r} but the parser looks "
                     "keywords up by upper-casing the text".format(
                         member, text))


def d2_stringifier(chk: Check) -> None:
    prog = chk.prog
    chk.rule("C08-D2", "the stringifier emits non-empty text for every "
             "segment kind; KEY / MATCH_ALL / TRAVERSE share the separator "
             "handling", floor=8)
    fi = prog.func("YAMLPath._stringify_yamlpath_segments")
    chk.analysed(fi)
    loops = [n for n in fi.node.body if isinstance(n, ast.For)]
    if len(loops) != 1 or not isinstance(loops[0].target, ast.Tuple):
        raise AnalysisError("stringifier loop not found")
    loop = loops[0]
    tv, av = [src(e) for e in loop.target.elts]
    out = None
    for n in walk_local(fi.node):
        if isinstance(n, ast.Return) and isinstance(n.value, ast.Name):
            out = n.value.id
    if out is None:
        raise AnalysisError("stringifier result variable not found")
    pe = PEval(isa={"SearchTerms": {"SearchTerms"}, "other": set()},
               enum_classes={"PathSegmentTypes"})
    sep_handling: Dict[str, str] = {}
    for m in prog.enum_members("PathSegmentTypes"):
        env = {tv: Enum("PathSegmentTypes", m),
               av: Kind("SearchTerms" if m == "SEARCH" else "other")}
        res = pe.specialise(loop.body, env, pinned=[tv, av])
        appends = [n for s in res for n in ast.walk(s)
                   if isinstance(n, ast.AugAssign) and src(n.target) == out]
        nonempty = [a for a in appends
                    if not (isinstance(a.value, ast.Constant) and
                            a.value.value == "")]
        uncond = [s for s in res if isinstance(s, ast.AugAssign)
                  and src(s.target) == out] or \
            [s for s in res if isinstance(s, ast.If) and s.orelse and
             all(any(isinstance(x, ast.AugAssign) for x in ast.walk(b))
                 for b in (ast.Module(body=s.body, type_ignores=[]),
                           ast.Module(body=s.orelse, type_ignores=[])))]
        first = res[0] if res else None
        sep = src(first) if isinstance(first, ast.If) and \
            not first.orelse else ""
        sep_handling[m] = sep
        if nonempty and uncond:
            chk.ok("C08-D2", fi, None, m, "appends {}".format(
                [src(a.value)[:30] for a in nonempty][:2]))
        else:
            chk.fail("C08-D2", fi, None, m,
                     "segments of kind {} are written as nothing: the "
                     "canonical text would drop them".format(m),
                     {"residual": show(res)[:300]})
    trio = {sep_handling.get(k) for k in ("KEY", "MATCH_ALL", "TRAVERSE")}
    if len(trio) == 1 and "" not in trio:
        chk.ok("C08-D2", fi, None, "separator handling",
               "KEY, MATCH_ALL and TRAVERSE: `{}`".format(
                   next(iter(trio))[:40]))
    else:
        chk.fail("C08-D2", fi, None, "separator handling",
                 "KEY / MATCH_ALL / TRAVERSE do not insert the separator "
                 "the same way: {}".format(sep_handling))


def d3_escapes(chk: Check) -> None:
    prog = chk.prog
    chk.rule("C08-D3a", "key context: the stringifier escapes a subset of "
             "escape_path_section's alphabet (plus the separator) that "
             "contains every character the reader takes for syntax in its "
             "base state, and the reader's escape branch precedes every "
             "character-specific branch", floor=8)
    chk.rule("C08-D3b", "search-term context: the writer escapes spaces, "
             "which the reader would otherwise drop", floor=1)
    chk.rule("C08-D3c", "regular-expression context: the writer emits no "
             "escape that the reader's capture state does not undo",
             floor=1)
    fi = prog.func("YAMLPath._stringify_yamlpath_segments")
    calls = [n for n in walk_local(fi.node) if isinstance(n, ast.Call)
             and src(n.func).endswith("ensure_escaped")]
    if len(calls) != 1:
        raise AnalysisError("stringifier escaping call not found")
    wsyms: Set[str] = set()
    for a in calls[0].args[1:]:
        if isinstance(a, ast.Constant) and isinstance(a.value, str):
            wsyms.add(a.value)
        elif isinstance(a, ast.Starred) and \
                isinstance(a.value, ast.Constant) and \
                isinstance(a.value.value, str):
            wsyms |= set(a.value.value)
        elif isinstance(a, ast.Starred) and \
                isinstance(a.value, (ast.Tuple, ast.List)):
            wsyms |= {e.value for e in a.value.elts
                      if isinstance(e, ast.Constant)}
        elif "pathsep" not in src(a):
            raise AnalysisError("stringifier escape symbol `{}` is not a "
                                "literal".format(src(a)))
    has_sep = any("pathsep" in src(a) for a in calls[0].args[1:])
    esyms, esep = escape_alphabet(prog)
    if wsyms <= esyms and has_sep and esep:
        chk.ok("C08-D3a", fi, calls[0], "writer alphabet",
               "{} symbols + separator, all in escape_path_section's set"
               .format(len(wsyms)))
    else:
        chk.fail("C08-D3a", fi, calls[0], "writer alphabet",
                 "the stringifier escapes {} which escape_path_section does "
                 "not (or the separator is not escaped)".format(
                     sorted(wsyms - esyms)))
    # ... and a superset of what the reader takes for syntax in its base
    # state.  The backslash is exempt: the stringifier is fed the escaped
    # view of the segments, in which a backslash already is an escape mark.
    from rules.c02 import parser_base_specials
    base = set(parser_base_specials(prog)) - {"\\", "<sep>"}
    if len(base) < 5:
        raise AnalysisError("parser base-state specials shrank: {}".format(
            sorted(base)))
    for c in sorted(base):
        if c in wsyms:
            chk.ok("C08-D3a", fi, calls[0], "writer escapes {!r}".format(c),
                   "special for the reader's base state and escaped by the "
                   "writer")
        else:
            chk.fail("C08-D3a", fi, calls[0],
                     "writer escapes {!r}".format(c),
                     "{!r} is syntax for the parser in its base state but "
                     "the stringifier writes it bare inside a key: the "
                     "canonical text re-parses to other segments".format(c))
    roles = parser_roles(prog)
    pfi = roles["fi"]
    chain: List[ast.If] = []
    top = [s for s in roles["loop"].body if isinstance(s, ast.If)]
    cur: Optional[ast.If] = top[-1] if top else None
    while cur is not None:
        chain.append(cur)
        cur = cur.orelse[0] if len(cur.orelse) == 1 and \
            isinstance(cur.orelse[0], ast.If) else None
    pos_bs = None
    for i, node in enumerate(chain):
        t = node.test
        if isinstance(t, ast.Compare) and \
                isinstance(t.comparators[0], ast.Constant) and \
                t.comparators[0].value == "\\" and \
                isinstance(t.ops[0], ast.Eq):
            pos_bs = i
    if pos_bs is None:
        chk.fail("C08-D3a", pfi, roles["loop"], "reader escape branch",
                 "the parser has no backslash branch")
    else:
        before = [src(n.test) for n in chain[:pos_bs]]
        char_specific = [t for t in before if roles["char"] + " ==" in t
                         or roles["char"] + " in" in t]
        if not char_specific:
            chk.ok("C08-D3a", pfi, chain[pos_bs], "reader escape branch",
                   "precedes all character-specific branches (after: {})"
                   .format(before))
        else:
            chk.fail("C08-D3a", pfi, chain[pos_bs], "reader escape branch",
                     "character-specific branches {} run before the escape "
                     "test: an escaped symbol would still act".format(
                         char_specific))
        # the escaped character is recorded as plain text
        esc = chain[0]
        if isinstance(esc.test, ast.Name) and all(
                not isinstance(x, (ast.Continue, ast.Raise))
                for s in esc.body for x in ast.walk(s)):
            chk.ok("C08-D3a", pfi, esc, "escaped character",
                   "passes through to the text accumulator")
        else:
            chk.fail("C08-D3a", pfi, esc, "escaped character",
                     "an escaped character is not recorded as plain text")
    # search terms
    st = prog.func("SearchTerms.__str__")
    chk.analysed(st)
    t = src(st.node)
    if ".replace(' ', '\\\\ ')" in t:
        chk.ok("C08-D3b", st, st.node, "term spaces",
               "unescaped spaces are written as '\\ '")
    else:
        chk.fail("C08-D3b", st, st.node, "term spaces",
                 "spaces of a search term are written bare; the reader "
                 "drops unquoted spaces inside brackets")
    # regex: what does the capture branch do with a backslash?
    cap = None
    for node in chain:
        if isinstance(node.test, ast.Name) and node is not chain[0]:
            cap = node
            break
    unescapes = cap is not None and any(
        isinstance(x, ast.Constant) and x.value == "\\"
        for s in cap.body for x in ast.walk(s))
    writes_escape = None
    for n in walk_local(st.node):
        if isinstance(n, ast.Call) and isinstance(n.func, ast.Attribute) and \
                n.func.attr == "replace" and len(n.args) == 2 and \
                isinstance(n.args[1], ast.Constant) and \
                "\\" in str(n.args[1].value) and \
                any("REGEX" in src(f.expr) for f in facts_at(n)
                    if f.kind == "cond" and f.pol):
            writes_escape = n
    if writes_escape is not None and not unescapes:
        chk.fail("C08-D3c", st, writes_escape,
                 "regex delimiter escaped by the writer only",
                 "`{}` writes an escaped delimiter inside /.../ but the "
                 "parser's regex-capture state copies every character "
                 "verbatim: the term re-parses with the backslash in it"
                 .format(src(writes_escape)))
    else:
        chk.ok("C08-D3c", st, st.node, "regex context",
               "writer and reader agree on escapes inside the regex")


def d4_equality(chk: Check) -> None:
    prog = chk.prog
    chk.rule("C08-D4", "__eq__ renders both operands with the same forced "
             "separator before comparing", floor=1)
    fi = prog.func("YAMLPath.__eq__")
    chk.analysed(fi)
    seps = [src(n.value) for n in walk_local(fi.node)
            if isinstance(n, ast.Assign) and
            isinstance(n.targets[0], ast.Attribute) and
            n.targets[0].attr == "separator"]
    copies = [n for n in walk_local(fi.node) if isinstance(n, ast.Assign)
              and isinstance(n.value, ast.Call) and
              src(n.value.func) == "YAMLPath"]
    rets = [n for n in walk_local(fi.node) if isinstance(n, ast.Return)
            and isinstance(n.value, ast.Compare)]
    ok = len(seps) == 2 and len(set(seps)) == 1 and len(copies) == 2 and \
        len(rets) == 1 and isinstance(rets[0].value.ops[0], ast.Eq)
    if ok:
        # the compared strings are the renderings of the two copies
        strs = {src(n.targets[0]): src(n.value) for n in walk_local(fi.node)
                if isinstance(n, ast.Assign) and
                isinstance(n.value, ast.Call) and
                src(n.value.func) == "str"}
        cmp_ = rets[0].value
        l, r = src(cmp_.left), src(cmp_.comparators[0])
        cnames = {src(c.targets[0]) for c in copies}
        ok = l in strs and r in strs and \
            {strs[l][4:-1], strs[r][4:-1]} == cnames
    if ok:
        chk.ok("C08-D4", fi, fi.node, "__eq__",
               "both copies forced to {} then compared as text".format(
                   seps[0]))
    else:
        chk.fail("C08-D4", fi, fi.node, "__eq__",
                 "the two paths are not rendered with one common separator "
                 "before comparison (separators {})".format(seps))


def d5_rearm(chk: Check, rid: str = "C08-D5") -> None:
    """Per-segment parser state that a recorded segment consumed must not
    leak into the next segment: on every path from a record site to the end
    of that character's iteration each consumed state variable is assigned
    again (or is re-initialised by the branch that opens the next bracketed
    segment, which is where a search's attribute is cleared)."""
    from sa.flow import Flow
    prog = chk.prog
    chk.rule(rid, "every parser state variable consumed by a recorded "
             "segment is re-armed before the next character is read",
             floor=9)
    roles = parser_roles(prog)
    fi, loop = roles["fi"], roles["loop"]
    chk.analysed(fi)
    pre: Dict[str, str] = {}
    for st in fi.node.body:
        if st is loop:
            break
        for n in ast.walk(st):
            if isinstance(n, (ast.Assign, ast.AnnAssign)) and \
                    n.value is not None:
                t = n.targets[0] if isinstance(n, ast.Assign) else n.target
                if isinstance(t, ast.Name):
                    pre.setdefault(t.id, src(n.value))
    assigned_in_loop = {t.id for n in walk_local(loop)
                        if isinstance(n, (ast.Assign, ast.AnnAssign,
                                          ast.AugAssign))
                        for t in ([n.target] if not isinstance(n, ast.Assign)
                                  else n.targets)
                        if isinstance(t, ast.Name)}
    state_vars = {v for v in pre if v in assigned_in_loop}
    # the deque the segments are recorded in
    recs = [n for n in walk_local(loop) if isinstance(n, ast.Call) and
            isinstance(n.func, ast.Attribute) and n.func.attr == "append"
            and n.args and isinstance(n.args[0], (ast.Tuple, ast.Call)) and
            src(n.func.value) in pre and pre[src(n.func.value)] == "deque()"]
    if len(recs) < 8:
        raise AnalysisError("only {} segment record sites found".format(
            len(recs)))
    # variables re-initialised where a bracketed segment opens
    opener: Set[str] = set()
    tvar = _type_var(fi)
    for n in walk_local(loop):
        if isinstance(n, ast.If):
            for blk in (n.body,):
                if any(isinstance(s, ast.Assign) and
                       src(s.targets[0]) == tvar and
                       src(s.value) == "PathSegmentTypes.INDEX"
                       for s in blk):
                    for s in blk:
                        if isinstance(s, ast.Assign) and \
                                isinstance(s.targets[0], ast.Name) and \
                                pre.get(s.targets[0].id) == src(s.value):
                            opener.add(s.targets[0].id)

    def reads(call: ast.Call) -> Set[str]:
        return {x.id for a in call.args for x in ast.walk(a)
                if isinstance(x, ast.Name) and x.id in state_vars}

    def transfer(stmt: ast.stmt, st, flow):
        pend = set(st)
        if isinstance(stmt, (ast.Assign, ast.AnnAssign, ast.AugAssign)):
            tg = [stmt.target] if not isinstance(stmt, ast.Assign) \
                else stmt.targets
            for t in tg:
                if isinstance(t, ast.Name) and \
                        not isinstance(stmt, ast.AugAssign):
                    pend.discard(t.id)
        for c in ast.walk(stmt):
            if any(c is r for r in recs):
                for v in reads(c):
                    pend.add((v, c.lineno) if False else v)
        return [frozenset(pend)]

    def branch(test: ast.AST, st, flow):
        return [st], [st]
    out = Flow(transfer, branch).run(loop.body, [frozenset()])
    ends = list(out.fall) + list(out.continues)
    leaked: Set[str] = set()
    for e in ends:
        leaked |= set(e)
    consumed: Set[str] = set()
    for r in recs:
        consumed |= reads(r)
    for v in sorted(consumed):
        text = "state `{}` (initially {})".format(v, pre[v])
        if v not in leaked:
            chk.ok(rid, fi, loop, text,
                   "assigned again on every path from each record site to "
                   "the end of the iteration")
        elif v in opener:
            chk.ok(rid, fi, loop, text,
                   "re-initialised by the branch that opens the next "
                   "bracketed segment")
        else:
            chk.fail(rid, fi, loop, text,
                     "a recorded segment consumes `{}` and some path to the "
                     "next character leaves it set: the next segment "
                     "inherits it".format(v))
    for r in recs:
        chk.ok(rid, fi, r, "record @{}".format(r.lineno),
               "consumes {}".format(sorted(reads(r))), False)


def d6_append(chk: Check) -> None:
    """append(): the branch that *replaces* the path text by the bare
    segment is taken exactly when the text is empty.  A non-empty text with
    zero segments ("/") fixes the notation; replacing it loses the leading
    separator and the new text is re-inferred as dot notation."""
    prog = chk.prog
    chk.rule("C08-D6", "YAMLPath.append replaces the text only when it is "
             "empty and otherwise joins with the path's own separator",
             floor=2)
    fi = prog.func("YAMLPath.append")
    chk.analysed(fi)
    seg = fi.params()[1]
    pe = PEval()
    found = 0
    for n in walk_local(fi.node):
        if not isinstance(n, ast.If):
            continue
        repl = [s for s in n.body if isinstance(s, ast.Assign) and
                src(s.value) == seg and
                isinstance(s.targets[0], ast.Attribute)]
        join = [s for s in n.orelse if isinstance(s, ast.AugAssign) and
                isinstance(s.target, ast.Attribute)]
        if not repl or not join:
            continue
        found += 1
        text = "if " + src(n.test)
        problems = []
        for sample in ("", "/", ".", "a", "/a"):
            env = {}
            for attr in ("self._original", "self.original"):
                env[attr] = Const(sample)
                env["len({})".format(attr)] = Const(len(sample))
            t = pe.truth(n.test, env)
            if t is None:
                problems.append("undecidable for text {!r}".format(sample))
            elif t != (sample == ""):
                problems.append("text {!r} {} replaced".format(
                    sample, "is" if t else "is not"))
        if problems:
            chk.fail("C08-D6", fi, n, text,
                     "the replacing branch does not test the emptiness of "
                     "the path text: " + "; ".join(problems[:3]))
        else:
            chk.ok("C08-D6", fi, n, text,
                   "true exactly for the empty text (5 samples)")
        # the join uses the path's own separator (AUTO resolved)
        j = join[0]
        names = [x.id for x in sorted(
            (x for x in ast.walk(j.value) if isinstance(x, ast.Name)
             and x.id not in ("str", "format")),
            key=lambda x: (x.lineno, x.col_offset))]
        lits = [x.value for x in ast.walk(j.value)
                if isinstance(x, ast.Constant) and isinstance(x.value, str)
                and x.value.replace("{}", "")]
        if len(names) == 2 and names[1] == seg and names[0] != seg and \
                not lits:
            chk.ok("C08-D6", fi, j, src(j)[:60],
                   "separator then the new segment")
        else:
            chk.fail("C08-D6", fi, j, src(j)[:60],
                     "the appended text is not <separator><segment>")
    if not found:
        raise AnalysisError("replace/join branches of YAMLPath.append not "
                            "found")


def _from_unescaped(fn: ast.AST) -> Set[str]:
    """Locals holding (parts of / collections of) the unescaped parse and
    nothing of the escaped one."""
    t: Set[str] = set()
    dirty: Set[str] = set()
    for _ in range(4):
        for n in walk_local(fn):
            if isinstance(n, (ast.Assign, ast.AnnAssign)) and \
                    n.value is not None:
                tgt = n.targets[0] if isinstance(n, ast.Assign) else n.target
                if not isinstance(tgt, ast.Name):
                    continue
                v = n.value
                base = v
                while isinstance(base, (ast.Subscript, ast.Call)) and (
                        isinstance(base, ast.Subscript) or (
                            isinstance(base.func, ast.Attribute) and
                            base.func.attr in ("pop", "popleft", "copy"))):
                    base = base.value if isinstance(base, ast.Subscript) \
                        else base.func.value
                if isinstance(base, ast.Attribute) and \
                        base.attr == "unescaped":
                    t.add(tgt.id)
                elif isinstance(base, ast.Name) and base.id in t:
                    t.add(tgt.id)
                elif any(isinstance(x, ast.Attribute) and x.attr == "escaped"
                         for x in ast.walk(v)):
                    dirty.add(tgt.id)
            if isinstance(n, ast.Call) and isinstance(n.func, ast.Attribute) \
                    and n.func.attr in ("append", "appendleft") and \
                    isinstance(n.func.value, ast.Name) and n.args:
                a = n.args[0]
                if isinstance(a, ast.Name) and a.id in t:
                    t.add(n.func.value.id)
                elif not (isinstance(a, ast.Name) and a.id in t):
                    if n.func.value.id in t or True:
                        # something else goes into the collection
                        if not (isinstance(a, ast.Name) and a.id in t):
                            dirty.add(n.func.value.id)
    return t - dirty


def d7_text_and_view(chk: Check) -> None:
    """The path text is stored as given (a blank text becomes the empty
    path, nothing else is trimmed: an escaped trailing space belongs to the
    last key), and every rendering goes through the unescaped parse (the
    stringifier re-adds only some escapes; the others must still be in its
    input)."""
    prog = chk.prog
    chk.rule("C08-D7", "the `original` setter stores the text unchanged "
             "unless it is blank; every call of the stringifier renders "
             "the unescaped parse", floor=8)
    fi = None
    for f in prog.funcs_in("yamlpath/yamlpath.py"):
        if f.is_setter and f.node.name == "original":
            fi = f
    if fi is None:
        raise AnalysisError("YAMLPath.original setter not found")
    chk.analysed(fi)
    value = fi.params()[1]
    pe = PEval()
    for sample in ("", "   ", "a", "a\\ ", " a", "a b", "/a/b\\ "):
        env = {"str({})".format(value): Const(sample), value: Const(sample)}
        pe.specialise(fi.node.body, env)
        st = [v for stmt, v in pe.stored
              if src(stmt.targets[0]).endswith("._original")]
        want = "" if not sample.strip() else sample
        text = "original = {!r}".format(sample)
        if len(st) == 1 and isinstance(st[0], Const) and st[0].value == want:
            chk.ok("C08-D7", fi, fi.node, text, "stored as {!r}".format(want))
        elif len(st) == 1 and isinstance(st[0], Const):
            chk.fail("C08-D7", fi, fi.node, text,
                     "stored as {!r}: the text of the path is altered "
                     "(an escaped trailing space is part of the last key)"
                     .format(st[0].value))
        else:
            raise AnalysisError("original setter not decided for {!r}"
                                .format(sample))
    n = 0
    for f in prog.funcs_in("yamlpath/yamlpath.py"):
        for c in walk_local(f.node):
            if isinstance(c, ast.Call) and src(c.func).endswith(
                    "._stringify_yamlpath_segments") and c.args:
                n += 1
                a0 = c.args[0]
                if (isinstance(a0, ast.Attribute) and a0.attr == "unescaped") \
                        or (isinstance(a0, ast.Name) and
                            a0.id in _from_unescaped(f.node)):
                    chk.ok("C08-D7", f, c, "{}: stringify({})".format(
                        f.short, src(a0)), "unescaped parse")
                else:
                    chk.fail("C08-D7", f, c, "{}: stringify({})".format(
                        f.short, src(a0)),
                        "the stringifier is fed `{}`: escapes it does not "
                        "re-add (a leading `&`, a literal backslash) are "
                        "lost in this rendering but kept in the others"
                        .format(src(a0)))
    if n < 2:
        raise AnalysisError("stringifier call sites not found")


SPACE_SAMPLES = [("a b", "a\\ b"), ("a\\ b", "a\\ b"), ("ab", "ab"),
                 ("a  b", "a\\ \\ b"), ("a\\ b c", "a\\ b\\ c"),
                 (" a", "\\ a")]


def d8_term_spaces(chk: Check) -> None:
    """SearchTerms.__str__ renders the term of the *unescaped* parse, in
    which a space may already carry its backslash.  Every space must leave
    with exactly one: escaping an already escaped space again re-parses as
    a literal backslash."""
    prog = chk.prog
    chk.rule("C08-D8", "the search-term writer leaves every space with "
             "exactly one backslash, whether or not it already had one "
             "(folded over sample terms)", floor=6)
    fi = prog.func("SearchTerms.__str__")
    chk.analysed(fi)
    pe = PEval(enum_classes={"PathSearchMethods"})
    # role: the local that receives the rendered term in the non-regex arm
    for term, want in SPACE_SAMPLES:
        env = {}
        for attr in ("self.term", "self._term"):
            env[attr] = Const(term)
        for attr in ("self.method", "self._method"):
            env[attr] = Enum("PathSearchMethods", "EQUALS")
        res = pe.specialise(fi.node.body, env)
        vals = [pe.value(st.value, env) for st in res
                if isinstance(st, ast.Assign) and
                isinstance(st.targets[0], ast.Name)]
        vals = [v for v in vals if isinstance(v, Const) and
                isinstance(v.value, str)]
        text = "term {!r}".format(term)
        if not vals:
            raise AnalysisError("rendered term not decided for {!r}".format(
                term))
        got = vals[-1].value
        if got == want:
            chk.ok("C08-D8", fi, fi.node, text, "-> {!r}".format(got))
        else:
            chk.fail("C08-D8", fi, fi.node, text,
                     "rendered as {!r}, expected {!r}: the canonical string "
                     "re-parses to a different term".format(got, want))


POP_SAMPLES = [
    # path text, separator, kind of the last segment, its attribute text,
    # the segment rendered alone by the stringifier, text expected after pop
    ("a.b", ".", "KEY", "b", "b", "a"),
    ("a[1]", ".", "INDEX", "1", "[1]", "a"),
    ("a.[1]", ".", "INDEX", "1", "[1]", "a"),
    ("a.&x", ".", "ANCHOR", "x", "&x", "a"),
    ("a[&x]", ".", "ANCHOR", "x", "&x", "a"),
    ("a.[&x]", ".", "ANCHOR", "x", "&x", "a"),
    ("/a/b", "/", "KEY", "b", "/b", "/a"),
    ("/a[&x]", "/", "ANCHOR", "x", "/&x", "/a"),
    ("/a/[&x]", "/", "ANCHOR", "x", "/&x", "/a"),
    # the new last key ends in an (escaped) separator character that is its
    # own: only the one joining separator goes with the popped segment
    ("v1\\..name", ".", "KEY", "name", "name", "v1\\."),
    ("/v1\\//name", "/", "KEY", "name", "/name", "/v1\\/"),
]


def d9_pop_forms(chk: Check) -> None:
    """pop() removes the last segment by cutting its rendering off the end
    of the text.  A segment can end the text in several spellings (an
    anchor after another segment is `[&name]`, alone it is `&name`; the
    evaluator's translated paths put the separator before a bracket).  The
    ladder that finds the suffix is folded over one sample per spelling."""
    prog = chk.prog
    chk.rule("C08-D9", "pop() cuts the last segment off the text in every "
             "spelling it can have at the end of a path (folded over "
             "samples)", floor=9)
    fi = prog.func("YAMLPath.pop")
    chk.analysed(fi)
    # roles: the local compared first is `<sep><rendering>`, the rendering
    # itself comes from the stringifier call
    rend = None
    for n in walk_local(fi.node):
        if isinstance(n, ast.Assign) and isinstance(n.value, ast.Call) and \
                src(n.value.func).endswith("_stringify_yamlpath_segments"):
            rend = src(n.targets[0])
    seg = None
    for n in walk_local(fi.node):
        if isinstance(n, (ast.Assign, ast.AnnAssign)) and n.value is not None \
                and isinstance(n.value, ast.Call) and \
                src(n.value.func).endswith(".pop"):
            seg = src(n.targets[0] if isinstance(n, ast.Assign) else n.target)
    txt = None
    for n in walk_local(fi.node):
        if isinstance(n, ast.Assign) and src(n.value) == "self.original":
            txt = src(n.targets[0])
    if not (rend and seg and txt):
        raise AnalysisError("roles of YAMLPath.pop not found")
    pe = PEval(enum_classes={"PathSegmentTypes", "PathSeparators"})
    start = None
    for i, st in enumerate(fi.node.body):
        if isinstance(st, ast.Assign) and src(st.targets[0]) == txt:
            start = i
    body = fi.node.body[start + 1:] if start is not None else fi.node.body
    # statements between the rendering and the text read still matter
    rend_at = next((i for i, st in enumerate(fi.node.body)
                    if isinstance(st, ast.Assign) and
                    src(st.targets[0]) == rend), -1)
    pre = list(fi.node.body[rend_at + 1:start or 0])
    for text, sep, kind, attr, alone, want in POP_SAMPLES:
        env = {txt: Const(text), rend: Const(alone),
               "self.separator": Const(sep), "str(self.separator)": Const(sep),
               seg + "[0]": Enum("PathSegmentTypes", kind),
               seg + "[1]": Const(attr)}
        pe.specialise(pre + body, env,
                      pinned=[txt, rend, "self", seg])
        st = [v for stmt, v in pe.stored
              if src(stmt.targets[0]) == "self.original"]
        label = "pop() of {!r} ({} last)".format(text, kind)
        if len(st) == 1 and isinstance(st[0], Const):
            got = st[0].value
        elif not st:
            got = text       # no branch taken: the text is left as it was
        else:
            raise AnalysisError(label + " not decided by folding")
        if got == want:
            chk.ok("C08-D9", fi, fi.node, label, "-> {!r}".format(got))
        else:
            chk.fail("C08-D9", fi, fi.node, label,
                     "leaves the text {!r}, expected {!r}: the popped "
                     "segment stays in the path text (append-then-pop does "
                     "not restore the path; parent() reports the child's "
                     "path for the parent)".format(got, want))


QUOTE_SAMPLES = [("'ghi'", "ghi"), ('"ghi"', "ghi"), ("'\\'ghi'", "\\'ghi"),
                 ("'ghi\\''", "ghi\\'"), ("''", ""), ("'a", "'a"),
                 ("plain", "plain")]


def d10_unquote(chk: Check) -> None:
    """A quoted search term loses exactly its two demarcation marks: one
    character at each end.  (The marks inside -- an escaped quote at either
    end of the term -- belong to the term.)"""
    prog = chk.prog
    chk.rule("C08-D10", "un-demarcating a quoted search term removes "
             "exactly one mark at each end (folded over sample terms)",
             floor=7)
    roles = parser_roles(prog)
    fi = roles["fi"]
    idv = _text_var(roles)
    # the statement: `if <id> and <id>[0] in [quotes]: ...`
    stmts = [n for n in walk_local(roles["loop"]) if isinstance(n, ast.If)
             and src(n.test).replace(" ", "").startswith(
                 "{0}and{0}[0]in".format(idv))]
    if len(stmts) != 1:
        raise AnalysisError("un-demarcation statement not found")
    pe = PEval()
    for raw, want in QUOTE_SAMPLES:
        pe.specialise([stmts[0]], {idv: Const(raw)})
        v = pe.final_env.get(idv)
        text = "term text {!r}".format(raw)
        if not isinstance(v, Const):
            raise AnalysisError(text + " not decided by folding")
        if v.value == want:
            chk.ok("C08-D10", fi, stmts[0], text, "-> {!r}".format(v.value))
        else:
            chk.fail("C08-D10", fi, stmts[0], text,
                     "becomes {!r}, expected {!r}: characters of the term "
                     "itself are removed with the demarcation".format(
                         v.value, want))



def d11_stack_top(chk: Check) -> None:
    """What a character means depends on the *innermost* open demarcation:
    a stack is consulted at its top.  Reading any other position (the
    outermost, `[0]`) agrees with the top only while the nesting is one
    deep -- which is all the pinned literal paths ever exercise."""
    from sa.stackstate import find_stacks
    prog = chk.prog
    chk.rule("C08-D11", "every element read of a parser's demarcation stack "
             "reads its top (`[-1]`)", floor=8)
    for name in ("YAMLPath._parse_path", "SearchKeywordTerms.parameters"):
        fi = prog.func(name)
        for stack, _ in find_stacks(fi):
            for n in walk_local(fi.node):
                if not (isinstance(n, ast.Subscript) and
                        isinstance(n.value, ast.Name) and
                        n.value.id == stack and
                        isinstance(n.ctx, ast.Load)):
                    continue
                idx = src(n.slice)
                text = "{}: read of the stack at [{}]".format(fi.short, idx)
                if idx == "-1":
                    chk.ok("C08-D11", fi, n, text, "the innermost open "
                           "demarcation", False)
                else:
                    chk.fail("C08-D11", fi, n, text,
                             "the parser decides on position [{}] of its "
                             "demarcation stack, not on the innermost open "
                             "demarcation: inside nested demarcation (a "
                             "quote inside brackets, brackets inside a "
                             "quote) the character is misread".format(idx))


def d12_quoted_text_is_literal(chk: Check, rid: str = "C08-D12") -> None:
    """Text between quotes is literal: that is the documented way to write
    a key that contains `*` (or any other operator character).  The
    post-lexing rewriting of a segment (`_expand_splats`: `*` -> match-all,
    `a*b` -> regular-expression search) therefore applies to segments
    accumulated *outside* quotes only; the quote-closing arm records the
    pair (type, text) as it stands."""
    prog = chk.prog
    chk.rule(rid, "no rewriting of segment text (_expand_splats) in the arm "
             "of the parser that closes a quoted segment; that arm records "
             "the (type, text) pair verbatim", floor=3)
    roles = parser_roles(prog)
    fi = roles["fi"]
    char = roles["char"]

    def quote_arm(node: ast.AST) -> bool:
        for f in facts_at(node):
            if f.kind != "cond" or not f.pol:
                continue
            e = f.expr
            if isinstance(e, ast.Compare) and len(e.ops) == 1 and \
                    isinstance(e.ops[0], ast.In) and src(e.left) == char \
                    and isinstance(e.comparators[0], (ast.List, ast.Tuple)):
                vals = {x.value for x in e.comparators[0].elts
                        if isinstance(x, ast.Constant)}
                if vals and vals <= {"'", '"'}:
                    return True
        return False
    n_calls = 0
    for c in walk_local(fi.node):
        if isinstance(c, ast.Call) and src(c.func).endswith("_expand_splats"):
            n_calls += 1
            text = "{}: `{}`".format(fi.short, src(c)[:50])
            if quote_arm(c):
                chk.fail(rid, fi, c, text,
                         "the text of a quoted segment is handed to the "
                         "wildcard rewriting: a quoted key containing `*` "
                         "is no longer literal (`\"api*\"` also selects "
                         "`apiary`)")
            else:
                chk.ok(rid, fi, c, text, "outside the quote-closing arm")
    recorded = 0
    for c in walk_local(fi.node):
        if isinstance(c, ast.Call) and src(c.func).endswith(".append") and \
                quote_arm(c) and c.args and \
                src(c.func.value) != roles["stack"]:  # type: ignore
            recorded += 1
            a = c.args[0]
            text = "{}: quote-closing arm records `{}`".format(
                fi.short, src(a)[:40])
            if isinstance(a, ast.Tuple) and len(a.elts) == 2 and all(
                    isinstance(x, ast.Name) for x in a.elts):
                chk.ok(rid, fi, c, text, "the pair as it stands")
            else:
                chk.fail(rid, fi, c, text,
                         "the quote-closing arm records something other "
                         "than the (type, text) pair it accumulated")
    if n_calls < 2 or recorded < 1:
        raise AnalysisError("parser: {} rewriting calls, {} quote-closing "
                            "records".format(n_calls, recorded))


def d13_separator_belongs_to_text(chk: Check) -> None:
    """A path object's separator describes *its own* text.  It is either
    forced by the caller (a parameter), unknown (AUTO), or inferred from the
    object's own `_original`; the `separator` setter changes it only
    together with a re-rendering of the text.  Taking the separator from
    another object (a copy constructor that copies `.separator` while the
    text stays in the old notation) makes the text parse on the wrong
    character: the copy of a path has other segments than the path."""
    prog = chk.prog
    chk.rule("C08-D13", "every store to a path's separator is a parameter "
             "of the storing function, AUTO, or the inference from the "
             "object's own text", floor=4)
    n = 0
    for fi in prog.funcs_in("yamlpath/yamlpath.py"):
        for a in walk_local(fi.node):
            if not isinstance(a, (ast.Assign, ast.AnnAssign)):
                continue
            tgts = a.targets if isinstance(a, ast.Assign) else [a.target]
            if not any(src(t) == "self._separator" for t in tgts) or \
                    a.value is None:
                continue
            n += 1
            v = a.value
            ok = (isinstance(v, ast.Name) and v.id in fi.params()) or \
                src(v) == "PathSeparators.AUTO" or (
                    isinstance(v, ast.Call) and
                    src(v.func) == "PathSeparators.infer_separator" and
                    len(v.args) == 1 and src(v.args[0]) == "self._original")
            text = "{}: self._separator = {}".format(fi.short, src(v)[:40])
            if ok:
                chk.ok("C08-D13", fi, a, text, "own parameter / AUTO / "
                       "inferred from own text")
            else:
                chk.fail("C08-D13", fi, a, text,
                         "the separator is taken from `{}`, not from this "
                         "object's own text or the caller's choice: text "
                         "and separator can disagree, and the path then "
                         "splits on the wrong character".format(src(v)[:40]))
    if n < 4:
        raise AnalysisError("stores to the path separator not found")


def d14_only_self_escapes(chk: Check) -> None:
    """The reader knows one escape: a backslash makes the *next character*
    plain text.  It has no named escapes (`\\n`, `\\t`, `\\x..`), so
    the only rewriting of segment text the writer may do is `c` -> `\\c`.
    Any other replacement (a line break shown as `\\n`, a tab as a blank)
    gives canonical text that parses to a different segment."""
    prog = chk.prog
    chk.rule("C08-D14", "every constant replacement the path writer applies "
             "to segment text has the form c -> backslash + c", floor=2)
    writers = [prog.func("YAMLPath._stringify_yamlpath_segments")]
    for q in ("SearchTerms.__str__", "CollectorTerms.__str__",
              "SearchKeywordTerms.__str__"):
        try:
            writers.append(prog.func(q))
        except Exception:  # pylint: disable=broad-except
            pass
    n = 0
    for fi in writers:
        chk.analysed(fi)
        for c in ast.walk(fi.node):
            if not (isinstance(c, ast.Call) and
                    isinstance(c.func, ast.Attribute) and
                    c.func.attr == "replace" and len(c.args) >= 2 and
                    all(isinstance(a, ast.Constant) and
                        isinstance(a.value, str) for a in c.args[:2])):
                continue
            a, b = c.args[0].value, c.args[1].value
            n += 1
            text = "{}: .replace({!r}, {!r})".format(fi.short, a, b)
            if b == "\\" + a:
                chk.ok("C08-D14", fi, c, text, "the character escaped by "
                       "itself")
            else:
                chk.fail("C08-D14", fi, c, text,
                         "the parser undoes only a backslash followed by "
                         "the character itself: {!r} written as {!r} reads "
                         "back as different text, so str(path) no longer "
                         "names the same segment".format(a, b))


def d15_closer_matches_opener(chk: Check) -> None:
    """A closing character ends the demarcation that is innermost *if that
    is its own kind*: `)` closes a Collector only when the innermost open
    mark is `(`.  An arm that records a segment on a closing character
    without looking at the top of the stack lets a `)` inside quotes or
    inside a `[...]` expression of the Collector end the Collector early:
    `("a)b")` and `(users[note="ok :)"].name)` stop being parseable."""
    prog = chk.prog
    chk.rule("C08-D15", "an arm of the parser that pops the demarcation "
             "stack and records a segment for a closing character tests "
             "that the innermost open mark is the matching opener",
             floor=2)
    roles = parser_roles(prog)
    fi, char, stack = roles["fi"], roles["char"], roles["stack"]
    openers = {")": "(", "]": "["}
    n = 0
    for arm in walk_local(roles["loop"]):
        if not isinstance(arm, ast.If):
            continue
        pops = [c for st in arm.body for c in ast.walk(st)
                if isinstance(c, ast.Call) and
                src(c.func) == stack + ".pop"]
        records = [c for st in arm.body for c in ast.walk(st)
                   if isinstance(c, ast.Call) and
                   isinstance(c.func, ast.Attribute) and
                   c.func.attr == "append" and src(c.func.value) != stack]
        # the arm's own test (conjunction)
        conj = arm.test.values if isinstance(arm.test, ast.BoolOp) and \
            isinstance(arm.test.op, ast.And) else [arm.test]
        closing = None
        for t in conj:
            if isinstance(t, ast.Compare) and len(t.ops) == 1 and \
                    isinstance(t.ops[0], ast.Eq) and src(t.left) == char \
                    and isinstance(t.comparators[0], ast.Constant) and \
                    t.comparators[0].value in openers:
                closing = t.comparators[0].value
        if not (pops and records and closing):
            continue
        n += 1
        want = openers[closing]
        ok = any(isinstance(t, ast.Compare) and len(t.ops) == 1 and
                 isinstance(t.ops[0], ast.Eq) and
                 {src(t.left), src(t.comparators[0])} ==
                 {stack + "[-1]", repr(want)} or
                 isinstance(t, ast.Compare) and
                 {src(t.left), src(t.comparators[0])} ==
                 {stack + "[-1]", '"{}"'.format(want)}
                 for t in conj)
        text = "arm recording a segment on {!r}".format(closing)
        if ok:
            chk.ok("C08-D15", fi, arm, text,
                   "requires {}[-1] == {!r}".format(stack, want))
        else:
            chk.fail("C08-D15", fi, arm, text,
                     "the arm does not test that the innermost open mark is "
                     "{!r}: a {!r} inside quotes or inside another "
                     "demarcation ends this one early, so text that was "
                     "parseable (`(\"a)b\")`) is refused or split "
                     "differently".format(want, closing))
    if n < 2:
        raise AnalysisError("closing arms that record a segment: {}".format(n))


def d16_terms_store_what_they_are_given(chk: Check) -> None:
    """The terms objects (SearchTerms, CollectorTerms, SearchKeywordTerms)
    are the segment attributes; `__str__` writes their fields back as path
    text *verbatim*.  Whatever the parser hands to the constructor must
    therefore be kept as given: a constructor that tidies an argument
    (strips quotes from a search attribute, say) drops something the
    writer cannot put back, and `["unit price"=10]` is written as
    `[unit price=10]`, which reads back as another attribute."""
    prog = chk.prog
    chk.rule("C08-D16", "the constructors of the terms classes store every "
             "text argument unchanged (parameter not re-bound, field "
             "assigned from the bare parameter)", floor=6)
    n = 0
    for cls in ("SearchTerms", "CollectorTerms", "SearchKeywordTerms"):
        fi = prog.func(cls + ".__init__")
        chk.analysed(fi)
        params = [p_ for p_ in fi.params() if p_ != "self"]
        rebound = {}
        for x in walk_local(fi.node):
            if isinstance(x, ast.Name) and isinstance(x.ctx, ast.Store) and \
                    x.id in params:
                rebound.setdefault(x.id, x)
        stored = {}
        for a in walk_local(fi.node):
            if isinstance(a, (ast.Assign, ast.AnnAssign)):
                tg = a.targets[0] if isinstance(a, ast.Assign) else a.target
                if isinstance(tg, ast.Attribute) and src(tg.value) == "self" \
                        and a.value is not None:
                    for p_ in params:
                        if any(isinstance(y, ast.Name) and y.id == p_
                               for y in ast.walk(a.value)):
                            stored.setdefault(p_, []).append(a)
        for p_ in params:
            n += 1
            text = "{}.__init__: `{}`".format(cls, p_)
            if p_ in rebound:
                chk.fail("C08-D16", fi, rebound[p_], text,
                         "the argument is re-bound before it is stored: "
                         "what the writer prints is no longer what the "
                         "parser read, so the canonical text of the path "
                         "parses to other segments")
            elif any(src(a.value) != p_ for a in stored.get(p_, [])):
                bad = [a for a in stored[p_] if src(a.value) != p_][0]
                chk.fail("C08-D16", fi, bad, text,
                         "stored as `{}`, not as given".format(
                             src(bad.value)[:40]))
            elif p_ in stored:
                chk.ok("C08-D16", fi, stored[p_][0], text, "stored as given")
            else:
                chk.ok("C08-D16", fi, fi.node, text, "not stored", False)
    if n < 6:
        raise AnalysisError("terms constructor arguments: {}".format(n))


def d17_anchor_mark_armed_at_every_separator(chk: Check) -> None:
    """After a segment separator the next character may be the `&` of an
    Anchor segment; the flag that lets the `&` arm recognise it is set at
    *every* separator, whether or not text was pending.  If it is set only
    when the separator completes a plain key, `a[0].&b` (separator after a
    self-closing segment) parses as the KEY `&b`, no longer equals
    `a[0][&b]`, and `(a).&b` is refused."""
    prog = chk.prog
    chk.rule("C08-D17", "the separator arm of the parser arms the anchor "
             "mark unconditionally", floor=1)
    roles = parser_roles(prog)
    fi, char, sep, loop = roles["fi"], roles["char"], roles["sep"], \
        roles["loop"]
    flag = None
    for st in walk_local(loop):
        if isinstance(st, ast.If) and isinstance(st.test, ast.BoolOp) and \
                any(isinstance(v, ast.Compare) and src(v.left) == char and
                    isinstance(v.comparators[0], ast.Constant) and
                    v.comparators[0].value == "&" for v in st.test.values):
            names = [v.id for v in st.test.values if isinstance(v, ast.Name)]
            if names:
                flag = names[0]
    if flag is None:
        raise AnalysisError("anchor-mark flag of the parser not found")
    arms = [st for st in walk_local(loop) if isinstance(st, ast.If) and
            "{} == {}".format(char, sep) in src(st.test)]
    if not arms:
        raise AnalysisError("separator arm of the parser not found")
    for arm in arms:
        direct = [a for a in arm.body if isinstance(a, ast.Assign) and
                  src(a.targets[0]) == flag and src(a.value) == "True"]
        text = "separator arm: {} = True".format(flag)
        if direct:
            chk.ok("C08-D17", fi, direct[0], text, "on every path")
        else:
            chk.fail("C08-D17", fi, arm, text,
                     "the flag is armed only on some paths through the "
                     "separator arm: an Anchor written after a bracketed, "
                     "quoted or Collector segment (`a[0].&b`) is read as "
                     "the key `&b`")


def d18_every_occurrence_is_escaped(chk: Check) -> None:
    """`ensure_escaped` escapes every bare occurrence of each symbol and
    leaves the already escaped ones alone -- occurrence by occurrence (it
    splits on the escaped form and escapes within the pieces).  A shortcut
    that skips a symbol altogether once *one* escaped occurrence is present
    leaves the bare ones bare: the key `b c\\ d` is rendered as it is and
    re-parses as `bc d`."""
    prog = chk.prog
    chk.rule("C08-D18", "the per-symbol loop of ensure_escaped has no "
             "continue / break (no symbol is skipped as a whole)", floor=1)
    fi = prog.func("YAMLPath.ensure_escaped")
    loops = [l for l in fi.node.body if isinstance(l, ast.For)]
    if len(loops) != 1:
        raise AnalysisError("symbol loop of ensure_escaped not found")
    jumps = [j for j in walk_local(loops[0])
             if isinstance(j, (ast.Continue, ast.Break)) and
             next((a for a in ancestors(j) if isinstance(a, ast.For)),
                  None) is loops[0]]
    text = "ensure_escaped: for {} in {}".format(src(loops[0].target),
                                                 src(loops[0].iter))
    if jumps:
        chk.fail("C08-D18", fi, jumps[0], text,
                 "a symbol is skipped as a whole under some condition: its "
                 "bare occurrences stay unescaped when an escaped one is "
                 "present, so the rendered key splits or loses characters "
                 "when it is parsed again")
    else:
        chk.ok("C08-D18", fi, loops[0], text, "every symbol, every piece")


def run(chk: Check) -> None:
    d1_automaton(chk)
    d2_stringifier(chk)
    d3_escapes(chk)
    d4_equality(chk)
    d5_rearm(chk)
    d6_append(chk)
    d7_text_and_view(chk)
    d8_term_spaces(chk)
    d9_pop_forms(chk)
    d10_unquote(chk)
    d11_stack_top(chk)
    d12_quoted_text_is_literal(chk)
    d13_separator_belongs_to_text(chk)
    d14_only_self_escapes(chk)
    d15_closer_matches_opener(chk)
    d16_terms_store_what_they_are_given(chk)
    d17_anchor_mark_armed_at_every_separator(chk)
    d18_every_occurrence_is_escaped(chk)
