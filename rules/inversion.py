"""Shared rule: an inverted search is the complement of the plain search.

A *match site* is an ``if`` / conditional-expression test that is a boolean
combination of exactly two atoms, one of which plays the inversion role
(``invert``, ``terms.inverted`` or a local assigned from ``.inverted``).
Its truth table over (matched, inverted) must be XOR.
"""
from __future__ import annotations

import ast
from typing import List, Optional, Set, Tuple

from sa.boolean import NotBoolean, truth_table
from sa.model import FuncInfo, src, walk_local


def inversion_atoms(fi: FuncInfo) -> Set[str]:
    out: Set[str] = set()
    a = fi.node.args
    for arg in a.posonlyargs + a.args:
        if arg.arg in ("invert", "inverted"):
            out.add(arg.arg)
    for n in walk_local(fi.node):
        if isinstance(n, ast.Attribute) and n.attr == "inverted":
            out.add(src(n))
        if isinstance(n, (ast.Assign, ast.AnnAssign)):
            tgt = n.targets[0] if isinstance(n, ast.Assign) else n.target
            if isinstance(tgt, ast.Name) and n.value is not None and \
                    isinstance(n.value, ast.Attribute) and \
                    n.value.attr == "inverted":
                out.add(tgt.id)
    return out


def _bool_atoms(test: ast.AST) -> Optional[List[str]]:
    """Leaves of a boolean combination (and/or/not/ifexp); None when the
    test contains anything else at the top of a leaf."""
    atoms: List[str] = []

    def rec(e: ast.AST) -> None:
        if isinstance(e, ast.BoolOp):
            for v in e.values:
                rec(v)
        elif isinstance(e, ast.UnaryOp) and isinstance(e.op, ast.Not):
            rec(e.operand)
        elif isinstance(e, ast.BinOp) and isinstance(e.op, ast.BitXor):
            rec(e.left)
            rec(e.right)
        elif isinstance(e, ast.Compare) and len(e.ops) == 1 and \
                isinstance(e.ops[0], (ast.Eq, ast.NotEq, ast.Is, ast.IsNot)) \
                and isinstance(e.left, (ast.Name, ast.Attribute)) and \
                isinstance(e.comparators[0], (ast.Name, ast.Attribute)):
            rec(e.left)
            rec(e.comparators[0])
        else:
            s = src(e)
            if s not in atoms:
                atoms.append(s)
    rec(test)
    return atoms


def match_sites(fi: FuncInfo) -> List[Tuple[ast.AST, ast.AST, str, str]]:
    """(site node, test, matched atom, inversion atom)."""
    inv = inversion_atoms(fi)
    out = []
    if not inv:
        return out
    for n in walk_local(fi.node):
        test = None
        if isinstance(n, (ast.If, ast.IfExp, ast.While)):
            test = n.test
        elif isinstance(n, ast.Assign) and isinstance(
                n.value, (ast.BoolOp, ast.UnaryOp, ast.Compare)):
            test = n.value
        if test is None:
            continue
        atoms = _bool_atoms(test)
        if atoms is None or len(atoms) != 2:
            continue
        ia = [a for a in atoms if a in inv]
        if len(ia) != 1:
            continue
        ma = [a for a in atoms if a not in inv][0]
        out.append((n, test, ma, ia[0]))
    out.extend(_flip_sites(fi, inv))
    return out


def flips_of(fi: FuncInfo) -> dict:
    """`if M:` statements of ``fi`` judged through the flip idiom (by id)
    -> the flip statement."""
    if not hasattr(fi, "_flips"):
        fi._flips = {}                       # type: ignore[attr-defined]
        _flip_sites(fi, inversion_atoms(fi))
    return fi._flips                         # type: ignore[attr-defined]


def _flip_sites(fi: FuncInfo, inv: Set[str]
                ) -> List[Tuple[ast.AST, ast.AST, str, str]]:
    """The flip idiom::

        if I:
            M = not M
        if M: ...

    is (M XOR I) as well -- provided M was computed for the element at hand
    (stale_verdicts checks the read in the flip).  The second `if` is
    reported as a match site with the synthetic test `(M and not I) or (I
    and not M)`."""
    out = []
    if not hasattr(fi, "_flips"):
        fi._flips = {}                       # type: ignore[attr-defined]
    for n in walk_local(fi.node):
        for fld in ("body", "orelse", "finalbody"):
            blk = getattr(n, fld, None)
            if not isinstance(blk, list):
                continue
            for a, b in zip(blk, blk[1:]):
                if not (isinstance(a, ast.If) and not a.orelse and
                        len(a.body) == 1 and src(a.test) in inv and
                        isinstance(a.body[0], ast.Assign) and
                        len(a.body[0].targets) == 1 and
                        isinstance(a.body[0].targets[0], ast.Name) and
                        isinstance(a.body[0].value, ast.UnaryOp) and
                        isinstance(a.body[0].value.op, ast.Not) and
                        src(a.body[0].value.operand) ==
                        a.body[0].targets[0].id):
                    continue
                m = a.body[0].targets[0].id
                if isinstance(b, ast.If) and src(b.test) == m:
                    i = src(a.test)
                    if not i.isidentifier():
                        continue
                    synth = ast.parse("({m} and not {i}) or ({i} and not "
                                      "{m})".format(m=m, i=i),
                                      mode="eval").body
                    fi._flips[id(b)] = a     # type: ignore[attr-defined]
                    out.append((b, synth, m, i))
    return out


def check_xor(test: ast.AST, matched: str, inverted: str) -> Optional[bool]:
    try:
        tt = truth_table(test, [matched, inverted])
    except NotBoolean:
        return None
    return all(tt[(m, i)] == (m != i)
               for m in (False, True) for i in (False, True))


def unjudged_loops(fi: FuncInfo, data: str
                   ) -> List[Tuple[ast.For, str, bool]]:
    """For every loop over the children of ``data`` in ``fi``: (loop, child
    variable, every path through one iteration *judges* the child).

    Judged means: a (matched XOR inverted) test is evaluated, or a result
    record built from the child (``NodeCoords(child, ...)``) is yielded or
    put into a collection.  A path that leaves the iteration without either
    drops the candidate from the result *and* from its complement, so the
    inverted query is no longer the complement of the plain one."""
    from sa.flow import Flow
    sites = {id(s[0]) for s in match_sites(fi)
             if check_xor(s[1], s[2], s[3])}
    out: List[Tuple[ast.For, str, bool]] = []
    for loop in walk_local(fi.node):
        if not isinstance(loop, ast.For):
            continue
        itn = loop.iter
        # an ordering / snapshot wrapper enumerates the same children
        while isinstance(itn, ast.Call) and isinstance(itn.func, ast.Name) \
                and itn.func.id in ("sorted", "list", "reversed", "tuple") \
                and itn.args:
            itn = itn.args[0]
        it = src(itn)
        if it not in ("enumerate({})".format(data), "{}.items()".format(data),
                      data, "{}.non_merged_items()".format(data)):
            continue
        tgt = loop.target
        names = [src(e) for e in tgt.elts] if isinstance(tgt, ast.Tuple) \
            else [src(tgt)]
        child = names[-1]
        # locals derived from the child inside the body (unwrapped element)
        for n in walk_local(loop):
            if isinstance(n, ast.Assign) and len(n.targets) == 1 and \
                    isinstance(n.targets[0], ast.Name) and \
                    isinstance(n.value, ast.Call) and n.value.args and \
                    src(n.value.args[0]) == child and \
                    src(n.value.func).endswith("unwrap_node_coords"):
                names = names + [n.targets[0].id]

        def records(stmt: ast.AST, names=names) -> bool:
            for c in ast.walk(stmt):
                if isinstance(c, ast.Call) and src(c.func) == "NodeCoords" \
                        and c.args and any(
                            isinstance(x, ast.Name) and x.id in names
                            for x in ast.walk(c.args[0])):
                    return True
            return False

        def transfer(stmt: ast.stmt, st, flow):
            if records(stmt):
                return [True]
            if isinstance(stmt, ast.Assign) and id(stmt) in sites:
                return [True]
            return [st]

        def branch(test: ast.AST, st, flow):
            from sa.model import parent
            p = parent(test)
            if p is not None and id(p) in sites:
                return [True], [True]
            return [st], [st]
        res = Flow(transfer, branch).run(loop.body, [False])
        ends = list(res.fall) + list(res.continues) + list(res.breaks) + \
            [st for st, _ in res.returns]
        out.append((loop, child, bool(ends) and all(ends)))
    return out


def lone_match_tests(fi: FuncInfo) -> List[ast.AST]:
    """Tests that consult the result of a comparison (a variable assigned
    from ``search_matches``) without the inversion flag: deciding on the
    raw match alone is only right for a search that is never inverted."""
    matched = set()
    for n in walk_local(fi.node):
        if isinstance(n, ast.Assign) and isinstance(n.targets[0], ast.Name):
            if any(isinstance(c, ast.Call) and
                   src(c.func).endswith("search_matches")
                   for c in ast.walk(n.value)):
                matched.add(n.targets[0].id)
    inv = inversion_atoms(fi)
    out: List[ast.AST] = []
    for n in walk_local(fi.node):
        test = None
        if isinstance(n, (ast.If, ast.IfExp, ast.While)):
            test = n.test
        if test is None:
            continue
        names = {x.id for x in ast.walk(test) if isinstance(x, ast.Name)}
        if id(n) in flips_of(fi):
            continue        # judged through the flip idiom (match_sites)
        if names & matched and not (names & set(inv)):
            from sa.views import _in_message
            if isinstance(n, ast.IfExp) and _in_message(n, fi.node):
                continue    # wording of a log message
            out.append(n)
    return out


def exhausting_loops(fi: FuncInfo, data: str
                     ) -> List[Tuple[ast.For, List[ast.AST]]]:
    """(loop over the children of ``data``, early exits bound to it)."""
    from sa.model import ancestors
    out = []
    for loop in walk_local(fi.node):
        if not isinstance(loop, ast.For):
            continue
        itn = loop.iter
        while isinstance(itn, ast.Call) and isinstance(itn.func, ast.Name) \
                and itn.func.id in ("sorted", "list", "reversed", "tuple") \
                and itn.args:
            itn = itn.args[0]
        it = src(itn)
        if it not in ("enumerate({})".format(data), "{}.items()".format(data),
                      data, "{}.non_merged_items()".format(data)) and \
                not it.startswith("range("):
            continue
        exits = [b for b in walk_local(loop)
                 if isinstance(b, (ast.Break, ast.Return)) and
                 next((a for a in ancestors(b)
                       if isinstance(a, (ast.For, ast.While))), None) is loop]
        out.append((loop, exits))
    return out



def stale_verdicts(fi: FuncInfo) -> Tuple[List[Tuple[ast.AST, str]], int]:
    """A match test that sits inside an element loop must judge a verdict
    computed *for that element*: on every path from the top of the loop
    body to the test, the matched flag has been assigned.  A path on which
    it has not (an inner search loop that finds nothing, an `if` with no
    `else`) leaves the verdict of the previous element in the flag.

    Returns (offending (test site, flag), number of in-loop tests judged).
    """
    from sa.flow import Flow
    from sa.model import ancestors
    bad: List[Tuple[ast.AST, str]] = []
    n = 0
    for site, test, matched, _inv in match_sites(fi):
        if not (isinstance(matched, str) and matched.isidentifier()):
            continue
        loops = [a for a in ancestors(site)
                 if isinstance(a, (ast.For, ast.While)) and
                 any(x is a for x in walk_local(fi.node))]
        if not loops:
            continue
        loop = loops[0]          # innermost enclosing loop
        # the flag as loop target is assigned per iteration by construction
        if any(isinstance(x, ast.Name) and x.id == matched
               for x in ast.walk(getattr(loop, "target", ast.Tuple(elts=[])))):
            continue
        n += 1
        stale = {"hit": False}
        # flip idiom: the flag is first read by the flip statement
        if id(site) in flips_of(fi):
            test = flips_of(fi)[id(site)].test

        def scan(expr: ast.AST, st, test=test) -> None:
            if st:
                return
            for x in ast.walk(expr):
                if x is test:
                    stale["hit"] = True

        def transfer(stmt: ast.stmt, st, flow):
            if isinstance(stmt, (ast.Assign, ast.AnnAssign, ast.AugAssign)):
                tgts = stmt.targets if isinstance(stmt, ast.Assign) \
                    else [stmt.target]
                if isinstance(stmt, ast.Assign) and id(stmt) == id(site):
                    scan(stmt.value, st)
                if any(isinstance(x, ast.Name) and x.id == matched
                       for t in tgts for x in ast.walk(t)):
                    return [True]
            return [st]

        def branch(tst: ast.AST, st, flow):
            scan(tst, st)
            return [st], [st]
        Flow(transfer, branch).run(loop.body, [False])
        if stale["hit"]:
            bad.append((site, matched))
    return bad, n


def constant_verdicts(fi: FuncInfo) -> Tuple[List[ast.Assign], int]:
    """Assignments of a *constant* to a matched flag inside an element
    loop.  A verdict is the result of a comparison; a constant is legitimate
    only as the reset that directly precedes an inner search loop which may
    overwrite it ("nothing found -> no match").  A constant verdict in an
    arm of its own decides, without comparing anything, that a whole class
    of elements does not match -- and, inverted, that all of them do.

    Returns (offending assignments, number of constant assignments seen).
    """
    from sa.model import ancestors, parent
    flags = {m for _s, _t, m, _i in match_sites(fi)
             if isinstance(m, str) and m.isidentifier()}
    bad: List[ast.Assign] = []
    n = 0
    for a in walk_local(fi.node):
        if not (isinstance(a, ast.Assign) and len(a.targets) == 1 and
                isinstance(a.targets[0], ast.Name) and
                a.targets[0].id in flags and
                isinstance(a.value, ast.Constant)):
            continue
        if not any(isinstance(x, (ast.For, ast.While)) for x in ancestors(a)):
            continue        # initial value before the loops
        n += 1
        owner = parent(a)
        blk = None
        for fld in ("body", "orelse", "finalbody"):
            b = getattr(owner, fld, None)
            if isinstance(b, list) and a in b:
                blk = b
        rest = blk[blk.index(a) + 1:] if blk else []
        reset = any(
            isinstance(st, (ast.For, ast.While)) and any(
                isinstance(x, ast.Assign) and len(x.targets) == 1 and
                src(x.targets[0]) == a.targets[0].id
                for x in ast.walk(st))
            for st in rest)
        if not reset:
            bad.append(a)
    return bad, n
