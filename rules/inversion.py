"""Shared rule: an inverted search is the complement of the plain search.

A *match site* is an ``if`` / conditional-expression test that is a boolean
combination of exactly two atoms, one of which plays the inversion role
(``invert``, ``terms.inverted`` or a local assigned from ``.inverted``).
Its truth table over (matched, inverted) must be XOR.
"""
from __future__ import annotations

import ast
from typing import List, Optional, Set, Tuple

from sa.boolean import NotBoolean, truth_table
from sa.model import FuncInfo, src, walk_local


def inversion_atoms(fi: FuncInfo) -> Set[str]:
    out: Set[str] = set()
    a = fi.node.args
    for arg in a.posonlyargs + a.args:
        if arg.arg in ("invert", "inverted"):
            out.add(arg.arg)
    for n in walk_local(fi.node):
        if isinstance(n, ast.Attribute) and n.attr == "inverted":
            out.add(src(n))
        if isinstance(n, (ast.Assign, ast.AnnAssign)):
            tgt = n.targets[0] if isinstance(n, ast.Assign) else n.target
            if isinstance(tgt, ast.Name) and n.value is not None and \
                    isinstance(n.value, ast.Attribute) and \
                    n.value.attr == "inverted":
                out.add(tgt.id)
    return out


def _bool_atoms(test: ast.AST) -> Optional[List[str]]:
    """Leaves of a boolean combination (and/or/not/ifexp); None when the
    test contains anything else at the top of a leaf."""
    atoms: List[str] = []

    def rec(e: ast.AST) -> None:
        if isinstance(e, ast.BoolOp):
            for v in e.values:
                rec(v)
        elif isinstance(e, ast.UnaryOp) and isinstance(e.op, ast.Not):
            rec(e.operand)
        elif isinstance(e, ast.BinOp) and isinstance(e.op, ast.BitXor):
            rec(e.left)
            rec(e.right)
        elif isinstance(e, ast.Compare) and len(e.ops) == 1 and \
                isinstance(e.ops[0], (ast.Eq, ast.NotEq, ast.Is, ast.IsNot)) \
                and isinstance(e.left, (ast.Name, ast.Attribute)) and \
                isinstance(e.comparators[0], (ast.Name, ast.Attribute)):
            rec(e.left)
            rec(e.comparators[0])
        else:
            s = src(e)
            if s not in atoms:
                atoms.append(s)
    rec(test)
    return atoms


def match_sites(fi: FuncInfo) -> List[Tuple[ast.AST, ast.AST, str, str]]:
    """(site node, test, matched atom, inversion atom)."""
    inv = inversion_atoms(fi)
    out = []
    if not inv:
        return out
    for n in walk_local(fi.node):
        test = None
        if isinstance(n, (ast.If, ast.IfExp, ast.While)):
            test = n.test
        elif isinstance(n, ast.Assign) and isinstance(
                n.value, (ast.BoolOp, ast.UnaryOp, ast.Compare)):
            test = n.value
        if test is None:
            continue
        atoms = _bool_atoms(test)
        if atoms is None or len(atoms) != 2:
            continue
        ia = [a for a in atoms if a in inv]
        if len(ia) != 1:
            continue
        ma = [a for a in atoms if a not in inv][0]
        out.append((n, test, ma, ia[0]))
    return out


def check_xor(test: ast.AST, matched: str, inverted: str) -> Optional[bool]:
    try:
        tt = truth_table(test, [matched, inverted])
    except NotBoolean:
        return None
    return all(tt[(m, i)] == (m != i)
               for m in (False, True) for i in (False, True))
