"""C05 -- merge result equals the policy-defined result for every option mix.

Decided clauses (DESIGN.md section 4, C05 and appendix A.3):
  D1  policy tables by partial evaluation of each merger routine per enum
      member (arrays, Arrays-of-Hashes, sets, hashes at the merge point and
      below hash keys);
  D2  precedence ladders of the MergerConfig accessors (per-path rule, CLI
      option, config default, built-in default; consistent option / enum);
  D3  impossible merges are MergeException; no other class is raised;
  D4  enum parsing tables (from_str / get_names sibling agreement).
"""
from __future__ import annotations

import ast
from typing import Any, Dict, List, Optional, Set, Tuple

from sa.guards import facts_at
from sa.model import (AnalysisError, FuncInfo, Program, ancestors, parent,
                      src, walk_local)
from sa.peval import Enum, Kind, PEval, show
from sa.report import Check

META = {
    "explanation": (
        "Static decision over merger.py / mergerconfig.py / the option "
        "enums: each merger routine is specialised (partial evaluation) "
        "for every member of its policy enum and the residual is compared "
        "with the enum's documented meaning -- LEFT returns/keeps the left "
        "value with no store into it, RIGHT returns/stores the right "
        "value, ALL appends every right element unconditionally, UNIQUE "
        "guards the append/add by a membership test against the left side, "
        "DEEP recurses into the hash merger selected by identity-key "
        "equality; every accessor of MergerConfig must return, in order, "
        "per-path rule, CLI option, configured default, documented "
        "built-in default with one option name and one enum class; every "
        "raise in merger.py is a MergeException and every container-kind "
        "ladder of the insertion routines is exhaustive; all from_str "
        "functions have the same normal form over their own members.  "
        "Nothing is executed."),
    "declined": [
        "equality of the merged document with the reference result, key "
        "insertion order, de-duplication outcomes (run-time values)",
    ],
    "assumptions": ["configparser / argparse deliver the option strings"],
    "trusted_base": ["ruamel container API"],
}

MERGER = "yamlpath/merger/merger.py"


def _mode_var(fi: FuncInfo, accessor: str) -> Optional[str]:
    for n in walk_local(fi.node):
        if isinstance(n, ast.Assign) and isinstance(n.value, ast.Call) and \
                src(n.value.func).endswith("." + accessor):
            return src(n.targets[0])
    return None


def _mutations_of(stmts: List[ast.stmt], name: str) -> List[ast.AST]:
    out: List[ast.AST] = []
    for s in stmts:
        for n in walk_local(s):
            if isinstance(n, ast.Call) and isinstance(n.func, ast.Attribute) \
                    and src(n.func.value) == name and \
                    n.func.attr in ("append", "add", "insert", "extend",
                                    "update", "pop", "remove", "clear"):
                out.append(n)
            elif isinstance(n, ast.Call) and \
                    src(n.func).endswith("append_list_element") and \
                    n.args and src(n.args[0]) == name:
                out.append(n)
            elif isinstance(n, ast.Subscript) and \
                    isinstance(n.ctx, (ast.Store, ast.Del)) and \
                    src(n.value) == name:
                out.append(n)
            elif isinstance(n, ast.Assign) and src(n.targets[0]) == name:
                out.append(n)
    return out


def _returns(stmts: List[ast.stmt]) -> List[str]:
    return [src(n.value) for s in stmts for n in walk_local(s)
            if isinstance(n, ast.Return) and n.value is not None]


def _first_return(stmts: List[ast.stmt]) -> Optional[str]:
    for s in stmts:
        if isinstance(s, ast.Return):
            return src(s.value)
        if isinstance(s, (ast.For, ast.While, ast.If, ast.Try)):
            return None
    return None


def _appends(fi: FuncInfo, stmts: List[ast.stmt], lhs: str
             ) -> List[Tuple[ast.AST, List[str]]]:
    """(append site, positive guard texts between the loop and the site)."""
    out = []
    for s in stmts:
        for n in walk_local(s):
            is_app = (isinstance(n, ast.Call) and
                      isinstance(n.func, ast.Attribute) and
                      src(n.func.value) == lhs and
                      n.func.attr in ("append", "add")) or \
                (isinstance(n, ast.Call) and
                 src(n.func).endswith("append_list_element") and
                 n.args and src(n.args[0]) == lhs)
            if not is_app:
                continue
            guards: List[str] = []
            cur: ast.AST = n
            for a in _res_ancestors(s, n):
                if isinstance(a, ast.If):
                    pol = "+" if _in_body(a, cur) else "-"
                    guards.append(pol + src(a.test))
                # early `if X: continue` before the site in the same block
                for field in ("body", "orelse"):
                    blk = getattr(a, field, None)
                    if isinstance(blk, list) and cur in blk:
                        for prev in blk[:blk.index(cur)]:
                            if isinstance(prev, ast.If) and not prev.orelse \
                                    and prev.body and isinstance(
                                        prev.body[-1], ast.Continue):
                                guards.append("-" + src(prev.test))
                cur = a
            out.append((n, guards))
    return out


def _res_ancestors(root: ast.stmt, node: ast.AST) -> List[ast.AST]:
    """Ancestors of node inside a residual statement (residual copies have
    no parent links), innermost first."""
    path: List[ast.AST] = []

    def rec(cur: ast.AST, trail: List[ast.AST]) -> bool:
        if cur is node:
            path.extend(reversed(trail))
            return True
        for c in ast.iter_child_nodes(cur):
            if rec(c, trail + [cur]):
                return True
        return False
    rec(root, [])
    return path


def _in_body(if_node: ast.If, child: ast.AST) -> bool:
    for s in if_node.body:
        if s is child or any(x is child for x in ast.walk(s)):
            return True
    return False


def _early_leaves_before(stmts: List[ast.stmt], site: ast.AST) -> bool:
    """A `continue`/`break` that can skip the site inside its loop."""
    for s in stmts:
        for loop in [x for x in ast.walk(s) if isinstance(x, ast.For)]:
            if not any(x is site for x in ast.walk(loop)):
                continue
            for st in loop.body:
                if any(x is site for x in ast.walk(st)):
                    return False
                if any(isinstance(x, (ast.Continue, ast.Break))
                       for x in ast.walk(st)):
                    return True
    return False


def d1_lists(chk: Check) -> None:
    prog = chk.prog
    chk.rule("C05-D1a", "_merge_simple_lists per ArrayMergeOpts member: "
             "LEFT/RIGHT return that side untouched, UNIQUE appends only "
             "what the left side lacks, ALL appends every right element",
             floor=4)
    chk.rule("C05-D1b", "_merge_arrays_of_hashes per AoHMergeOpts member: "
             "LEFT/RIGHT return that side, UNIQUE guards by membership, "
             "DEEP merges into the record with the equal identity key else "
             "appends (missing key: MergeException), ALL appends all",
             floor=5)
    chk.rule("C05-D1c", "_merge_sets per SetMergeOpts member: LEFT/RIGHT "
             "return that side, UNIQUE adds only absent members", floor=3)
    specs = [
        ("Merger._merge_simple_lists", "array_merge_mode", "ArrayMergeOpts",
         "C05-D1a"),
        ("Merger._merge_arrays_of_hashes", "aoh_merge_mode", "AoHMergeOpts",
         "C05-D1b"),
        ("Merger._merge_sets", "set_merge_mode", "SetMergeOpts", "C05-D1c"),
    ]
    for fname, accessor, enum, rid in specs:
        fi = prog.func(fname)
        chk.analysed(fi)
        lhs, rhs = fi.params()[1], fi.params()[2]
        mv = _mode_var(fi, accessor)
        if mv is None:
            raise AnalysisError("mode variable of {} not found".format(fname))
        pe = PEval(enum_classes={enum})
        # statements after the mode is read
        body = fi.node.body
        for m in prog.enum_members(enum):
            res = pe.specialise(body, {mv: Enum(enum, m)}, pinned=[mv])
            # drop everything up to and including the mode assignment
            idx = next((i for i, s in enumerate(res)
                        if isinstance(s, ast.Assign) and
                        src(s.targets[0]) == mv), -1)
            tail = res[idx + 1:]
            text = "{} with {}".format(fi.short.split(".")[-1], m)
            problems: List[str] = []
            if m in ("LEFT", "RIGHT"):
                want = lhs if m == "LEFT" else rhs
                first = _first_return(tail)
                if first != want:
                    problems.append(
                        "{} must return `{}` immediately, residual starts "
                        "with `{}`".format(m, want,
                                           src(tail[0])[:50] if tail
                                           else "nothing"))
            else:
                apps = _appends(fi, tail, lhs)
                rets = _returns(tail)
                if not rets or rets[-1] != lhs:
                    problems.append("the merged left side is not returned")
                if not apps:
                    problems.append("no right element is ever added")
                loops = [x for s in tail for x in ast.walk(s)
                         if isinstance(x, ast.For)]
                # (a snapshot `list(rhs)` is complete iteration too: the
                # two operands can be one object after anchor unification)
                over_rhs = [l for l in loops
                            if src(l.iter) in (
                                rhs, "enumerate({})".format(rhs),
                                "list({})".format(rhs),
                                "enumerate(list({}))".format(rhs),
                                "tuple({})".format(rhs),
                                "enumerate(tuple({}))".format(rhs))]
                if not over_rhs:
                    problems.append("the right side is not iterated "
                                    "completely")
                if m == "ALL":
                    uncond = [a for a, g in apps if not g]
                    if not uncond:
                        problems.append("ALL must append unconditionally; "
                                        "appends are guarded by {}".format(
                                            [g for _, g in apps]))
                    elif any(_early_leaves_before(tail, a) for a in uncond):
                        problems.append("an element can be skipped before "
                                        "the append")
                elif m == "UNIQUE":
                    ok = False
                    for a, g in apps:
                        if any(_is_absence_guard(x, lhs) for x in g):
                            ok = True
                        elif not g:
                            problems.append("UNIQUE has an unconditional "
                                            "append")
                    if not ok:
                        problems.append(
                            "UNIQUE must guard the append by a membership "
                            "test against the left side; guards: {}".format(
                                [g for _, g in apps]))
                elif m == "DEEP":
                    calls = [c for s in tail for c in ast.walk(s)
                             if isinstance(c, ast.Call) and
                             src(c.func).endswith("._merge_dicts")]
                    if not calls:
                        problems.append("DEEP does not recurse into the "
                                        "hash merger")
                    sel = [g for s in tail for g in ast.walk(s)
                           if isinstance(g, ast.GeneratorExp)]
                    if not any("==" in src(g) and "id_" in src(g)
                               for g in sel):
                        problems.append("DEEP does not select the left "
                                        "record by identity-key equality")
                    # the candidates are the *current* left records:
                    # a record appended for an earlier right element must
                    # be found by a later one bearing the same identity
                    for g in sel:
                        if not ("==" in src(g) and "id_" in src(g)):
                            continue
                        it = src(g.generators[0].iter)
                        if it == lhs:
                            continue
                        kept_current = any(
                            isinstance(c, ast.Call) and
                            isinstance(c.func, ast.Attribute) and
                            src(c.func.value) == it and
                            c.func.attr in ("append", "add", "insert")
                            for l in over_rhs for c in ast.walk(l))
                        if not kept_current:
                            problems.append(
                                "DEEP selects its merge target from `{}`, "
                                "not from the left list being appended to: "
                                "records appended earlier in this merge are "
                                "never candidates".format(it))
                    if not any("MergeException" in src(r) for s in tail
                               for r in ast.walk(s)
                               if isinstance(r, ast.Raise)):
                        problems.append("a record without the identity key "
                                        "is not refused")
                    guarded = [g for _, g in apps if g]
                    if not guarded:
                        problems.append("DEEP appends unmatched records "
                                        "unconditionally")
            if problems:
                chk.fail(rid, fi, None, text, "; ".join(problems),
                         {"residual": show(tail)[:700]})
            else:
                chk.ok(rid, fi, None, text,
                       "residual matches the documented meaning of " + m)


def _is_absence_guard(g: str, lhs: str) -> bool:
    """'+x not in lhs' or '-x in <something derived from lhs>'."""
    pol, text = g[0], g[1:]
    if " not in " in text:
        return pol == "+" and lhs in text.split(" not in ")[1]
    if " in " in text:
        return pol == "-" and lhs in text.split(" in ")[1]
    return False


def d1_dicts(chk: Check) -> None:
    prog = chk.prog
    chk.rule("C05-D1d", "_merge_dicts below a hash key: LEFT keeps the left "
             "value (no store), RIGHT stores the right value, otherwise "
             "maps / lists / sets recurse into their mergers and scalars "
             "are overwritten by the right value", floor=6)
    chk.rule("C05-D1e", "_insert_dict at the merge point per HashMergeOpts "
             "member: LEFT keeps lhs, RIGHT takes rhs, DEEP merges", floor=3)
    chk.rule("C05-D1f", "the policy consulted for a value is the accessor "
             "of that value's own kind", floor=1)
    fi = prog.func("Merger._merge_dicts")
    chk.analysed(fi)
    lhs, rhs = fi.params()[1], fi.params()[2]
    mv = None
    sel = None
    for n in walk_local(fi.node):
        if isinstance(n, ast.Assign) and isinstance(n.value, ast.IfExp) and \
                "merge_mode" in src(n.value):
            mv, sel = src(n.targets[0]), n
    if mv is None or sel is None:
        raise AnalysisError("_merge_dicts mode selection not found")
    loop = None
    for a in ancestors(sel):
        if isinstance(a, ast.For):
            loop = a
    if loop is None:
        raise AnalysisError("_merge_dicts loop not found")
    key, val = [src(e) for e in loop.target.elts]  # type: ignore
    ifs = [a for a in ancestors(sel) if isinstance(a, ast.If)]
    branch = ifs[0].body
    tail = branch[branch.index(sel) + 1:]
    pe = PEval(enum_classes={"HashMergeOpts", "AoHMergeOpts", "SetMergeOpts"})
    isa = {"map": {"CommentedMap"}, "seq": {"CommentedSeq"},
           "set": {"CommentedSet"}, "scalar": set()}
    pe.isa = isa
    cases = [("map", "HashMergeOpts", ["LEFT", "RIGHT", "DEEP"]),
             ("set", "SetMergeOpts", ["LEFT", "RIGHT", "UNIQUE"]),
             ("seq", "AoHMergeOpts", ["LEFT", "RIGHT", "ALL", "DEEP",
                                      "UNIQUE"]),
             ("scalar", "AoHMergeOpts", ["ALL"])]
    store = "{}[{}]".format(lhs, key)
    for kind, enum, members in cases:
        for m in members:
            env: Dict[str, Any] = {val: Kind(kind)}
            if enum and m:
                env[mv] = Enum(enum, m)
            res = pe.specialise(tail, env, pinned=[mv])
            stores = [n for s in res for n in ast.walk(s)
                      if isinstance(n, ast.Assign) and
                      src(n.targets[0]) == store]
            text = "{} value, mode {}".format(kind, m)
            got = [src(n.value) for n in stores]
            if m == "LEFT":
                firsts = [x for x in res
                          if not isinstance(x, (ast.Expr, ast.Pass))]
                ok = not stores and firsts and \
                    isinstance(firsts[0], ast.Continue)
                want = "no store (continue)"
            elif m == "RIGHT":
                ok = got == [val] and isinstance(res[-1], ast.Continue)
                want = "`{} = {}`".format(store, val)
            elif kind == "map":
                ok = len(got) == 1 and got[0].startswith(
                    "self._merge_dicts({}, {},".format(store, val))
                want = "recursive _merge_dicts(left value, right value)"
            elif kind == "seq" and m in ("ALL", "DEEP", "UNIQUE"):
                ok = len(got) == 1 and got[0].startswith(
                    "self._merge_lists({}, {},".format(store, val))
                want = "_merge_lists(left value, right value)"
            elif kind == "set":
                ok = len(got) == 1 and got[0].startswith(
                    "self._merge_sets({}, {},".format(store, val))
                want = "_merge_sets(left value, right value)"
            elif kind == "scalar":
                # with a mode that is neither LEFT nor RIGHT the default
                # must overwrite
                ok = got == [val]
                want = "`{} = {}` (right-hand scalars override)".format(
                    store, val)
            if ok:
                chk.ok("C05-D1d", fi, None, text, "residual: " + (
                    "; ".join(got) or "continue"))
            else:
                chk.fail("C05-D1d", fi, None, text,
                         "expected {}, residual stores {}".format(
                             want, got or "nothing"),
                         {"residual": show(res)[:500]})
    # D1f: accessor per kind
    chain = sel.value
    pairs: List[Tuple[str, str]] = []
    cur: ast.AST = chain
    while isinstance(cur, ast.IfExp):
        pairs.append((src(cur.test), src(cur.body)))
        cur = cur.orelse
    fallback = src(cur)
    want_pairs = {"CommentedMap": "hash_merge_mode",
                  "CommentedSet": "set_merge_mode"}
    good = True
    for test, body in pairs:
        for k, acc in want_pairs.items():
            if k in test and acc not in body:
                good = False
    if good:
        chk.ok("C05-D1f", fi, sel, "map/set accessors",
               "hash values use hash_merge_mode, set values set_merge_mode")
    else:
        chk.fail("C05-D1f", fi, sel, "map/set accessors",
                 "a value kind is looked up with another kind's accessor: "
                 "{}".format(pairs))
    if "aoh_merge_mode" in fallback:
        guarded = any("CommentedSeq" in t for t, _ in pairs)
        if guarded:
            chk.ok("C05-D1f", fi, sel, "aoh accessor",
                   "used only for sequence values")
        else:
            chk.fail("C05-D1f", fi, sel,
                     "aoh accessor is the fallback for every other value",
                     "the Array-of-Hashes policy (`aoh_merge_mode`) is "
                     "consulted for every value that is neither a hash nor "
                     "a set -- including scalars and plain lists -- so "
                     "`--aoh left` keeps a left-hand scalar instead of "
                     "letting the right-hand scalar override")
    # D1e
    ins = prog.func("Merger._insert_dict")
    chk.analysed(ins)
    mv2 = _mode_var(ins, "hash_merge_mode")
    if mv2 is None:
        raise AnalysisError("_insert_dict mode variable not found")
    result = None
    for n in walk_local(ins.node):
        if isinstance(n, ast.Assign) and src(n.targets[0]) == "self.data":
            result = src(n.value)
    l2, r2 = ins.params()[2], ins.params()[3]
    pe2 = PEval(enum_classes={"HashMergeOpts"})
    pe2.isa = {"map": {"CommentedMap"}}
    for m in prog.enum_members("HashMergeOpts"):
        res = pe2.specialise(ins.node.body, {mv2: Enum("HashMergeOpts", m),
                                             l2: Kind("map")}, pinned=[mv2])
        vals = [src(n.value) for s in res for n in ast.walk(s)
                if isinstance(n, ast.Assign) and
                src(n.targets[0]) == result and
                "CommentedMap()" not in src(n.value)]
        want = {"LEFT": l2, "RIGHT": r2}.get(m)
        ok = (vals == [want]) if want else (
            len(vals) == 1 and vals[0].startswith(
                "self._merge_dicts({}, {},".format(l2, r2)))
        if ok:
            chk.ok("C05-D1e", ins, None, "_insert_dict with " + m,
                   "{} = {}".format(result, vals[0]))
        else:
            chk.fail("C05-D1e", ins, None, "_insert_dict with " + m,
                     "merge result is {} for mode {}".format(vals, m),
                     {"residual": show(res)[-500:]})


# ---------------------------------------------------------------- D2 ------
DEFAULTS = {"hash_merge_mode": ("HashMergeOpts", "hashes", "DEEP", True),
            "array_merge_mode": ("ArrayMergeOpts", "arrays", "ALL", True),
            "aoh_merge_mode": ("AoHMergeOpts", "aoh", "ALL", True),
            "set_merge_mode": ("SetMergeOpts", "sets", "UNIQUE", True),
            "anchor_merge_mode": ("AnchorConflictResolutions", "anchors",
                                  "STOP", False)}


def ladder(fi: FuncInfo) -> List[Tuple[str, str, str]]:
    """(stage, enum class, option) for each return, in source order."""
    out: List[Tuple[str, str, str]] = []
    rule_var = None
    for n in fi.node.body:
        if isinstance(n, ast.Assign) and isinstance(n.value, ast.Call) and \
                src(n.value.func).endswith("._get_rule_for"):
            rule_var = src(n.targets[0])
    for n in fi.node.body:
        rets = [r for r in ast.walk(n) if isinstance(r, ast.Return)]
        if not rets:
            continue
        r = rets[0]
        val = r.value
        test = src(n.test) if isinstance(n, ast.If) else ""
        if isinstance(val, ast.Call) and src(val.func).endswith(".from_str"):
            enum = src(val.func).split(".")[0]
            arg = src(val.args[0]) if val.args else ""
            if rule_var and arg == rule_var and test == rule_var:
                out.append(("rule", enum, ""))
            elif arg.startswith("self.args."):
                opt = arg[len("self.args."):]
                ok = "hasattr(self.args, '{}')".format(opt) in test and \
                    "self.args." + opt in test
                out.append(("cli" if ok else "cli?", enum, opt))
            elif arg.startswith("self.config['defaults']["):
                opt = arg.split("[")[-1].strip("]'\"")
                ok = "'defaults' in self.config" in test and \
                    "'{}' in self.config['defaults']".format(opt) in test
                out.append(("config" if ok else "config?", enum, opt))
            else:
                out.append(("?", enum, arg))
        elif isinstance(val, ast.Attribute):
            out.append(("default", src(val.value), val.attr))
        else:
            out.append(("?", "", src(val)))
    return out


def d2_ladders(chk: Check) -> None:
    prog = chk.prog
    chk.rule("C05-D2", "each MergerConfig accessor returns, in this order, "
             "per-path rule, CLI option, configured default, documented "
             "built-in default, with one option name and one enum class",
             floor=5)
    for name, (enum, opt, dflt, has_rule) in DEFAULTS.items():
        fi = prog.func("MergerConfig." + name)
        chk.analysed(fi)
        got = ladder(fi)
        want = ([("rule", enum, "")] if has_rule else []) + [
            ("cli", enum, opt), ("config", enum, opt),
            ("default", enum, dflt)]
        if got == want:
            chk.ok("C05-D2", fi, fi.node, name,
                   " > ".join("{}({})".format(s, o or e) for s, e, o in got))
        else:
            chk.fail("C05-D2", fi, fi.node, name,
                     "precedence ladder is {} but the documented one is {}"
                     .format(got, want))


def d2b_rule_lookup(chk: Check) -> None:
    """A per-path rule applies to the node at the rule's own coordinates
    only: the lookup compares node, parent and parentref, conjunctively.
    (Sibling: DifferConfig uses the same lookup; both are checked.)"""
    prog = chk.prog
    chk.rule("C05-D2b", "the per-path rule lookup matches a rule to a node "
             "only when node, parent and parentref all agree (conjunction "
             "of exactly these three equalities)", floor=2)
    for qual in ("MergerConfig._get_config_for",
                 "DifferConfig._get_config_for"):
        fi = prog.func(qual)
        chk.analysed(fi)
        subject = fi.params()[1]
        loops = [n for n in walk_local(fi.node) if isinstance(n, ast.For)
                 and src(n.iter).endswith(".items()")]
        if len(loops) != 1 or not isinstance(loops[0].target, ast.Tuple):
            raise AnalysisError("rule loop of {} not found".format(qual))
        rule_var = src(loops[0].target.elts[0])
        cfg_var = src(loops[0].target.elts[1])
        tests = [n for n in walk_local(loops[0]) if isinstance(n, ast.If)
                 and any(isinstance(r, ast.Return) and r.value is not None
                         and cfg_var in src(r.value) for r in ast.walk(n))]
        if len(tests) != 1:
            raise AnalysisError("rule match test of {} not found".format(
                qual))
        test = tests[0].test
        text = "if " + src(test)[:90]
        conj = test.values if isinstance(test, ast.BoolOp) and \
            isinstance(test.op, ast.And) else [test]
        attrs = set()
        other = []
        for c in conj:
            if isinstance(c, ast.Compare) and len(c.ops) == 1 and \
                    isinstance(c.ops[0], ast.Eq) and \
                    isinstance(c.left, ast.Attribute) and \
                    isinstance(c.comparators[0], ast.Attribute) and \
                    c.left.attr == c.comparators[0].attr and \
                    {src(c.left.value), src(c.comparators[0].value)} == \
                    {rule_var, subject}:
                attrs.add(c.left.attr)
            else:
                other.append(src(c))
        want = {"node", "parent", "parentref"}
        if attrs == want and not other:
            chk.ok("C05-D2b", fi, tests[0], text,
                   "node, parent and parentref of rule and subject compared")
        else:
            chk.fail("C05-D2b", fi, tests[0], text,
                     "rule lookup compares {} (other terms: {}) instead of "
                     "node, parent and parentref: a rule would apply to a "
                     "different node with equal content, or not to its own"
                     .format(sorted(attrs), other))


def d2c_per_rule_handler(chk: Check, rid: str = "C05-D2c",
                         quals=("MergerConfig._prepare_user_rules",
                                "DifferConfig._prepare_user_rules")) -> None:
    """A rule whose path matches nothing in this right-hand document is
    skipped with a warning; the remaining rules of the section still apply.
    Structurally: the handler that swallows the query's YAMLPathException
    sits inside the loop over the section's entries."""
    prog = chk.prog
    chk.rule(rid, "an unmatched per-path rule is skipped alone: the "
             "swallowing handler is inside the loop over the rules and "
             "takes the whole YAMLPathException family",
             floor=len(quals))
    for qual in quals:
        _per_rule_handler(chk, prog.func(qual), rid)


def _per_rule_handler(chk: Check, fi: FuncInfo, rid: str = "C05-D2c"
                      ) -> None:
    loops = [n for n in walk_local(fi.node) if isinstance(n, ast.For) and
             "self.config[" in src(n.iter)]
    queries = [c for c in walk_local(fi.node) if isinstance(c, ast.Call) and
               src(c.func).endswith(".get_nodes")]
    if len(loops) != 1 or len(queries) != 1:
        raise AnalysisError("rule loop / query of _prepare_user_rules not "
                            "found")
    loop, q = loops[0], queries[0]
    from sa.model import ancestors
    def names(t: ast.AST) -> List[str]:
        return [src(e) for e in t.elts] if isinstance(t, ast.Tuple) \
            else [src(t)]
    tries = [a for a in ancestors(q) if isinstance(a, ast.Try) and any(
        h.type is not None and "YAMLPathException" in src(h.type) and
        not any(isinstance(x, (ast.Raise, ast.Return)) for x in ast.walk(h))
        for h in a.handlers)]
    text = "for {} in {}".format(src(loop.target), src(loop.iter))
    # the query can raise any member of the library's exception family (a
    # rule path that does not fit the *shape* of this document raises
    # another member than "unmatched"): the handler takes the family root
    for a in tries:
        for h in a.handlers:
            if h.type is not None and "YAMLPathException" in src(h.type) \
                    and not ({"YAMLPathException", "Exception"} &
                             set(names(h.type))):
                chk.fail(rid, fi, h, text + ": except " + src(h.type),
                         "the handler takes only {}; the query raises other "
                         "members of the YAMLPathException family for a "
                         "rule path that does not fit this document, and "
                         "those now abort the whole preparation (the merge "
                         "is refused)".format(src(h.type)))
    if not tries:
        chk.fail(rid, fi, q, text,
                 "no handler swallows the unmatched-rule exception: one "
                 "unmatched rule aborts the preparation of all rules")
    elif any(a is loop for a in ancestors(tries[0])):
        chk.ok(rid, fi, tries[0], text,
               "handler inside the loop: the next rule is still prepared")
    else:
        chk.fail(rid, fi, tries[0], text,
                 "the swallowing handler encloses the whole loop: every "
                 "rule listed after an unmatched one is silently dropped")


def d2d_rules_per_document(chk: Check, rid: str = "C05-D2d") -> None:
    """The rule / key tables map *nodes of one right-hand document* to
    policies and are matched by value.  prepare() must start each table
    empty for every document it is given, or an entry left by an earlier
    document applies to equal-looking nodes of a later one."""
    from sa.coords import reaching_def
    from sa.guards import facts_at
    prog = chk.prog
    chk.rule(rid, "prepare() empties every table it then fills for the "
             "new document (MergerConfig and DifferConfig)", floor=4)
    for qual in ("MergerConfig.prepare", "DifferConfig.prepare"):
        fi = prog.func(qual)
        chk.analysed(fi)
        calls = [c for c in walk_local(fi.node) if isinstance(c, ast.Call)
                 and src(c.func).endswith("._prepare_user_rules")]
        if len(calls) < 2:
            raise AnalysisError("collector calls of {} not found".format(
                qual))
        for c in calls:
            table = src(c.args[-1])
            text = "{}: {}".format(qual, src(c)[:60])
            resets = [n for n in fi.node.body if isinstance(n, ast.Assign)
                      and src(n.targets[0]) == table and
                      src(n.value) in ("{}", "dict()") and
                      n.lineno < c.lineno]
            if resets:
                chk.ok(rid, fi, c, text, "`{}` emptied at line {}, "
                       "unconditionally".format(table, resets[0].lineno))
            else:
                chk.fail(rid, fi, c, text,
                         "`{}` is filled for the new document without being "
                         "emptied first: entries matched in an earlier "
                         "document stay in force and are matched by value "
                         "against this one".format(table))


def d1g_own_keys_survive(chk: Check) -> None:
    """Before re-inserting keys, _merge_dicts drops the entries the left
    hash merely inherits through `<<:`.  An entry the hash *owns* -- also
    one that overrides an inherited key -- must survive: the set of deleted
    keys is (all keys) minus (keys of non_merged_items())."""
    from sa.coords import reaching_def
    prog = chk.prog
    chk.rule("C05-D1g", "the keys removed by _delete_mergeref_keys are all "
             "keys minus the hash's own (non-merged) keys", floor=1)
    fi = prog.func("Merger._delete_mergeref_keys")
    chk.analysed(fi)
    data = fi.params()[1]
    dels = [n for n in walk_local(fi.node) if isinstance(n, ast.Subscript)
            and isinstance(n.ctx, ast.Del) and src(n.value) == data]
    if not dels:
        raise AnalysisError("_delete_mergeref_keys deletes nothing")
    # names that collect the own keys
    own: Set[str] = set()
    for loop in walk_local(fi.node):
        if isinstance(loop, ast.For) and \
                src(loop.iter) == data + ".non_merged_items()":
            for c in walk_local(loop):
                if isinstance(c, ast.Call) and \
                        isinstance(c.func, ast.Attribute) and \
                        c.func.attr in ("append", "add"):
                    own.add(src(c.func.value))
    for n in walk_local(fi.node):
        if isinstance(n, ast.Assign) and isinstance(
                n.value, (ast.ListComp, ast.SetComp)) and \
                src(n.value.generators[0].iter) == \
                data + ".non_merged_items()":
            own.add(src(n.targets[0]))
    for d in dels:
        from sa.model import ancestors
        loops = [a for a in ancestors(d) if isinstance(a, ast.For)]
        text = "del {}[{}]".format(data, src(d.slice))
        ok = False
        why = "the deleted key does not come from a loop"
        if loops:
            it = loops[0].iter
            src_e = reaching_def(it.id, loops[0]) \
                if isinstance(it, ast.Name) else it
            t = src(src_e).replace(" ", "") if src_e is not None else ""
            all_keys = "set({}.keys())".format(data)
            ok = any(t in ("{}.difference({})".format(all_keys, o),
                           "{}-set({})".format(all_keys, o),
                           "{}-{}".format(all_keys, o)) for o in own)
            why = "the keys iterated are `{}`".format(t or src(it))
        if ok:
            chk.ok("C05-D1g", fi, d, text, "all keys minus own keys")
        else:
            chk.fail("C05-D1g", fi, d, text,
                     why + ", not (all keys) minus (own keys): a key the "
                     "hash owns and also inherits is deleted, and its local "
                     "value reverts to the inherited one")


def d1h_list_routing(chk: Check) -> None:
    """_merge_lists routes by the shape of the right-hand list: a non-empty
    list whose first element is a hash goes to the Array-of-Hashes merger,
    any other non-empty list to the plain merger, an empty one changes
    nothing.  (The AoH merger's LEFT / RIGHT policies keep or replace whole
    lists: an empty right-hand list routed there wipes the left one.)"""
    from sa.guards import facts_at
    prog = chk.prog
    chk.rule("C05-D1h", "_merge_lists: the Array-of-Hashes merger is reached "
             "only for a non-empty right-hand list whose first element is a "
             "hash, the plain merger only for another non-empty list",
             floor=2)
    fi = prog.func("Merger._merge_lists")
    chk.analysed(fi)
    rhs = fi.params()[2]

    def shape_facts(call: ast.Call) -> Tuple[bool, Optional[bool]]:
        nonempty = False
        first_map: Optional[bool] = None
        for f in facts_at(call):
            if f.kind != "cond":
                continue
            t = src(f.expr).replace(" ", "")
            if f.pol and t in ("len({})>0".format(rhs),
                               "len({})>=1".format(rhs), rhs):
                nonempty = True
            if isinstance(f.expr, ast.Call) and \
                    src(f.expr.func) == "isinstance" and \
                    src(f.expr.args[0]) == rhs + "[0]" and \
                    ("Map" in src(f.expr.args[1]) or
                     "dict" in src(f.expr.args[1])):
                first_map = f.pol
        return nonempty, first_map
    for callee, want_map in (("_merge_arrays_of_hashes", True),
                             ("_merge_simple_lists", False)):
        calls = [c for c in walk_local(fi.node) if isinstance(c, ast.Call)
                 and src(c.func).endswith("." + callee)]
        if len(calls) != 1:
            raise AnalysisError("call of {} in _merge_lists not found".format(
                callee))
        nonempty, first_map = shape_facts(calls[0])
        text = "route to " + callee
        if nonempty and first_map is want_map:
            chk.ok("C05-D1h", fi, calls[0], text,
                   "under len({}) > 0 and first element {} a hash".format(
                       rhs, "is" if want_map else "is not"))
        else:
            chk.fail("C05-D1h", fi, calls[0], text,
                     "reached with non-empty={} / first-element-is-hash={} "
                     "established by the guards: an empty or mixed "
                     "right-hand list is merged under the wrong policy"
                     .format(nonempty, first_map))


def d2e_prepare_after_anchors(chk: Check) -> None:
    """Anchor conflict resolution replaces nodes *of the right-hand
    document* (LEFT policy: by the left-hand node).  Per-path rules are
    matched against right-hand nodes by value and position, so they must be
    prepared on the document as it is merged: after the resolution."""
    from sa.flow import Flow
    prog = chk.prog
    chk.rule("C05-D2e", "merge_with prepares the per-path rules after "
             "anchor conflicts have been resolved, on every path", floor=1)
    fi = prog.func("Merger.merge_with")
    chk.analysed(fi)
    bad: List[ast.AST] = []
    seen = {"prepare": 0}

    def transfer(stmt: ast.stmt, st, flow):
        for c in ast.walk(stmt):
            if isinstance(c, ast.Call):
                f = src(c.func)
                if f.endswith("._resolve_anchor_conflicts"):
                    st = True
                elif f.endswith(".config.prepare"):
                    seen["prepare"] += 1
                    if not st:
                        bad.append(c)
        return [st]

    def branch(test: ast.AST, st, flow):
        return [st], [st]
    Flow(transfer, branch).run(fi.node.body, [False])
    if not seen["prepare"]:
        raise AnalysisError("merge_with no longer prepares the rules")
    if bad:
        chk.fail("C05-D2e", fi, bad[0], src(bad[0]),
                 "the rules are prepared before anchor conflicts are "
                 "resolved: a rule matched to a right-hand node that the "
                 "resolution then replaces no longer applies, and the "
                 "default policy is used instead")
    else:
        chk.ok("C05-D2e", fi, fi.node, "prepare after resolution",
               "every path reaching config.prepare() has passed "
               "_resolve_anchor_conflicts()")


def d1i_own_keys_before_tests(chk: Check) -> None:
    """`key in lhs` decides whether a right-hand key merges into an
    existing left-hand entry or is added.  For a hash with a merge key the
    test must see the hash's *own* entries: the inherited ones are removed
    first (_delete_mergeref_keys), on every path."""
    from sa.flow import Flow
    prog = chk.prog
    chk.rule("C05-D1i", "_merge_dicts removes the inherited (merge-key) "
             "entries of the left hash before the first membership test on "
             "it, on every path", floor=1)
    fi = prog.func("Merger._merge_dicts")
    lhs = fi.params()[1]
    bad: List[ast.AST] = []
    seen = {"tests": 0}

    def scan(expr: ast.AST, st) -> None:
        for c in ast.walk(expr):
            if isinstance(c, ast.Compare) and len(c.ops) == 1 and \
                    isinstance(c.ops[0], (ast.In, ast.NotIn)) and \
                    src(c.comparators[0]) == lhs:
                seen["tests"] += 1
                if not st:
                    bad.append(c)

    def transfer(stmt: ast.stmt, st, flow):
        for c in ast.walk(stmt):
            if isinstance(c, ast.Call) and \
                    src(c.func).endswith("._delete_mergeref_keys") and \
                    c.args and src(c.args[0]) == lhs:
                st = True
        scan(stmt, st)
        return [st]

    def branch(test: ast.AST, st, flow):
        scan(test, st)
        return [st], [st]
    Flow(transfer, branch).run(fi.node.body, [False])
    if not seen["tests"]:
        raise AnalysisError("membership tests on the left hash not found")
    if bad:
        chk.fail("C05-D1i", fi, bad[0], src(bad[0]),
                 "`{}` can be evaluated while the left hash still shows the "
                 "entries it only inherits: a right-hand value for such a "
                 "key is merged into the anchored source hash instead of "
                 "being added as an override".format(src(bad[0])))
    else:
        chk.ok("C05-D1i", fi, fi.node, "membership tests on " + lhs,
               "all after _delete_mergeref_keys({})".format(lhs))


def d2f_identity_key_as_is(chk: Check) -> None:
    """The identity key inferred for an Array-of-Hashes record is one of
    the record's own keys, as it is: it is used to subscript the records.
    A converted key (str(0) for the key 0) is found in no record."""
    prog = chk.prog
    chk.rule("C05-D2f", "aoh_merge_key returns the record's own key "
             "object, not a text / number conversion of it", floor=1)
    fi = prog.func("MergerConfig.aoh_merge_key")
    chk.analysed(fi)
    rets = [r for r in walk_local(fi.node) if isinstance(r, ast.Return)
            and isinstance(r.value, ast.Name)]
    if not rets:
        raise AnalysisError("aoh_merge_key result variable not found")
    var = rets[-1].value.id
    n = 0
    for a in walk_local(fi.node):
        if isinstance(a, ast.Assign) and src(a.targets[0]) == var and \
                any(isinstance(x, ast.Subscript) or
                    (isinstance(x, ast.Call) and src(x.func) in ("next",
                                                                 "iter"))
                    for x in ast.walk(a.value)):
            n += 1
            conv = [c for c in ast.walk(a.value) if isinstance(c, ast.Call)
                    and src(c.func) in ("str", "int", "repr", "float")]
            if conv:
                chk.fail("C05-D2f", fi, a, src(a)[:60],
                         "the inferred key passes through `{}`: for a "
                         "non-text key the result is not a key of the "
                         "record".format(src(conv[0].func)))
            else:
                chk.ok("C05-D2f", fi, a, src(a)[:60], "the key itself")
    if n == 0:
        raise AnalysisError("first-key fallback of aoh_merge_key not found")
    # the fallback is for "no key configured" only: with a configured key
    # the routine returns that key whatever the record holds, so that a
    # record lacking it is reported ("Mandatory identity key ... not
    # present") instead of being matched on some other field
    from sa.peval import Const as _C
    pe = PEval()
    for a in walk_local(fi.node):
        if not (isinstance(a, ast.Assign) and src(a.targets[0]) == var and
                any(isinstance(x, ast.Subscript) for x in ast.walk(a.value))):
            continue
        guard = parent(a)
        if not isinstance(guard, ast.If):
            chk.fail("C05-D2f", fi, a, "fallback to the first key",
                     "the first-key fallback is unconditional")
            continue
        t = pe.truth(guard.test, {var: _C("id")})
        text = "fallback under `if {}`".format(src(guard.test)[:50])
        if t is False:
            chk.ok("C05-D2f", fi, guard, text,
                   "not taken when a key is configured")
        else:
            chk.fail("C05-D2f", fi, guard, text,
                     "the fallback can replace a *configured* identity key "
                     "(test not false for a non-empty key): a record that "
                     "lacks the configured key is silently matched on its "
                     "first field instead of being refused")


# ---------------------------------------------------------------- D3 ------
def d3_exceptions(chk: Check) -> None:
    prog = chk.prog
    chk.rule("C05-D3a", "every raise in merger.py is a MergeException",
             floor=8)
    chk.rule("C05-D3b", "every structurally impossible combination ends in "
             "MergeException (non-hash / non-array destination, hash into "
             "set, array into hash, scalar into hash)", floor=6)
    for fi in prog.funcs_in(MERGER):
        for n in walk_local(fi.node):
            if isinstance(n, ast.Raise) and n.exc is not None:
                cls = src(n.exc.func) if isinstance(n.exc, ast.Call) \
                    else src(n.exc)
                if cls == "MergeException":
                    chk.ok("C05-D3a", fi, n, "raise MergeException",
                           "merge error class", False)
                else:
                    chk.fail("C05-D3a", fi, n, "raise " + cls,
                             "an impossible merge is reported as {} "
                             "instead of MergeException".format(cls))
    clashes = [
        ("Merger._merge_dicts", "not isinstance({1}, CommentedMap)"),
        ("Merger._merge_simple_lists", "not isinstance({1}, CommentedSeq)"),
        ("Merger._merge_arrays_of_hashes",
         "not isinstance({1}, CommentedSeq)"),
    ]
    for fname, tpl in clashes:
        fi = prog.func(fname)
        want = tpl.format(*fi.params())
        first = [s for s in fi.node.body if not (
            isinstance(s, ast.Expr) and isinstance(s.value, ast.Constant))]
        ok = first and isinstance(first[0], ast.If) and \
            src(first[0].test) == want and any(
                isinstance(r, ast.Raise) and "MergeException" in src(r)
                for r in first[0].body)
        if ok:
            chk.ok("C05-D3b", fi, first[0], "if " + want,
                   "type clash refused first")
        else:
            chk.fail("C05-D3b", fi, fi.node, "destination kind test",
                     "`{}` no longer starts by refusing a destination of "
                     "the wrong kind with MergeException".format(fi.short))
    ladders = [("Merger._insert_dict", "CommentedSet"),
               ("Merger._insert_list", None),
               ("Merger._insert_scalar", "CommentedMap")]
    for fname, kind in ladders:
        fi = prog.func(fname)
        raises = [r for r in walk_local(fi.node) if isinstance(r, ast.Raise)
                  and "MergeException" in src(r)]
        ok = False
        for r in raises:
            pos = [src(f.expr) for f in facts_at(r) if f.kind == "cond"
                   and f.pol and "isinstance" in src(f.expr)]
            neg = [src(f.expr) for f in facts_at(r) if f.kind == "cond"
                   and not f.pol and "isinstance" in src(f.expr)]
            if kind and any(kind in t for t in pos):
                ok = True
            if kind is None and len(neg) >= 2 and not pos:
                ok = True      # final else of the kind ladder
        if ok:
            chk.ok("C05-D3b", fi, raises[0], fi.short.split(".")[-1],
                   "impossible combination raises MergeException")
        else:
            chk.fail("C05-D3b", fi, fi.node, fi.short.split(".")[-1],
                     "the impossible destination kind is no longer refused "
                     "with MergeException")


# ---------------------------------------------------------------- D4 ------
def d4_from_str(chk: Check) -> None:
    prog = chk.prog
    chk.rule("C05-D4", "every option enum parses exactly its member names: "
             "from_str upper-cases, tests membership in get_names() = "
             "[entry.name.upper() for entry in <Enum>] and indexes the enum",
             floor=9)
    enums = ["HashMergeOpts", "ArrayMergeOpts", "AoHMergeOpts",
             "SetMergeOpts", "AnchorConflictResolutions", "MultiDocModes",
             "OutputDocTypes", "ArrayDiffOpts", "AoHDiffOpts"]
    for e in enums:
        ci = prog.class_by_name(e)
        fs = ci.methods.get("from_str")
        gn = ci.methods.get("get_names")
        if fs is None or gn is None:
            chk.fail("C05-D4", None, None, e, "from_str/get_names missing")
            continue
        body = [s for s in fs.node.body if not (
            isinstance(s, ast.Expr) and isinstance(s.value, ast.Constant))]
        norm = [src(s).replace(e, "E") for s in body]
        p = fs.params()[0]
        ok = len(norm) == 3 and \
            norm[0].replace(" ", "") in (
                "check:str=str({}).upper()".format(p),
                "check=str({}).upper()".format(p)) and \
            norm[1].replace("\n", "").replace(" ", "") == \
            "ifcheckinE.get_names():returnE[check]" and \
            norm[2].startswith("raise NameError(")
        gbody = [s for s in gn.node.body if isinstance(s, ast.Return)]
        gok = len(gbody) == 1 and src(gbody[0].value).replace(e, "E") == \
            "[entry.name.upper() for entry in E]"
        if ok and gok:
            chk.ok("C05-D4", fs, fs.node, e + ".from_str",
                   "normal form over {} members".format(
                       len(prog.enum_members(e))))
        else:
            chk.fail("C05-D4", fs, fs.node, e + ".from_str",
                     "parsing table of {} deviates from its siblings: {}"
                     .format(e, norm if not ok else src(gbody[0])))


def d1j_same_normalisation(chk: Check) -> None:
    """The UNIQUE policies decide "already there" with `needle in
    haystack`.  The haystack is the left list with YAML tags removed
    (`tagless_elements`: a TaggedScalar gives its `.value`, anything else
    itself); the needle must be normalised the same way and no further.  A
    typed conversion of the needle (`tagless_value` -> literal evaluation)
    makes the text '1' equal to the number 1 and unequal to the text '1' on
    the other side: look-alikes replace left elements, real duplicates are
    appended."""
    prog = chk.prog
    chk.rule("C05-D1j", "the needle of each `in <de-tagged left side>` test "
             "is the right-hand element or its `.value`, i.e. normalised "
             "exactly like the haystack", floor=2)
    chk.rule("C05-D1m", "the de-tagged left elements of the list merger "
             "are kept in a sequence, never in a hash index (elements may "
             "be unhashable containers)", floor=1)
    te = prog.func("Nodes.tagless_elements")
    forms = {src(c.args[0]) for c in walk_local(te.node)
             if isinstance(c, ast.Call) and src(c.func).endswith(".append")
             and c.args}
    loopv = [src(n.target) for n in walk_local(te.node)
             if isinstance(n, ast.For)]
    comps = [c for c in walk_local(te.node) if isinstance(c, ast.ListComp)]
    if not loopv and len(comps) == 1 and len(comps[0].generators) == 1 \
            and not comps[0].generators[0].ifs:
        # the same mapping written as a comprehension
        loopv = [src(comps[0].generators[0].target)]
        elt = comps[0].elt
        forms = {src(elt.body), src(elt.orelse)} \
            if isinstance(elt, ast.IfExp) else {src(elt)}
    if len(loopv) != 1 or forms != {loopv[0], loopv[0] + ".value"}:
        raise AnalysisError("Nodes.tagless_elements no longer maps an "
                            "element to itself / its .value: {}".format(
                                sorted(forms)))
    # ... and what it hands out is a list of its own on every path: the
    # UNIQUE policies take it once as the reference snapshot of the left
    # side and then append to the left side
    chk.rule("C05-D1t", "Nodes.tagless_elements returns a list it built "
             "itself on every path (never its parameter)", floor=1)
    params = set(te.params())
    for r in walk_local(te.node):
        if not isinstance(r, ast.Return):
            continue
        v = r.value
        fresh = isinstance(v, (ast.List, ast.ListComp)) or (
            isinstance(v, ast.Call) and src(v.func) == "list")
        if isinstance(v, ast.Name) and v.id not in params:
            defs = [a.value for a in walk_local(te.node)
                    if isinstance(a, (ast.Assign, ast.AnnAssign)) and
                    a.value is not None and src(
                        a.targets[0] if isinstance(a, ast.Assign)
                        else a.target) == v.id]
            fresh = bool(defs) and all(
                isinstance(d, (ast.List, ast.ListComp)) or
                (isinstance(d, ast.Call) and src(d.func) == "list")
                for d in defs)
        if fresh:
            chk.ok("C05-D1t", te, r, "tagless_elements: `{}`".format(
                src(r)[:50]), "a list built in the function")
        else:
            chk.fail("C05-D1t", te, r, "tagless_elements: `{}`".format(
                src(r)[:50]),
                "the caller's own list (or something not built here) is "
                "handed back: _merge_simple_lists keeps it as the snapshot "
                "of the left side while appending to that very list, so a "
                "right-hand value that occurs twice is appended once "
                "(arrays=unique is defined against the left side as it "
                "was)")
    n = 0
    for q in ("Merger._merge_simple_lists", "Merger._merge_sets"):
        fi = prog.func(q)
        hay_defs = [a for a in walk_local(fi.node)
                    if isinstance(a, ast.Assign) and any(
                        isinstance(c, ast.Call) and
                        src(c.func).endswith("tagless_elements")
                        for c in ast.walk(a.value))]
        hay = {src(a.targets[0]) for a in hay_defs}
        # the haystack stays a *sequence*: the elements of a "simple" list
        # may be nested Arrays (or Hashes after a scalar), which cannot be
        # hashed -- a set / frozenset / dict index of them raises TypeError
        # instead of merging
        for a in hay_defs:
            if q.endswith("_merge_sets"):
                continue    # members of a set are hashable by construction
            hashed = [c for c in ast.walk(a.value) if isinstance(c, ast.Call)
                      and src(c.func) in ("set", "frozenset", "dict",
                                          "dict.fromkeys", "Counter")]
            hashed += [c for c in ast.walk(a.value)
                       if isinstance(c, (ast.SetComp, ast.DictComp, ast.Set))]
            text = "{}: `{}`".format(fi.short, src(a)[:60])
            if hashed:
                chk.fail("C05-D1m", fi, a, text,
                         "the de-tagged left elements are indexed by hash: "
                         "an Array holding a nested Array or a Hash "
                         "(Array-of-Arrays under arrays=unique) ends in "
                         "TypeError: unhashable type, neither a merged "
                         "document nor a MergeException")
            else:
                chk.ok("C05-D1m", fi, a, text, "kept as a list and scanned "
                       "with ==")
        for t in walk_local(fi.node):
            if not (isinstance(t, ast.Compare) and len(t.ops) == 1 and
                    isinstance(t.ops[0], (ast.In, ast.NotIn)) and
                    src(t.comparators[0]) in hay):
                continue
            n += 1
            needle = src(t.left)
            loop = [a for a in ancestors(t) if isinstance(a, ast.For)]
            if not loop:
                raise AnalysisError("membership test outside a loop")
            tgt = loop[0].target
            elem = src(tgt.elts[-1]) if isinstance(tgt, ast.Tuple) \
                else src(tgt)
            defs = [a for a in walk_local(loop[0])
                    if isinstance(a, ast.Assign) and
                    src(a.targets[0]) == needle]
            allowed = {elem, elem + ".value"}
            bad = [d for d in defs if src(d.value) not in allowed and not (
                isinstance(d.value, ast.IfExp) and
                {src(d.value.body), src(d.value.orelse)} <= allowed)]
            text = "{}: `{}`".format(fi.short, src(t))
            if needle != elem and not defs:
                bad = [t]
            if bad:
                chk.fail("C05-D1j", fi, bad[0], text,
                         "the needle is `{}`: not the element or its "
                         ".value, so the two sides of the membership test "
                         "are normalised differently (a typed conversion "
                         "makes the text '1' match the number 1)".format(
                             src(getattr(bad[0], "value", bad[0]))[:50]))
            else:
                chk.ok("C05-D1j", fi, t, text,
                       "needle is {} / {}.value".format(elem, elem))


def d1l_results_are_used(chk: Check) -> None:
    """The mergers return the merged node.  It is the left operand itself
    in the accumulating modes, but another object in the replacing modes
    (RIGHT; UNIQUE for arrays) -- and may be one for any shortcut a merger
    takes.  Every caller therefore *uses* the returned object (stores it
    where the left operand was held, hands it on, or returns it); a call
    whose result is dropped silently loses a replacing merge."""
    prog = chk.prog
    chk.rule("C05-D1l", "no call of a merger (_merge_dicts / _merge_lists / "
             "_merge_simple_lists / _merge_arrays_of_hashes / _merge_sets) "
             "discards the merged node it returns", floor=10)
    names = ("_merge_dicts", "_merge_lists", "_merge_simple_lists",
             "_merge_arrays_of_hashes", "_merge_sets")
    for fi in prog.funcs_in("yamlpath/merger/merger.py"):
        for c in walk_local(fi.node):
            if not (isinstance(c, ast.Call) and
                    isinstance(c.func, ast.Attribute) and
                    c.func.attr in names):
                continue
            p_ = parent(c)
            text = "{}: {}(...)".format(fi.short, c.func.attr)
            if isinstance(p_, ast.Expr):
                # in-place use is sound only when the call cannot return
                # another object than its first argument: not decidable
                # here, so it must be the DEEP hash merger (which has no
                # replacing mode and returns its left operand on all paths)
                callee = prog.func("Merger." + c.func.attr)
                rets = {src(r.value) for r in walk_local(callee.node)
                        if isinstance(r, ast.Return) and r.value is not None}
                if rets == {callee.params()[1]}:
                    chk.ok("C05-D1l", fi, c, text,
                           "result unused, but the callee returns its left "
                           "operand on every path")
                else:
                    chk.fail("C05-D1l", fi, c, text,
                             "the merged node is discarded although {} can "
                             "return {}: with a replacing policy the target "
                             "keeps its old content".format(
                                 c.func.attr, sorted(rets)))
            else:
                chk.ok("C05-D1l", fi, c, text, "result stored / handed on")


def d1k_snapshot_of_right_operand(chk: Check) -> None:
    """After anchor unification (`replace_anchor`: equal same-name anchors
    become one node) a list merger can be handed *one list as both
    operands*.  A loop over the right operand that appends to the left one
    then never ends.  The list mergers therefore iterate a snapshot of the
    right operand (`list(rhs)`); the hash and set mergers only add under an
    absence test on the left operand, which is false for every element of
    the same object, and are not concerned."""
    prog = chk.prog
    chk.rule("C05-D1k", "the list mergers iterate a snapshot of their right "
             "operand wherever the loop body can grow the left operand",
             floor=2)
    for q in ("Merger._merge_simple_lists", "Merger._merge_arrays_of_hashes"):
        fi = prog.func(q)
        lhs, rhs = fi.params()[1], fi.params()[2]
        n = 0
        for loop in walk_local(fi.node):
            if not isinstance(loop, ast.For):
                continue
            roots = {x.id for x in ast.walk(loop.iter)
                     if isinstance(x, ast.Name)}
            if rhs not in roots:
                continue
            grows = any(
                isinstance(c, ast.Call) and (
                    (isinstance(c.func, ast.Attribute) and
                     src(c.func.value) == lhs and
                     c.func.attr in ("append", "insert", "extend")) or
                    (src(c.func).endswith("append_list_element") and
                     c.args and src(c.args[0]) == lhs))
                for c in walk_local(loop))
            if not grows:
                continue
            n += 1
            it = loop.iter
            inner = it.args[0] if isinstance(it, ast.Call) and \
                src(it.func) == "enumerate" and it.args else it
            snap = isinstance(inner, ast.Call) and \
                src(inner.func) in ("list", "tuple") and inner.args and \
                src(inner.args[0]) == rhs
            text = "{}: for ... in {}".format(fi.short, src(it))
            if snap:
                chk.ok("C05-D1k", fi, loop, text, "snapshot of `{}`".format(
                    rhs))
            else:
                chk.fail("C05-D1k", fi, loop, text,
                         "the loop reads `{}` live and appends to `{}`: "
                         "when both are one list (equal same-name anchors "
                         "are unified into one node) the merge never "
                         "ends".format(rhs, lhs))
        if n == 0:
            raise AnalysisError(fi.short + ": growing loop over the right "
                                "operand not found")


def d2h_option_names_fold_case(chk: Check, rid: str = "C05-D2h",
                               relpaths=("yamlpath/merger/mergerconfig.py",
                                         "yamlpath/differ/differconfig.py")
                               ) -> None:
    """The accessors look the policy names up in lower case (`arrays`,
    `aoh`, ...), relying on ConfigParser folding option names.  Turning the
    folding off (`optionxform = str`) makes `Arrays = unique` in a user's
    file an unknown option that is silently ignored."""
    prog = chk.prog
    chk.rule(rid, "the configuration parser keeps ConfigParser's default "
             "option-name folding (no store to `optionxform`)", floor=2)
    for rel in relpaths:
        for fi in prog.funcs_in(rel):
            makes = [c for c in walk_local(fi.node) if isinstance(c, ast.Call)
                     and src(c.func).endswith("ConfigParser")]
            if not makes:
                continue
            bad = [n for n in walk_local(fi.node)
                   if isinstance(n, ast.Attribute) and
                   n.attr == "optionxform" and isinstance(n.ctx, ast.Store)]
            bad += [k for c in makes for k in c.keywords]
            text = "{}: ConfigParser()".format(fi.short)
            if bad:
                chk.fail(rid, fi, bad[0], text,
                         "option names are no longer folded to lower case: "
                         "the accessors' look-ups of `arrays`, `aoh`, "
                         "`hashes`, ... miss `Arrays = ...` in the user's "
                         "file and the built-in default is used instead")
            else:
                chk.ok(rid, fi, makes[0], text, "default option folding")


def d1p_destination_kind_is_checked(chk: Check) -> None:
    """Each merger that writes into its left operand first refuses a left
    operand of another kind with a MergeException ("Impossible to add Hash
    data to non-Hash destination").  The siblings agree on this -- a merger
    without the test meets `a: hello` + `a: !!set {x}` with
    AttributeError: 'str' object has no attribute 'add'."""
    prog = chk.prog
    chk.rule("C05-D1p", "every merger that mutates its left operand starts "
             "by refusing a left operand of another kind (isinstance test "
             "-> MergeException)", floor=4)
    from sa.effects import mutation_sites
    for q in ("Merger._merge_dicts", "Merger._merge_simple_lists",
              "Merger._merge_arrays_of_hashes", "Merger._merge_sets"):
        fi = prog.func(q)
        lhs = fi.params()[1]
        guard = None
        for st in fi.node.body:
            if isinstance(st, ast.If) and isinstance(st.test, ast.UnaryOp) \
                    and isinstance(st.test.op, ast.Not) and \
                    isinstance(st.test.operand, ast.Call) and \
                    src(st.test.operand.func) == "isinstance" and \
                    src(st.test.operand.args[0]) == lhs and any(
                        isinstance(x, ast.Raise) and
                        "MergeException" in src(x) for x in st.body):
                guard = st
                break
            if not isinstance(st, ast.Expr):
                break      # only the docstring may precede the guard
        text = "{}: left operand `{}`".format(fi.short, lhs)
        if guard is not None:
            chk.ok("C05-D1p", fi, guard, text,
                   "refused unless " + src(guard.test.operand))
        else:
            chk.fail("C05-D1p", fi, fi.node, text,
                     "no kind test on the left operand before it is "
                     "written to: a scalar, list or hash on the left and "
                     "this kind on the right end in AttributeError / "
                     "TypeError instead of a MergeException")


def d2i_exact_key_entry_first(chk: Check) -> None:
    """An identity key can be configured for one record (`/list[name=x] =
    sku`) and for the whole Array (`/list = name`).  The record's own entry
    wins: it is looked up first, and the entries of the *parent* are only
    consulted when there is none.  Folding the two look-ups into one pass
    over the table makes the winner depend on the order of the lines in
    the configuration file."""
    prog = chk.prog
    chk.rule("C05-D2i", "aoh_merge_key / aoh_diff_key look the node's own "
             "entry up first (_get_key_for) and scan the parents' entries "
             "only when that found nothing", floor=2)
    for q in ("MergerConfig.aoh_merge_key", "DifferConfig.aoh_diff_key"):
        fi = prog.func(q)
        own = [a for a in fi.node.body if isinstance(a, ast.Assign) and
               isinstance(a.value, ast.Call) and
               src(a.value.func).endswith("_get_key_for")]
        text = "{}: look-up order".format(fi.short)
        if not own:
            chk.fail("C05-D2i", fi, fi.node, text,
                     "the node's own [keys] entry is not looked up on its "
                     "own: whichever entry (record or whole Array) comes "
                     "first in the table decides")
            continue
        key = src(own[0].targets[0])
        scans = [l for l in walk_local(fi.node) if isinstance(l, ast.For) and
                 ".keys.items()" in src(l.iter)]
        bad = [l for l in scans if not any(
            f.kind == "cond" and not f.pol and src(f.expr) == key or
            f.kind == "cond" and f.pol and src(f.expr) == "not " + key
            for f in facts_at(l))]
        if scans and not bad:
            chk.ok("C05-D2i", fi, scans[0], text,
                   "parents scanned under `not {}`".format(key))
        elif not scans:
            chk.ok("C05-D2i", fi, own[0], text, "own entry only")
        else:
            chk.fail("C05-D2i", fi, bad[0], text,
                     "the scan of the parents' entries is not limited to "
                     "the case that the node has no entry of its own")


def d1r_existing_key_is_membership(chk: Check) -> None:
    """Whether the left Hash "has" a right-hand key is plain membership.
    The other arm of that test treats the key as *new* and inserts it at a
    position (ruamel's `insert()`), which for a key that does exist --
    holding null, say -- writes the old value back behind the new one: the
    right-hand value is lost and the key jumps ahead of earlier keys."""
    prog = chk.prog
    chk.rule("C05-D1r", "the test that routes a right-hand key of "
             "_merge_dicts to the update arm or to the insert-as-new buffer "
             "is exactly `key in <left operand>`", floor=1)
    fi = prog.func("Merger._merge_dicts")
    lhs = fi.params()[1]
    arms = [st for st in walk_local(fi.node) if isinstance(st, ast.If) and
            st.orelse and any(
                isinstance(c, ast.Call) and src(c.func).endswith(".append")
                and c.args and isinstance(c.args[0], ast.Tuple)
                for b in st.orelse for c in ast.walk(b))]
    if len(arms) != 1:
        raise AnalysisError("_merge_dicts: existing/new key test not found")
    t = arms[0].test
    text = "_merge_dicts: if {}".format(src(t)[:50])
    if isinstance(t, ast.Compare) and len(t.ops) == 1 and \
            isinstance(t.ops[0], ast.In) and src(t.comparators[0]) == lhs:
        chk.ok("C05-D1r", fi, arms[0], text, "membership alone")
    else:
        chk.fail("C05-D1r", fi, arms[0], text,
                 "keys that exist on the left can be routed to the "
                 "insert-as-new buffer: inserting an existing key re-writes "
                 "its old value after the new one, so the right-hand value "
                 "is dropped and the key order changes")


def d1s_set_merger_gets_sets(chk: Check) -> None:
    """`_merge_sets` can *return its right operand* (policy RIGHT).  Every
    caller therefore hands it a Set: the right-hand Set itself, or a Set
    built from the right-hand Array / scalar.  Passing the Array through
    "because the merger only iterates it" makes `sets=right` replace the
    Set at the merge point by an Array."""
    prog = chk.prog
    chk.rule("C05-D1s", "the right operand of every _merge_sets call is a "
             "Set (annotated / tested as CommentedSet, or built with "
             "CommentedSet(...))", floor=3)
    n = 0
    for fi in prog.funcs_in("yamlpath/merger/merger.py"):
        for c in walk_local(fi.node):
            if not (isinstance(c, ast.Call) and
                    src(c.func).endswith("._merge_sets") and
                    len(c.args) >= 2):
                continue
            n += 1
            arg = c.args[1]
            text = "{}: _merge_sets(..., {})".format(fi.short, src(arg)[:30])
            ok = isinstance(arg, ast.Call) and src(arg.func) == "CommentedSet"
            if isinstance(arg, ast.Name):
                ann = next((a.annotation for a in fi.node.args.args
                            if a.arg == arg.id and a.annotation is not None),
                           None)
                if ann is not None and src(ann) == "CommentedSet":
                    ok = True
                if any(isinstance(a, (ast.Assign, ast.AnnAssign)) and
                       src(a.targets[0] if isinstance(a, ast.Assign)
                           else a.target) == arg.id and
                       isinstance(a.value, ast.Call) and
                       src(a.value.func) == "CommentedSet"
                       for a in walk_local(fi.node)):
                    ok = True
                if any(f.kind == "cond" and f.pol and
                       isinstance(f.expr, ast.Call) and
                       src(f.expr.func) == "isinstance" and
                       src(f.expr.args[0]) == arg.id and
                       "CommentedSet" in src(f.expr.args[1])
                       for f in facts_at(c)):
                    ok = True
            if ok:
                chk.ok("C05-D1s", fi, c, text, "a Set")
            else:
                chk.fail("C05-D1s", fi, c, text,
                         "`{}` is not known to be a Set: under sets=right "
                         "the merger returns it, and the Set at the merge "
                         "point becomes whatever it is (an Array)".format(
                             src(arg)))
    if n < 3:
        raise AnalysisError("_merge_sets calls: {}".format(n))


def d1q_rekeying_keeps_position(chk: Check) -> None:
    """When a key of an ordered mapping is replaced by another object (the
    node of the surviving Anchor takes the place of the losing one), the
    entry keeps its place: `m.insert(position, new_key, m.pop(old_key))`.
    `m[new_key] = m.pop(old_key)` looks equivalent but appends the entry at
    the end, so every key that followed it moves ahead of it -- the merged
    document has the right values in another order."""
    prog = chk.prog
    chk.rule("C05-D1q", "an entry taken out of a mapping with pop() to be "
             "re-keyed is put back with insert(position, ...), never by a "
             "plain subscript store", floor=1)
    n = 0
    for rel in ("yamlpath/common/anchors.py", "yamlpath/merger/merger.py"):
        for fi in prog.funcs_in(rel):
            for c in walk_local(fi.node):
                if not (isinstance(c, ast.Call) and
                        isinstance(c.func, ast.Attribute) and
                        c.func.attr == "pop" and len(c.args) == 1 and
                        src(c.func.value) not in ("kwargs",)):
                    continue
                p_ = parent(c)
                cont = src(c.func.value)
                if isinstance(p_, ast.Call) and \
                        isinstance(p_.func, ast.Attribute) and \
                        p_.func.attr == "insert" and \
                        src(p_.func.value) == cont and len(p_.args) == 3:
                    n += 1
                    chk.ok("C05-D1q", fi, p_, "{}: {}".format(
                        fi.short, src(p_)[:60]), "re-inserted at a position")
                elif isinstance(p_, ast.Assign) and any(
                        isinstance(t, ast.Subscript) and
                        src(t.value) == cont for t in p_.targets):
                    n += 1
                    chk.fail("C05-D1q", fi, p_, "{}: {}".format(
                        fi.short, src(p_)[:60]),
                        "the re-keyed entry is stored by subscript: it "
                        "lands behind every other key of `{}`, so the keys "
                        "that followed it move ahead (values intact, order "
                        "changed)".format(cont))
    if n < 1:
        raise AnalysisError("re-keying sites found: {}".format(n))


def run(chk: Check) -> None:
    d1_lists(chk)
    d1_dicts(chk)
    d2_ladders(chk)
    d2b_rule_lookup(chk)
    d1g_own_keys_survive(chk)
    d1h_list_routing(chk)
    d1i_own_keys_before_tests(chk)
    d1j_same_normalisation(chk)
    d1l_results_are_used(chk)
    d1k_snapshot_of_right_operand(chk)
    d1q_rekeying_keeps_position(chk)
    d1p_destination_kind_is_checked(chk)
    d2i_exact_key_entry_first(chk)
    d1r_existing_key_is_membership(chk)
    d1s_set_merger_gets_sets(chk)
    d2h_option_names_fold_case(chk)
    from rules.shared import effects_not_shortcircuited_rule
    effects_not_shortcircuited_rule(
        chk, "C05-D1n", ("yamlpath/merger/merger.py",),
        ("_insert_", "_merge_", "merge_with"), 15)
    from rules.shared import readonly_lookups_rule
    readonly_lookups_rule(chk, "C05-D2g",
                          ("yamlpath/merger/mergerconfig.py",), 1)
    d2f_identity_key_as_is(chk)
    d2c_per_rule_handler(chk)
    d2d_rules_per_document(chk)
    d2e_prepare_after_anchors(chk)
    d3_exceptions(chk)
    d4_from_str(chk)
